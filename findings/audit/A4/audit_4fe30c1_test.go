package dig_test

// Audit of 4fe30c1 "Visualize and CanVisualizeError do not look inside the
// error a constructor returned".
//
// The fix stops the walk at errConstructorFailed. A decorator's error is not
// wrapped in errConstructorFailed (decoratorNode.Call returns it as is), so
// the sibling path is untouched: when a decorator returns the error of
// another container, Visualize still paints that container's missing types
// and failed results into this container's graph, and the foreign missing
// type is reported as THE root cause.
//
// Both tests fail on HEAD (and on the parent of 4fe30c1: the commit did not
// introduce this, it left it behind).

import (
	"bytes"
	"strings"
	"testing"

	"go.uber.org/dig"
)

type auditVizX struct{}
type auditVizY struct{}
type auditVizForeign struct{}
type auditVizForeign2 struct{}

// an error of ANOTHER container: a missing type and a failed constructor.
func auditVizForeignErr(t *testing.T) error {
	b := dig.New()
	if err := b.Provide(func(*auditVizForeign) *auditVizForeign2 { return nil }); err != nil {
		t.Fatal(err)
	}
	err := b.Invoke(func(*auditVizForeign2) {})
	if err == nil {
		t.Fatal("setup: the other container's Invoke must fail")
	}
	return err
}

func auditVizRender(t *testing.T, c *dig.Container, err error) string {
	var buf bytes.Buffer
	if e := dig.Visualize(c, &buf, dig.VisualizeError(err)); e != nil {
		t.Fatal(e)
	}
	return buf.String()
}

// Reference: the constructor path, which the commit repaired. Passes.
func TestAuditVisualizeForeignErrorFromConstructor(t *testing.T) {
	fe := auditVizForeignErr(t)
	c := dig.New()
	if err := c.Provide(func() (*auditVizX, error) { return nil, fe }); err != nil {
		t.Fatal(err)
	}
	if err := c.Provide(func(*auditVizX) *auditVizY { return nil }); err != nil {
		t.Fatal(err)
	}
	err := c.Invoke(func(*auditVizY) {})
	if err == nil {
		t.Fatal("expected a failure")
	}
	if s := auditVizRender(t, c, err); strings.Contains(s, "auditVizForeign") {
		t.Errorf("the other container's types are painted into this container's graph:\n%s", s)
	}
}

// The same error returned by a decorator of a single value. Fails on HEAD.
func TestAuditVisualizeForeignErrorFromDecorator(t *testing.T) {
	fe := auditVizForeignErr(t)
	c := dig.New()
	if err := c.Provide(func() *auditVizX { return &auditVizX{} }); err != nil {
		t.Fatal(err)
	}
	if err := c.Provide(func(*auditVizX) *auditVizY { return nil }); err != nil {
		t.Fatal(err)
	}
	if err := c.Decorate(func(*auditVizX) (*auditVizX, error) { return nil, fe }); err != nil {
		t.Fatal(err)
	}
	err := c.Invoke(func(*auditVizY) {})
	if err == nil {
		t.Fatal("expected a failure")
	}
	s := auditVizRender(t, c, err)
	if strings.Contains(s, "auditVizForeign") {
		t.Errorf("the other container's types are painted into this container's graph:\n%s", s)
	}
	if strings.Contains(s, `auditVizForeign" [color=red]`) {
		t.Errorf("a type of the other container is reported as the root cause")
	}
}

// The same error returned by a decorator of a value group. Fails on HEAD.
func TestAuditVisualizeForeignErrorFromGroupDecorator(t *testing.T) {
	type in struct {
		dig.In
		G []string `group:"g"`
	}
	type out struct {
		dig.Out
		G []string `group:"g"`
	}
	fe := auditVizForeignErr(t)
	c := dig.New()
	if err := c.Provide(func() string { return "x" }, dig.Group("g")); err != nil {
		t.Fatal(err)
	}
	if err := c.Provide(func(in) *auditVizY { return nil }); err != nil {
		t.Fatal(err)
	}
	if err := c.Decorate(func(in) (out, error) { return out{}, fe }); err != nil {
		t.Fatal(err)
	}
	err := c.Invoke(func(*auditVizY) {})
	if err == nil {
		t.Fatal("expected a failure")
	}
	if s := auditVizRender(t, c, err); strings.Contains(s, "auditVizForeign") {
		t.Errorf("the other container's types are painted into this container's graph:\n%s", s)
	}
}
