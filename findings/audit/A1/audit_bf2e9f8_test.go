package dig_test

// Audit of bf2e9f8 "fix: IsCycleDetected follows only the links dig created,
// not the error a constructor returned".
//
// Copy into the module root and run
//   go test -vet=off -count=1 -run TestAuditBf2e9f8 .

import (
	"errors"
	"fmt"
	"testing"

	"go.uber.org/dig"
)

type auditBfA struct{}
type auditBfB struct{}
type auditBfC struct{}

// auditBfCycleErr returns the error of a Provide that a container rejected
// because it closes a cycle.
func auditBfCycleErr(t *testing.T, c *dig.Container) error {
	t.Helper()
	if err := c.Provide(func(*auditBfB) *auditBfA { return nil }); err != nil {
		t.Fatal(err)
	}
	err := c.Provide(func(*auditBfA) *auditBfB { return nil })
	if err == nil || !dig.IsCycleDetected(err) {
		t.Fatalf("expected a cycle rejection, got %v", err)
	}
	return err
}

// REGRESSION (passes on bf2e9f8^, fails on HEAD).
//
// The caller collects the errors of several registrations with errors.Join
// (or fmt.Errorf with two %w, or any multi-error with Unwrap() []error). One
// of them is a genuine cycle rejection of this very container. The old
// implementation (errors.As for *errCycleDetected) searched the whole tree and
// answered true. The new one lets errors.As pick the FIRST dig.Error in the
// tree and then only follows that one chain, so the answer depends on the
// order in which the errors were joined.
func TestAuditBf2e9f8JoinedErrors(t *testing.T) {
	c := dig.New()
	notCycle := c.Provide(func() {}) // rejected: provides nothing
	if notCycle == nil {
		t.Fatal("expected an error")
	}
	cycle := auditBfCycleErr(t, c)

	if !dig.IsCycleDetected(errors.Join(cycle, notCycle)) {
		t.Errorf("IsCycleDetected(Join(cycle, other)) = false")
	}
	if !dig.IsCycleDetected(errors.Join(notCycle, cycle)) {
		t.Errorf("IsCycleDetected(Join(other, cycle)) = false, but Join(cycle, other) is true: " +
			"a cycle rejection of this container is in the error, only behind another dig error")
	}
	if !dig.IsCycleDetected(fmt.Errorf("setup failed: %w; %w", notCycle, cycle)) {
		t.Errorf("IsCycleDetected(Errorf(%%w; %%w, other, cycle)) = false")
	}
}

// INCOMPLETE FIX (fails on bf2e9f8^ and on HEAD).
//
// The commit stops at errConstructorFailed, but an error returned by a
// DECORATOR is not wrapped in any marker (decoratorNode.Call returns it bare
// and it becomes the Reason of errParamSingleFailed / errParamGroupFailed), so
// the walk continues into it. A decorator that passes on the cycle rejection
// of another container still makes IsCycleDetected report a cycle of this one,
// which is exactly what the commit set out to stop for constructors (C13 names
// constructors and decorators together).
func TestAuditBf2e9f8DecoratorError(t *testing.T) {
	innerErr := auditBfCycleErr(t, dig.New())

	t.Run("constructor (fixed)", func(t *testing.T) {
		c := dig.New()
		if err := c.Provide(func() (*auditBfC, error) { return nil, innerErr }); err != nil {
			t.Fatal(err)
		}
		err := c.Invoke(func(*auditBfC) {})
		if err == nil {
			t.Fatal("expected an error")
		}
		if dig.IsCycleDetected(err) {
			t.Errorf("IsCycleDetected = true for an error a constructor returned")
		}
	})

	t.Run("value decorator", func(t *testing.T) {
		c := dig.New()
		if err := c.Provide(func() *auditBfC { return &auditBfC{} }); err != nil {
			t.Fatal(err)
		}
		if err := c.Decorate(func(*auditBfC) (*auditBfC, error) { return nil, innerErr }); err != nil {
			t.Fatal(err)
		}
		err := c.Invoke(func(*auditBfC) {})
		if err == nil {
			t.Fatal("expected an error")
		}
		if dig.IsCycleDetected(err) {
			t.Errorf("IsCycleDetected = true for an error a decorator returned; this container has no cycle")
		}
		if got := dig.RootCause(err); got != innerErr {
			t.Logf("(related, 53296d2) RootCause does not return the decorator's error by identity either: %T", got)
		}
	})

	t.Run("group decorator", func(t *testing.T) {
		type in struct {
			dig.In
			G []string `group:"g"`
		}
		type out struct {
			dig.Out
			G []string `group:"g"`
		}
		c := dig.New()
		if err := c.Decorate(func(in) (out, error) { return out{}, innerErr }); err != nil {
			t.Fatal(err)
		}
		err := c.Invoke(func(in) {})
		if err == nil {
			t.Fatal("expected an error")
		}
		if dig.IsCycleDetected(err) {
			t.Errorf("IsCycleDetected = true for an error a group decorator returned; this container has no cycle")
		}
	})
}
