package dig_test

import (
	"errors"
	"testing"

	"go.uber.org/dig"
)

// Before 12e1108 a value group whose members are errors (or any type that
// implements error) could be fed from a group-tagged field of a result
// object, and the members were delivered to `[]error` consumers. Upstream dig
// accepts this too. Since 12e1108 the field is routed through newResult, whose
// isError case rejects it with "cannot return an error here, return it from
// the constructor instead" - although the same group can still be fed with
// `[]error` + flatten (by tag and by dig.Group), so groups of errors remain
// legal and only this way of feeding them stopped working.
//
// Passes on 12e1108^, fails on 12e1108 and on HEAD.

type auditProblem struct{ msg string }

func (p *auditProblem) Error() string { return p.msg }

func TestAuditGroupOfErrorsFromResultObjectField(t *testing.T) {
	e1 := errors.New("first")
	e2 := errors.New("second")

	type out struct {
		dig.Out

		Problem error `group:"problems"`
	}
	type in struct {
		dig.In

		Problems []error `group:"problems"`
	}

	c := dig.New()
	if err := c.Provide(func() out { return out{Problem: e1} }); err != nil {
		t.Fatalf("group-tagged error field was accepted before 12e1108: %v", err)
	}
	// The flatten form feeds the very same group and is still accepted.
	if err := c.Provide(func() []error { return []error{e2} }, dig.Group("problems,flatten")); err != nil {
		t.Fatalf("flatten form: %v", err)
	}
	if err := c.Invoke(func(i in) {
		if len(i.Problems) != 2 {
			t.Fatalf("want both members, got %v", i.Problems)
		}
	}); err != nil {
		t.Fatal(err)
	}
}

func TestAuditGroupOfErrorImplementersFromResultObjectField(t *testing.T) {
	type out struct {
		dig.Out

		P *auditProblem `group:"problems"`
	}
	type in struct {
		dig.In

		Ps []*auditProblem `group:"problems"`
	}

	c := dig.New()
	if err := c.Provide(func() out { return out{P: &auditProblem{"x"}} }); err != nil {
		t.Fatalf("group-tagged field of a type implementing error was accepted before 12e1108: %v", err)
	}
	if err := c.Invoke(func(i in) {
		if len(i.Ps) != 1 || i.Ps[0].msg != "x" {
			t.Fatalf("got %v", i.Ps)
		}
	}); err != nil {
		t.Fatal(err)
	}
}
