package dig_test

// Audit of 2e28d72 "an optional parameter no longer hides a constructor error
// that wraps a missing-dependencies error".
//
// missingDependencies() stops at errConstructorFailed, but the error a
// DECORATOR returns is never wrapped in errConstructorFailed
// (decoratorNode.Call returns it raw, buildWithDecorators / callGroupDecorators
// put it directly under errParamSingleFailed / errParamGroupFailed). If that
// error is a dig error of another container that says "missing dependencies",
// the walk continues into it and an optional consumer still swallows the
// decorator's failure: the invoked function runs with a zero value.
//
// Copy into the module root and run: go test -vet=off -run TestAudit2e28d72 .
// Both tests FAIL on HEAD (and on the parent commit: this is the half of the
// defect the fix left behind, not a regression).

import (
	"testing"

	"go.uber.org/dig"
)

type audit2e28A struct{ v int }
type audit2e28X struct{ v int }
type audit2e28Z struct{}

type audit2e28OptA struct {
	dig.In
	A *audit2e28A `optional:"true"`
}

// an error of ANOTHER container: "missing dependencies for function ...".
func audit2e28NestedMissing(t *testing.T) error {
	inner := dig.New()
	if err := inner.Provide(func(audit2e28Z) *audit2e28X { return &audit2e28X{} }); err != nil {
		t.Fatal(err)
	}
	err := inner.Invoke(func(*audit2e28X) {})
	if err == nil {
		t.Fatal("expected inner error")
	}
	return err
}

// Control: the constructor path the commit fixed.
func TestAudit2e28d72ConstructorControl(t *testing.T) {
	c := dig.New()
	nerr := audit2e28NestedMissing(t)
	if err := c.Provide(func() (*audit2e28A, error) { return nil, nerr }); err != nil {
		t.Fatal(err)
	}
	if err := c.Invoke(func(audit2e28OptA) { t.Error("invoked") }); err == nil {
		t.Fatal("optional hid the constructor's error")
	}
}

func TestAudit2e28d72DecoratorErrorHiddenByOptional(t *testing.T) {
	c := dig.New()
	nerr := audit2e28NestedMissing(t)
	if err := c.Provide(func() *audit2e28X { return &audit2e28X{v: 1} }); err != nil {
		t.Fatal(err)
	}
	decRuns := 0
	if err := c.Decorate(func(x *audit2e28X) (*audit2e28X, error) { decRuns++; return nil, nerr }); err != nil {
		t.Fatal(err)
	}
	// A's only dependency (X) is available; its decorator fails.
	if err := c.Provide(func(x *audit2e28X) *audit2e28A { return &audit2e28A{v: x.v} }); err != nil {
		t.Fatal(err)
	}
	var got *audit2e28A
	invoked := false
	err := c.Invoke(func(in audit2e28OptA) { invoked = true; got = in.A })
	if err == nil {
		t.Fatalf("optional hid the error returned by the decorator: decorator ran %d time(s), function invoked=%v with A=%v; want Invoke to fail with the decorator's error",
			decRuns, invoked, got)
	}
}

func TestAudit2e28d72GroupDecoratorErrorHiddenByOptional(t *testing.T) {
	c := dig.New()
	nerr := audit2e28NestedMissing(t)
	type gin struct {
		dig.In
		G []int `group:"audit2e28"`
	}
	type gout struct {
		dig.Out
		G []int `group:"audit2e28"`
	}
	if err := c.Provide(func() int { return 1 }, dig.Group("audit2e28")); err != nil {
		t.Fatal(err)
	}
	if err := c.Decorate(func(in gin) (gout, error) { return gout{}, nerr }); err != nil {
		t.Fatal(err)
	}
	if err := c.Provide(func(in gin) *audit2e28A { return &audit2e28A{v: len(in.G)} }); err != nil {
		t.Fatal(err)
	}
	invoked := false
	err := c.Invoke(func(in audit2e28OptA) { invoked = true })
	if err == nil {
		t.Fatalf("optional hid the error returned by the group decorator (function invoked=%v)", invoked)
	}
}
