package dig_test

// Audit of 893bc08 "dig's leaf errors are returned by pointer so that
// errors.Is on dig's error chains answers instead of panicking".
//
// The two slice-backed leaves (errMissingTypes, errCycleDetected) are fixed.
// Two leaves that dig still embeds BY VALUE in its comparable wrapper structs
// can hold uncomparable data and keep the very same panic alive:
//
//   - dig.PanicError{Panic any}: the recovered panic value is arbitrary
//     (panic([]int{..}), panic(map...), panic(struct with a slice) ...).
//   - the error a constructor returned, when its dynamic type is not
//     comparable (a slice-typed error such as validator.ValidationErrors).
//     errors.Is(userErr, userErr) alone does NOT panic (errors.Is checks
//     comparability of the target); it panics only once dig has wrapped it in
//     errConstructorFailed/errParamSingleFailed/errArgumentsFailed values.
//
// Copy into the module root and run: go test -vet=off -run TestAudit893bc08 .
// Control passes; the other tests FAIL on HEAD (they also fail on the parent).

import (
	"errors"
	"fmt"
	"testing"

	"go.uber.org/dig"
)

type audit893A struct{}

func audit893Is(t *testing.T, label string, err error) {
	t.Helper()
	if err == nil {
		t.Fatalf("%s: expected an error", label)
	}
	defer func() {
		if p := recover(); p != nil {
			t.Errorf("%s: errors.Is(err, err) panicked: %v", label, p)
		}
	}()
	if !errors.Is(err, err) {
		t.Errorf("%s: errors.Is(err, err) = false", label)
	}
}

// Control: what the commit repaired.
func TestAudit893bc08Control(t *testing.T) {
	c := dig.New()
	audit893Is(t, "missing type", c.Invoke(func(audit893A) {}))
	d := dig.New(dig.DeferAcyclicVerification())
	_ = d.Provide(func(audit893A) int { return 0 })
	_ = d.Provide(func(int) audit893A { return audit893A{} })
	audit893Is(t, "cycle", d.Invoke(func(int) {}))
}

func TestAudit893bc08PanicErrorWithUncomparableValue(t *testing.T) {
	c := dig.New(dig.RecoverFromPanics())
	if err := c.Provide(func() audit893A { panic([]int{1}) }); err != nil {
		t.Fatal(err)
	}
	audit893Is(t, "panic in constructor", c.Invoke(func(audit893A) {}))
	audit893Is(t, "panic in invoked function", c.Invoke(func() { panic(map[string]int{}) }))
}

type audit893SliceErr []string

func (e audit893SliceErr) Error() string { return fmt.Sprint([]string(e)) }

func TestAudit893bc08UncomparableConstructorError(t *testing.T) {
	uerr := audit893SliceErr{"boom"}
	// Without dig there is no panic (errors.Is skips == for an uncomparable target):
	if !errors.Is(fmt.Errorf("w: %w", uerr), error(nil)) {
		_ = errors.Is(uerr, uerr)
	}
	c := dig.New()
	if err := c.Provide(func() (audit893A, error) { return audit893A{}, uerr }); err != nil {
		t.Fatal(err)
	}
	audit893Is(t, "slice-typed constructor error", c.Invoke(func(audit893A) {}))
}
