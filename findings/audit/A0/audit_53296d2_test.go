package dig_test

// Audit of 53296d2 "RootCause returns the error a constructor returned even
// if that error is a dig error of another container".
//
// The fix keys on errConstructorFailed, which only constructorNode.Call
// creates. decoratorNode.Call returns the decorator's error unwrapped
// (decorate.go: `return err` after ExtractList), so for a decorator the same
// input still yields the old answer: RootCause walks INTO the error the
// decorator returned. C13 promises identity for "a constructor or decorator".
//
// Copy this file to the module root to run it:
//   cp _out/audit_53296d2_test.go . && go test -vet=off -count=1 -run TestAudit .

import (
	"testing"

	"go.uber.org/dig"
)

// innerDigError returns a dig error of another container:
// errMissingDependencies{ *errMissingTypes }.
func innerDigError(t *testing.T) error {
	t.Helper()
	inner := dig.New()
	err := inner.Invoke(func(int) {})
	if err == nil {
		t.Fatal("inner Invoke must fail")
	}
	return err
}

// Control: the case the commit repaired. Passes on HEAD.
func TestAuditRootCauseConstructorReturnsDigError(t *testing.T) {
	innerErr := innerDigError(t)
	c := dig.New()
	if err := c.Provide(func() (string, error) { return "", innerErr }); err != nil {
		t.Fatal(err)
	}
	err := c.Invoke(func(string) {})
	if rc := dig.RootCause(err); rc != innerErr {
		t.Fatalf("RootCause = (%T) %v\nwant the constructor's error (%T) %v", rc, rc, innerErr, innerErr)
	}
}

// FAILS on HEAD: same input through a decorator of a single value.
func TestAuditRootCauseDecoratorReturnsDigError(t *testing.T) {
	innerErr := innerDigError(t)
	c := dig.New()
	if err := c.Provide(func() string { return "x" }); err != nil {
		t.Fatal(err)
	}
	if err := c.Decorate(func(string) (string, error) { return "", innerErr }); err != nil {
		t.Fatal(err)
	}
	err := c.Invoke(func(string) {})
	if err == nil {
		t.Fatal("Invoke must fail")
	}
	if rc := dig.RootCause(err); rc != innerErr {
		t.Fatalf("RootCause = (%T) %v\nwant the decorator's error (%T) %v", rc, rc, innerErr, innerErr)
	}
}

// FAILS on HEAD: same input through a decorator of a value group.
func TestAuditRootCauseGroupDecoratorReturnsDigError(t *testing.T) {
	innerErr := innerDigError(t)
	type in struct {
		dig.In
		S []string `group:"g"`
	}
	type out struct {
		dig.Out
		S []string `group:"g"`
	}
	c := dig.New()
	if err := c.Provide(func() string { return "x" }, dig.Group("g")); err != nil {
		t.Fatal(err)
	}
	if err := c.Decorate(func(in) (out, error) { return out{}, innerErr }); err != nil {
		t.Fatal(err)
	}
	err := c.Invoke(func(in) {})
	if err == nil {
		t.Fatal("Invoke must fail")
	}
	if rc := dig.RootCause(err); rc != innerErr {
		t.Fatalf("RootCause = (%T) %v\nwant the decorator's error (%T) %v", rc, rc, innerErr, innerErr)
	}
}

// The same gap is shared by every sibling fix that stops at
// errConstructorFailed (bf2e9f8 IsCycleDetected, 2e28d72 optional,
// 4fe30c1 Visualize). Two of them, for the record. Both FAIL on HEAD.

func TestAuditIsCycleDetectedLooksInsideDecoratorError(t *testing.T) {
	inner := dig.New()
	if err := inner.Provide(func(int) string { return "" }); err != nil {
		t.Fatal(err)
	}
	cycErr := inner.Provide(func(string) int { return 0 })
	if !dig.IsCycleDetected(cycErr) {
		t.Fatal("inner container must report a cycle")
	}

	c := dig.New()
	if err := c.Provide(func() string { return "x" }); err != nil {
		t.Fatal(err)
	}
	if err := c.Decorate(func(string) (string, error) { return "", cycErr }); err != nil {
		t.Fatal(err)
	}
	err := c.Invoke(func(string) {})
	if err == nil {
		t.Fatal("Invoke must fail")
	}
	if dig.IsCycleDetected(err) {
		t.Fatalf("IsCycleDetected is true for an error a decorator returned; this container has no cycle")
	}
}

func TestAuditOptionalHidesDecoratorError(t *testing.T) {
	// errMissingDependencies of another container.
	inner := dig.New()
	if err := inner.Provide(func(int) string { return "" }); err != nil {
		t.Fatal(err)
	}
	innerErr := inner.Invoke(func(string) {})
	if innerErr == nil {
		t.Fatal("inner Invoke must fail")
	}

	type X struct{}
	type P struct{}
	type in struct {
		dig.In
		P *P `optional:"true"`
	}
	c := dig.New()
	if err := c.Provide(func() *X { return &X{} }); err != nil {
		t.Fatal(err)
	}
	if err := c.Decorate(func(*X) (*X, error) { return nil, innerErr }); err != nil {
		t.Fatal(err)
	}
	if err := c.Provide(func(*X) *P { return &P{} }); err != nil {
		t.Fatal(err)
	}
	invoked := false
	err := c.Invoke(func(in) { invoked = true })
	if err == nil || invoked {
		t.Fatalf("the optional tag hid the error a decorator returned: err=%v invoked=%v", err, invoked)
	}
}
