#!/bin/sh
# usage: at.sh <commit> <go test args...>  : runs tests with non-test sources of <commit>
export GOFLAGS=-mod=mod GOPROXY=off GOSUMDB=off GOTOOLCHAIN=local CGO_ENABLED=0; unset GOWORK
cd /tmp/audit/A0 || exit 1
c=$1; shift
files=$(git diff --name-only 7919dd2 HEAD)
git checkout -q "$c" -- $files
go test -vet=off -count=1 "$@" . 2>&1 | cut -c1-300 | head -60
git checkout -q HEAD -- $files
git status --short | grep -v '^??'
