// Reproductions of the genuine defects found by the static rules. This file is
// NOT part of any registered check (nothing in /verif's checks executes dig);
// it documents the failing inputs. Copy it into a scratch copy of the
// repository (package dig_test) and run `go test -run TestDefect ./`:
// every test fails on the tree before the corresponding "fix:" commit and
// passes after it.
package dig_test

import (
	"bytes"
	"errors"
	"fmt"
	"io"
	"strings"
	"testing"

	"go.uber.org/dig"
)

type dA struct{ tag string }
type dB struct{ tag string }
type dC struct{}

func noPanic(t *testing.T, f func()) {
	t.Helper()
	defer func() {
		if r := recover(); r != nil {
			t.Fatalf("panicked: %v", r)
		}
	}()
	f()
}

// D1 (C14, rules P1 / E-REFL): Decorate(nil) and Decorate(42) panic.
func TestDefectD1DecorateBadInput(t *testing.T) {
	c := dig.New()
	noPanic(t, func() {
		if err := c.Decorate(nil); err == nil {
			t.Fatal("Decorate(nil) accepted")
		}
		if err := c.Decorate(42); err == nil {
			t.Fatal("Decorate(42) accepted")
		}
	})
}

type dNamedSlice []byte

func (dNamedSlice) Read(p []byte) (int, error) { return 0, io.EOF }

// D2 (C14, rule E-REFL): flatten together with As panics in newResult.
func TestDefectD2FlattenAs(t *testing.T) {
	c := dig.New()
	noPanic(t, func() {
		_ = c.Provide(func() dNamedSlice { return nil }, dig.Group("g,flatten"), dig.As(new(io.Reader)))
	})
}

// D3 (C06, rule E-ATOM Decorate): a rejected multi-key Decorate leaves the
// first key decorated.
func TestDefectD3DecoratePartial(t *testing.T) {
	c := dig.New()
	must(t, c.Provide(func() *dA { return &dA{"a"} }))
	must(t, c.Provide(func() *dB { return &dB{"b"} }))
	must(t, c.Decorate(func(b *dB) *dB { return &dB{"b1"} }))
	if err := c.Decorate(func(a *dA, b *dB) (*dA, *dB) { return &dA{"a2"}, &dB{"b2"} }); err == nil {
		t.Fatal("conflicting decorator accepted")
	}
	// the rejected call must not block a later decoration of *dA
	if err := c.Decorate(func(a *dA) *dA { return &dA{"a3"} }); err != nil {
		t.Fatalf("rejected Decorate left a trace: %v", err)
	}
	must(t, c.Invoke(func(a *dA) {
		if a.tag != "a3" {
			t.Fatalf("got %q", a.tag)
		}
	}))
}

// D4 (C06, rule E-ATOM Provide): a Provide rejected because of a cycle in a
// descendant scope leaves its provider registered in the target scope.
func TestDefectD4CycleInChildLeavesProvider(t *testing.T) {
	c := dig.New()
	child := c.Scope("child")
	must(t, child.Provide(func(*dA) *dB { return &dB{} }))
	err := c.Provide(func(*dB) *dA { return &dA{"rejected"} })
	if err == nil || !dig.IsCycleDetected(err) {
		t.Fatalf("expected cycle rejection, got %v", err)
	}
	// as if the call had never been made: *dA can be provided now
	if err := c.Provide(func() *dA { return &dA{"ok"} }); err != nil {
		t.Fatalf("rejected Provide blocks a later registration: %v", err)
	}
}

// D5 (C07/C12, rule E-stage marker): a decorator that failed once is never
// applied again.
func TestDefectD5DecoratorRetried(t *testing.T) {
	c := dig.New()
	must(t, c.Provide(func() *dA { return &dA{"plain"} }))
	calls := 0
	must(t, c.Decorate(func(a *dA) (*dA, error) {
		calls++
		if calls == 1 {
			return nil, errors.New("first run fails")
		}
		return &dA{"decorated"}, nil
	}))
	if err := c.Invoke(func(*dA) {}); err == nil {
		t.Fatal("first Invoke should fail")
	}
	var got string
	must(t, c.Invoke(func(a *dA) { got = a.tag }))
	if got != "decorated" || calls != 2 {
		t.Fatalf("decorator skipped after failure: got %q after %d calls", got, calls)
	}
}

// D6 (C07, rule E-stage ExtractList): a value returned next to an error by a
// decorator is delivered to later consumers.
func TestDefectD6PartialDecoratedValue(t *testing.T) {
	c := dig.New()
	must(t, c.Provide(func() *dA { return &dA{"plain"} }))
	calls := 0
	must(t, c.Decorate(func(a *dA) (*dA, error) {
		calls++
		if calls == 1 {
			return &dA{"partial"}, errors.New("fails")
		}
		return &dA{"decorated"}, nil
	}))
	_ = c.Invoke(func(*dA) {})
	var got string
	_ = c.Invoke(func(a *dA) { got = a.tag })
	if got == "partial" {
		t.Fatal("value returned alongside an error was delivered")
	}
}

type dGroupIn struct {
	dig.In
	Bs []*dB `group:"bs"`
}

// D7 (C05/C16, rule X-orders): a child scope created after a registration that
// consumes a value group reports a cycle that does not exist.
func TestDefectD7SpuriousCycleInLateChild(t *testing.T) {
	c := dig.New()
	must(t, c.Provide(func(*dA) *dC { return &dC{} }))
	must(t, c.Provide(func(dGroupIn) *dA { return &dA{} }))
	child := c.Scope("late")
	if err := child.Invoke(func(*dC) {}); err != nil {
		t.Fatalf("acyclic graph rejected in a scope created after registration: %v", err)
	}
	if err := child.Provide(func() *bytes.Buffer { return nil }); err != nil {
		t.Fatalf("unrelated Provide rejected: %v", err)
	}
}

type dEmptyGroupOut struct {
	dig.Out
	As []*dA `group:",flatten"`
}

// D8 (C09/C14, rule K3): an empty group name aliases the unnamed value key.
func TestDefectD8EmptyGroupName(t *testing.T) {
	c := dig.New()
	noPanic(t, func() {
		if err := c.Provide(func() dEmptyGroupOut { return dEmptyGroupOut{} }); err != nil {
			return // rejected: fine
		}
		_ = c.Invoke(func([]*dA) {})
		_ = c.Invoke(func(*dA) {})
	})
}

// D9 (C19, rule T-html): label text is not escaped.
func TestDefectD9HTMLLabel(t *testing.T) {
	c := dig.New()
	must(t, c.Provide(func() <-chan int { return nil }))
	var b bytes.Buffer
	must(t, dig.Visualize(c, &b))
	if strings.Contains(b.String(), "label=<<-chan int>") {
		t.Fatalf("unescaped HTML-like label: %s", b.String())
	}
}

// D18 (C02, rule E-TS re-entrancy): a constructor runs twice when a decorator
// of one of its dependencies depends on its result.
func TestDefectD18ConstructorRunsTwice(t *testing.T) {
	c := dig.New()
	runs := 0
	must(t, c.Provide(func(*dB) *dA { runs++; return &dA{} }))
	must(t, c.Provide(func() *dB { return &dB{"b"} }))
	must(t, c.Decorate(func(b *dB, _ *dA) *dB { return &dB{"b+"} }))
	_ = c.Invoke(func(*dA) {})
	if runs > 1 {
		t.Fatalf("constructor executed %d times", runs)
	}
}

// E1 (C05, rule M-acyclic-view): with deferred verification an exported
// constructor is built in a view nobody verified: unbounded recursion.
// (Before the fix this test overflows the stack and kills the test binary.)
func TestDefectE1ExportedCycleDeferred(t *testing.T) {
	c := dig.New(dig.DeferAcyclicVerification())
	s1 := c.Scope("s1")
	s2 := c.Scope("s2")
	must(t, s1.Provide(func(*dB) *dA { return &dA{} }, dig.Export(true)))
	must(t, s1.Provide(func(*dA) *dB { return &dB{} }))
	err := s2.Invoke(func(*dA) {})
	if err == nil || !dig.IsCycleDetected(err) {
		t.Fatalf("expected a cycle error, got %v", err)
	}
}

type dBadOptional struct {
	dig.In
	A *dA `optional:"maybe"`
}

// D19 (C13, rule T-foreign-cause): the root cause of an invalid-tag rejection
// is a *strconv.NumError, not a dig.Error.
func TestDefectD19ForeignRootCause(t *testing.T) {
	c := dig.New()
	err := c.Invoke(func(dBadOptional) {})
	if err == nil {
		t.Fatal("accepted")
	}
	var de dig.Error
	if !errors.As(dig.RootCause(err), &de) {
		t.Fatalf("root cause %T is not a dig.Error", dig.RootCause(err))
	}
}

func must(t *testing.T, err error) {
	t.Helper()
	if err != nil {
		t.Fatal(err)
	}
}

// D20 (C14, rule P1 non-nil clause): a typed nil function value passes the
// nil/Func validation; Visualize then dereferences its nil location and
// executing it panics with "call of nil function".
func TestDefectD20TypedNilFunc(t *testing.T) {
	noPanic(t, func() {
		c := dig.New()
		_ = c.Provide((func() *dA)(nil))
		var b bytes.Buffer
		_ = dig.Visualize(c, &b)
		_ = c.Invoke(func(*dA) {})
		_ = dig.New().Invoke((func())(nil))
		c2 := dig.New()
		must(t, c2.Provide(func() *dA { return &dA{} }))
		_ = c2.Decorate((func(*dA) *dA)(nil))
		_ = c2.Invoke(func(*dA) {})
	})
}

type d21Stringer struct{ n int }

func (s *d21Stringer) String() string { return fmt.Sprint(s.n) }

// D21 (C10, rule G-as-distinct): an interface listed twice in dig.As fed a
// value group twice from one constructor.
func TestDefectD21GroupAsListedTwice(t *testing.T) {
	c := dig.New()
	err := c.Provide(func() *d21Stringer { return &d21Stringer{1} },
		dig.Group("g"), dig.As(new(fmt.Stringer), new(fmt.Stringer)))
	if err != nil {
		return // rejected: fine
	}
	type in struct {
		dig.In
		S []fmt.Stringer `group:"g"`
	}
	if err := c.Invoke(func(i in) {
		if len(i.S) != 1 {
			t.Errorf("one constructor fed group g %d times", len(i.S))
		}
	}); err != nil {
		t.Fatal(err)
	}
}

type d22Out struct {
	dig.Out
	V int `group:"x"`
}
type d22In struct {
	dig.In
	V []int `group:"x"`
}
type d22Dec struct {
	dig.Out
	V [][]int `group:"x,flatten"`
}

// D22 (C14, rule G-typed-store): a decorator's flatten group result was accepted
// and its whole value stored under the element type's group key; the next
// consumer of the group panicked in reflect.Value.Set inside Invoke.
func TestDefectD22DecorateFlattenPanics(t *testing.T) {
	c := dig.New()
	if err := c.Provide(func() d22Out { return d22Out{V: 1} }); err != nil {
		t.Fatal(err)
	}
	noPanic(t, func() {
		if err := c.Decorate(func(i d22In) d22Dec { return d22Dec{V: [][]int{i.V}} }); err != nil {
			return // rejected: fine
		}
		_ = c.Invoke(func(i d22In) {})
	})
}
