package dig_test

// Defect 1: with RecoverFromPanics, a user function that panics with a nil
// value (panic(nil)) is treated as if it had returned normally.
//
// dig's go.mod says "go 1.20"; for every main module that declares go <= 1.20
// (or sets GODEBUG=panicnil=1) recover() returns nil for panic(nil), and dig
// decides "did it panic?" by `if p := recover(); p != nil`.

import (
	"errors"
	"testing"

	"go.uber.org/dig"
)

type huntNilA struct{}
type huntNilB struct{}

func huntPanicNilSupported() bool {
	// true when panic(nil) is seen as a nil value by recover in this build.
	seen := true
	func() {
		defer func() { seen = recover() == nil }()
		panic(nil)
	}()
	return seen
}

// A constructor panics: Invoke must fail with a PanicError attributed to the
// constructor, and the constructor's callback must see a PanicError (C13, C20).
func TestHuntPanicNilConstructor(t *testing.T) {
	if !huntPanicNilSupported() {
		t.Skip("panic(nil) is turned into *runtime.PanicNilError in this build")
	}
	c := dig.New(dig.RecoverFromPanics())
	var cbErrs []error
	if err := c.Provide(func() *huntNilA { panic(nil) },
		dig.WithProviderCallback(func(ci dig.CallbackInfo) { cbErrs = append(cbErrs, ci.Error) })); err != nil {
		t.Fatal(err)
	}
	var err error
	func() {
		defer func() {
			if p := recover(); p != nil {
				t.Errorf("a panic escaped from Invoke although RecoverFromPanics is set: %v", p)
			}
		}()
		err = c.Invoke(func(*huntNilA) { t.Error("invoked although the constructor of its argument panicked") })
	}()
	var pe dig.PanicError
	if !errors.As(err, &pe) {
		t.Fatalf("Invoke returned %v, want a PanicError", err)
	}
	if pe.Panic != nil {
		t.Errorf("PanicError carries %v, want the panic value of the constructor (nil); error: %v", pe.Panic, err)
	}
	if len(cbErrs) != 1 {
		t.Fatalf("callback fired %d times, want 1", len(cbErrs))
	}
	if !errors.As(cbErrs[0], &pe) {
		t.Errorf("callback saw Error = %v for a recovered panic, want a PanicError", cbErrs[0])
	}
}

// A value-group member panics: the panic is swallowed entirely and Invoke
// succeeds with a group that lacks the member (C13, C10).
func TestHuntPanicNilGroupMemberSwallowed(t *testing.T) {
	if !huntPanicNilSupported() {
		t.Skip("panic(nil) is turned into *runtime.PanicNilError in this build")
	}
	c := dig.New(dig.RecoverFromPanics())
	if err := c.Provide(func() *huntNilA { panic(nil) }, dig.Group("g")); err != nil {
		t.Fatal(err)
	}
	type in struct {
		dig.In
		As []*huntNilA `group:"g"`
	}
	called := false
	err := c.Invoke(func(p in) { called = true })
	if err == nil || called {
		t.Fatalf("Invoke returned %v and called the function (%v) although a member of the group panicked", err, called)
	}
	var pe dig.PanicError
	if !errors.As(err, &pe) {
		t.Errorf("Invoke returned %v, want a PanicError", err)
	}
}

// A decorator panics.
func TestHuntPanicNilDecorator(t *testing.T) {
	if !huntPanicNilSupported() {
		t.Skip("panic(nil) is turned into *runtime.PanicNilError in this build")
	}
	c := dig.New(dig.RecoverFromPanics())
	if err := c.Provide(func() *huntNilB { return &huntNilB{} }); err != nil {
		t.Fatal(err)
	}
	var cbErrs []error
	if err := c.Decorate(func(b *huntNilB) *huntNilB { panic(nil) },
		dig.WithDecoratorCallback(func(ci dig.CallbackInfo) { cbErrs = append(cbErrs, ci.Error) })); err != nil {
		t.Fatal(err)
	}
	err := c.Invoke(func(*huntNilB) { t.Error("invoked although the decorator of its argument panicked") })
	var pe dig.PanicError
	if !errors.As(err, &pe) {
		t.Fatalf("Invoke returned %v, want a PanicError", err)
	}
	if pe.Panic != nil {
		t.Errorf("PanicError carries %v, want the decorator's panic value (nil)", pe.Panic)
	}
	if len(cbErrs) != 1 || !errors.As(cbErrs[0], &pe) {
		t.Errorf("decorator callback saw %v, want one PanicError", cbErrs)
	}
}

// The invoked function panics: Invoke returns nil.
func TestHuntPanicNilInvoked(t *testing.T) {
	if !huntPanicNilSupported() {
		t.Skip("panic(nil) is turned into *runtime.PanicNilError in this build")
	}
	c := dig.New(dig.RecoverFromPanics())
	err := c.Invoke(func() { panic(nil) })
	var pe dig.PanicError
	if !errors.As(err, &pe) {
		t.Fatalf("Invoke returned %v for a function that panicked, want a PanicError", err)
	}
}
