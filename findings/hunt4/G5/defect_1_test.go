package dig_test

import (
	"testing"

	"go.uber.org/dig"
)

// C04: "A parameter-object field tagged optional receives the zero value
// exactly when no constructor for it is visible or that constructor's
// dependencies are unavailable".  As soon as a decorator for the key is
// registered in an enclosing scope, the optional field makes Invoke fail with
// a missing-type error instead.

type huntOptLogger struct{ name string }
type huntOptConfig struct{}

type huntOptParams struct {
	dig.In

	Logger *huntOptLogger `optional:"true"`
}

// No constructor for the key at all, only a decorator that wraps it.
func TestHuntOptionalDecoratedNoConstructor(t *testing.T) {
	c := dig.New()
	if err := c.Decorate(func(l *huntOptLogger) *huntOptLogger {
		t.Error("the decorator must not run: there is nothing to decorate")
		return l
	}); err != nil {
		t.Fatal(err)
	}

	called := false
	err := c.Invoke(func(p huntOptParams) {
		called = true
		if p.Logger != nil {
			t.Errorf("expected the zero value, got %v", p.Logger)
		}
	})
	if err != nil {
		t.Errorf("optional dependency without a constructor must be the zero value, Invoke failed: %v", err)
	}
	if !called {
		t.Error("function was not invoked")
	}
}

// A constructor is visible but its own dependency is unavailable: without the
// decorator the field is nil, with it Invoke fails.
func TestHuntOptionalDecoratedUnavailableConstructor(t *testing.T) {
	for _, decorate := range []bool{false, true} {
		c := dig.New()
		if err := c.Provide(func(*huntOptConfig) *huntOptLogger {
			t.Error("constructor must not run: its dependency is missing")
			return &huntOptLogger{}
		}); err != nil {
			t.Fatal(err)
		}
		if decorate {
			if err := c.Decorate(func(l *huntOptLogger) *huntOptLogger { return l }); err != nil {
				t.Fatal(err)
			}
		}
		called := false
		err := c.Invoke(func(p huntOptParams) {
			called = true
			if p.Logger != nil {
				t.Errorf("decorate=%v: expected the zero value, got %v", decorate, p.Logger)
			}
		})
		if err != nil || !called {
			t.Errorf("decorate=%v: optional dependency with an unavailable constructor must be the zero value, Invoke: called=%v err=%v", decorate, called, err)
		}
	}
}

// The same from a child scope whose parent registered the decorator.
func TestHuntOptionalDecoratedInParentScope(t *testing.T) {
	c := dig.New()
	if err := c.Decorate(func(l *huntOptLogger) *huntOptLogger { return l }); err != nil {
		t.Fatal(err)
	}
	child := c.Scope("child")
	called := false
	err := child.Invoke(func(p huntOptParams) { called = true })
	if err != nil || !called {
		t.Errorf("optional dependency without a constructor must be the zero value: called=%v err=%v", called, err)
	}
}

// Controls that must keep their behaviour with any fix.
func TestHuntOptionalDecoratedControls(t *testing.T) {
	// A constructor is available: the decorated value is delivered.
	c := dig.New()
	c.Provide(func() *huntOptLogger { return &huntOptLogger{name: "base"} })
	c.Decorate(func(l *huntOptLogger) *huntOptLogger { return &huntOptLogger{name: l.name + "+deco"} })
	if err := c.Invoke(func(p huntOptParams) {
		if p.Logger == nil || p.Logger.name != "base+deco" {
			t.Errorf("expected the decorated value, got %v", p.Logger)
		}
	}); err != nil {
		t.Error(err)
	}

	// The constructor is available but the decorator needs something else
	// that is missing: a required dependency of the closure is missing, so
	// the Invoke fails and the optional tag must not turn that into nil.
	c = dig.New()
	c.Provide(func() *huntOptLogger { return &huntOptLogger{name: "base"} })
	c.Decorate(func(l *huntOptLogger, _ *huntOptConfig) *huntOptLogger { return l })
	if err := c.Invoke(func(p huntOptParams) {
		t.Errorf("must not be invoked, got %v", p.Logger)
	}); err == nil {
		t.Error("expected a missing dependency error")
	}

	// An error returned by the decorator is never hidden.
	c = dig.New()
	c.Provide(func() *huntOptLogger { return &huntOptLogger{name: "base"} })
	c.Decorate(func(l *huntOptLogger) (*huntOptLogger, error) { return l, errHuntOpt })
	if err := c.Invoke(func(p huntOptParams) {}); dig.RootCause(err) != errHuntOpt {
		t.Errorf("expected the decorator's error, got %v", err)
	}
}

var errHuntOpt = huntErr("decorator failed")

type huntErr string

func (e huntErr) Error() string { return string(e) }
