package dig_test

import (
	"testing"

	"go.uber.org/dig"
)

// C15: "moving a name or group from a Provide option to the equivalent
// result-object tag changes nothing observable: the same registrations are
// accepted".
//
// A name or group name containing a backquote is rejected when it is given
// with dig.Name / dig.Group ("names cannot contain backquotes"), but the very
// same name is accepted when it is written as a name:".." / group:".." tag on
// a field of a result object.

type huntBQ struct{ v int }

type huntBQNamedOut struct {
	dig.Out
	V *huntBQ "name:\"a`b\""
}

type huntBQGroupOut struct {
	dig.Out
	V *huntBQ "group:\"a`b\""
}

func TestHuntBackquoteNameOptionVersusTag(t *testing.T) {
	viaOption := dig.New().Provide(func() *huntBQ { return &huntBQ{1} }, dig.Name("a`b"))
	viaTag := dig.New().Provide(func() huntBQNamedOut { return huntBQNamedOut{V: &huntBQ{1}} })
	if (viaOption == nil) != (viaTag == nil) {
		t.Errorf("the same registration gets two verdicts:\n  dig.Name(\"a`b\"):   %v\n  `name:\"a`b\"` tag: %v", viaOption, viaTag)
	}
}

func TestHuntBackquoteGroupOptionVersusTag(t *testing.T) {
	viaOption := dig.New().Provide(func() *huntBQ { return &huntBQ{1} }, dig.Group("a`b"))
	viaTag := dig.New().Provide(func() huntBQGroupOut { return huntBQGroupOut{V: &huntBQ{1}} })
	if (viaOption == nil) != (viaTag == nil) {
		t.Errorf("the same registration gets two verdicts:\n  dig.Group(\"a`b\"):   %v\n  `group:\"a`b\"` tag: %v", viaOption, viaTag)
	}
}
