package dig_test

import (
	"testing"

	"go.uber.org/dig"
)

// C16: "For any block of registrations that are all accepted, every order of
// the Provide and Decorate calls inside the block ... yield the same verdict
// and the same wiring for every subsequent successful Invoke."
//
// One Decorate (for a key that has no constructor, so the decorator supplies
// it) and two Provides feeding one value group: c1 consumes the key through an
// optional field, c2 through a plain parameter. All three calls are accepted
// in every order, but the Invoke that follows succeeds when c1 was provided
// before c2 and fails with "missing type" when c2 was provided before c1.
//
// Reason: findMissingDependencies (invoke.go) accepts a key without
// constructors only if a decorated value has already been STORED, i.e. only
// after the decorator has run, whereas paramSingle.Build (param.go) runs a
// registered decorator whether or not it has run before. Whether the decorator
// has run when c2 is checked depends on the order of the group's members,
// which is the order of the Provide calls.

type huntD1Key struct{ s string }
type huntD1Member struct{ s string }

type huntD1Opt struct {
	dig.In
	K huntD1Key `optional:"true"`
}

type huntD1Group struct {
	dig.In
	G []huntD1Member `group:"g"`
}

func huntD1Run(t *testing.T, order string) (members int, err error) {
	c := dig.New(dig.DeferAcyclicVerification())
	regs := map[byte]func() error{
		'd': func() error { return c.Decorate(func() huntD1Key { return huntD1Key{"deco"} }) },
		'1': func() error {
			return c.Provide(func(in huntD1Opt) huntD1Member { return huntD1Member{"c1:" + in.K.s} }, dig.Group("g"))
		},
		'2': func() error {
			return c.Provide(func(k huntD1Key) huntD1Member { return huntD1Member{"c2:" + k.s} }, dig.Group("g"))
		},
	}
	for i := 0; i < len(order); i++ {
		if e := regs[order[i]](); e != nil {
			t.Fatalf("order %s: registration %c rejected: %v", order, order[i], e)
		}
	}
	err = c.Invoke(func(in huntD1Group) { members = len(in.G) })
	return members, err
}

func TestHuntDecoratorOnlyKeyDependsOnProvideOrder(t *testing.T) {
	var verdicts []string
	for _, order := range []string{"d12", "d21", "12d", "21d", "1d2", "2d1"} {
		n, err := huntD1Run(t, order)
		v := "ok"
		if err != nil {
			v = "error"
		}
		t.Logf("order %s: members=%d err=%v", order, n, err)
		verdicts = append(verdicts, v)
	}
	for i, v := range verdicts {
		if v != verdicts[0] {
			t.Errorf("the same three accepted registrations give verdict %q in the first order and %q in order #%d", verdicts[0], v, i)
		}
	}
}

// The same inconsistency without value groups: the key is "missing" for a
// plain parameter, available for an optional field, and from then on available
// for the plain parameter too.
func TestHuntDecoratorOnlyKeyAvailabilityFlips(t *testing.T) {
	c := dig.New()
	if err := c.Decorate(func() huntD1Key { return huntD1Key{"deco"} }); err != nil {
		t.Fatal(err)
	}
	first := c.Invoke(func(huntD1Key) {})
	var got string
	if err := c.Invoke(func(in huntD1Opt) { got = in.K.s }); err != nil {
		t.Fatal(err)
	}
	second := c.Invoke(func(huntD1Key) {})
	t.Logf("plain: %v; optional got %q; plain again: %v", first, got, second)
	if (first == nil) != (second == nil) {
		t.Errorf("the same Invoke on an unchanged set of registrations first returned %v and then %v", first, second)
	}
}
