package dig_test

import (
	"bytes"
	"errors"
	"strings"
	"testing"

	"go.uber.org/dig"
)

// C19: "one edge per declared dependency" / "a faithful, well-formed picture".
//
// VisualizeError prunes the constructors that did not fail and, with each of
// them, every edge that points at one of its results - by type and name only
// (dot.Graph.pruneCtorParams). If another scope has a constructor for the same
// key which did NOT fail, pruning it also deletes the edge from the transitive
// failure to the root cause, the one edge that explains the picture.

type h3Config struct{}
type h3Server struct{}

func h3BadConfig() (h3Config, error) { return h3Config{}, errors.New("no config") }
func h3GoodConfig() h3Config         { return h3Config{} }
func h3NewServer(h3Config) h3Server  { return h3Server{} }

func TestHuntVisualizeErrorKeepsEdgeToRootCause(t *testing.T) {
	build := func(withOtherScope bool) string {
		c := dig.New()
		if err := c.Provide(h3BadConfig); err != nil {
			t.Fatal(err)
		}
		if err := c.Provide(h3NewServer); err != nil {
			t.Fatal(err)
		}
		if withOtherScope {
			// An unrelated scope overrides the configuration for itself.
			if err := c.Scope("tests").Provide(h3GoodConfig); err != nil {
				t.Fatal(err)
			}
		}
		err := c.Invoke(func(h3Server) {})
		if err == nil {
			t.Fatal("expected an error")
		}
		var b bytes.Buffer
		if err := dig.Visualize(c, &b, dig.VisualizeError(err)); err != nil {
			t.Fatal(err)
		}
		return b.String()
	}
	const edge = `-> "dig_test.h3Config"`
	if dot := build(false); !strings.Contains(dot, edge) {
		t.Fatalf("no edge from h3NewServer to its failed dependency:\n%s", dot)
	}
	if dot := build(true); !strings.Contains(dot, edge) {
		t.Errorf("h3NewServer (transitive failure) and h3BadConfig (root cause) are both drawn, but the edge between them is gone because a constructor of another scope provides the same type:\n%s", dot)
	}
}
