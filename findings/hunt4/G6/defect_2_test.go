package dig_test

import (
	"bytes"
	"errors"
	"reflect"
	"regexp"
	"strings"
	"testing"

	"go.uber.org/dig"
)

// C19: "When given the error of a failed Invoke, the missing types or the
// failing constructor are marked as root cause, every constructor that failed
// because of it is marked as a transitive failure, constructors that did not
// fail are pruned".
//
// The error chain identifies failed constructors by the code pointer of their
// function (constructorNode.id) and dot.Graph keeps one *Ctor per such id
// (ctorMap). As soon as two registrations are backed by the same code - the
// same function provided under two names, to two groups or to two scopes,
// closures of one function literal, or any two functions made by
// reflect.MakeFunc (fx.Annotate, fx.Supply) - the last one registered is
// painted whichever failed, and none of them is pruned.

type h2Conn struct{ name string }
type h2Repo struct{}

var h2Fail bool

func h2NewConn() (*h2Conn, error) {
	if h2Fail {
		return nil, errors.New("cannot connect")
	}
	return &h2Conn{}, nil
}

type h2ROIn struct {
	dig.In
	Conn *h2Conn `name:"ro"`
}

type h2RWIn struct {
	dig.In
	Conn *h2Conn `name:"rw"`
}

func h2NewRepo(h2ROIn) h2Repo { return h2Repo{} }

var h2ClusterRE = regexp.MustCompile(`(?s)subgraph cluster_\d+ \{.*?\n\t\t\}`)

// h2Clusters returns the text of every constructor cluster.
func h2Clusters(dot string) []string { return h2ClusterRE.FindAllString(dot, -1) }

func TestHuntVisualizeErrorSameFunctionTwice(t *testing.T) {
	t.Run("two names", func(t *testing.T) {
		h2Fail = false
		c := dig.New()
		// The usual way to provide two connections of one type.
		if err := c.Provide(h2NewConn, dig.Name("ro")); err != nil {
			t.Fatal(err)
		}
		if err := c.Provide(h2NewConn, dig.Name("rw")); err != nil {
			t.Fatal(err)
		}
		if err := c.Provide(h2NewRepo); err != nil {
			t.Fatal(err)
		}
		// "rw" is built without trouble...
		if err := c.Invoke(func(h2RWIn) {}); err != nil {
			t.Fatal(err)
		}
		// ...and then the "ro" connection fails.
		h2Fail = true
		err := c.Invoke(func(h2Repo) {})
		if err == nil {
			t.Fatal("expected an error")
		}
		var b bytes.Buffer
		if err := dig.Visualize(c, &b, dig.VisualizeError(err)); err != nil {
			t.Fatal(err)
		}
		var ro, rw string
		for _, cl := range h2Clusters(b.String()) {
			if strings.Contains(cl, `[name=ro]`) {
				ro = cl
			}
			if strings.Contains(cl, `[name=rw]`) {
				rw = cl
			}
		}
		if !strings.Contains(ro, "color=red;") {
			t.Errorf("the constructor of *h2Conn[name=ro] failed but is not marked as root cause:\n%s", ro)
		}
		if rw != "" {
			t.Errorf("the constructor of *h2Conn[name=rw] succeeded but was not pruned:\n%s", rw)
		}
		if t.Failed() {
			t.Log(b.String())
		}
	})

	t.Run("reflect.MakeFunc", func(t *testing.T) {
		// What fx.Annotate and fx.Supply hand to dig.
		type good struct{}
		type bad struct{}
		boom := errors.New("boom")
		errType := reflect.TypeOf((*error)(nil)).Elem()
		mk := func(t reflect.Type, err error) interface{} {
			ft := reflect.FuncOf(nil, []reflect.Type{t, errType}, false)
			return reflect.MakeFunc(ft, func([]reflect.Value) []reflect.Value {
				e := reflect.Zero(errType)
				if err != nil {
					e = reflect.ValueOf(&err).Elem()
				}
				return []reflect.Value{reflect.Zero(t), e}
			}).Interface()
		}
		c := dig.New()
		if err := c.Provide(mk(reflect.TypeOf(bad{}), boom)); err != nil {
			t.Fatal(err)
		}
		if err := c.Provide(mk(reflect.TypeOf(good{}), nil)); err != nil {
			t.Fatal(err)
		}
		if err := c.Invoke(func(good) {}); err != nil {
			t.Fatal(err)
		}
		err := c.Invoke(func(bad) {})
		if !errors.Is(err, boom) {
			t.Fatalf("expected boom, got %v", err)
		}
		var b bytes.Buffer
		if err := dig.Visualize(c, &b, dig.VisualizeError(err)); err != nil {
			t.Fatal(err)
		}
		for _, cl := range h2Clusters(b.String()) {
			if strings.Contains(cl, "good") {
				t.Errorf("the constructor of good succeeded and has nothing to do with the failure, but is drawn:\n%s", cl)
			}
			if strings.Contains(cl, "bad") && !strings.Contains(cl, "color=red;") {
				t.Errorf("the constructor of bad failed but is not marked as root cause:\n%s", cl)
			}
		}
	})

	t.Run("two scopes", func(t *testing.T) {
		h2Fail = false
		c := dig.New()
		s1, s2 := c.Scope("request 1"), c.Scope("request 2")
		for _, s := range []*dig.Scope{s1, s2} {
			if err := s.Provide(h2NewConn); err != nil {
				t.Fatal(err)
			}
		}
		if err := s2.Invoke(func(*h2Conn) {}); err != nil {
			t.Fatal(err)
		}
		h2Fail = true
		err := s1.Invoke(func(*h2Conn) {})
		if err == nil {
			t.Fatal("expected an error")
		}
		var b bytes.Buffer
		if err := dig.Visualize(c, &b, dig.VisualizeError(err)); err != nil {
			t.Fatal(err)
		}
		if n := len(h2Clusters(b.String())); n != 1 {
			t.Errorf("one constructor failed, %d are drawn:\n%s", n, b.String())
		}
	})
}
