package dig_test

import (
	"bytes"
	"errors"
	"regexp"
	"strings"
	"testing"

	"go.uber.org/dig"
)

// C19: "the missing types or the failing constructor are marked as root
// cause, every constructor that failed because of it is marked as a transitive
// failure ... CanVisualizeError is true exactly when such information exists."
//
// When the decorator of a value group fails, nothing is recorded for the group
// (dot.Graph.FailGroupNodes returns early because the decorator is not a
// constructor). The next link of the error chain then finds no root cause yet
// and promotes itself: the constructor that merely consumes the group - it
// never ran and did not fail by itself - is painted red as THE root cause. If
// the group is consumed by the invoked function directly the picture is empty
// although CanVisualizeError says there is something to show. A failing
// decorator of a single value is handled properly (decorated key red,
// consumers orange); the sub-test "single value" documents that.

type h1Member struct{}
type h1Consumer struct{}
type h1Top struct{}

type h1GroupIn struct {
	dig.In
	Members []h1Member `group:"g"`
}

type h1GroupOut struct {
	dig.Out
	Members []h1Member `group:"g"`
}

func h1NewMember() h1Member                   { return h1Member{} }
func h1NewConsumer(h1GroupIn) h1Consumer      { return h1Consumer{} }
func h1NewTop(h1Consumer) h1Top               { return h1Top{} }
func h1NewSingleConsumer(h1Member) h1Consumer { return h1Consumer{} }

var h1ClusterRE = regexp.MustCompile(`constructor_\d+ \[shape=plaintext label="([^"]*)"\];\n\t\t\t(?:color=(\w+);)?`)

// clusterColours returns the colour of every constructor cluster by function name.
func h1ClusterColours(dot string) map[string]string {
	m := map[string]string{}
	for _, sm := range h1ClusterRE.FindAllStringSubmatch(dot, -1) {
		m[sm[1]] = sm[2]
	}
	return m
}

func TestHuntGroupDecoratorFailureVisualization(t *testing.T) {
	boom := errors.New("boom")

	t.Run("consumer constructor", func(t *testing.T) {
		c := dig.New()
		for _, f := range []interface{}{h1NewConsumer, h1NewTop} {
			if err := c.Provide(f); err != nil {
				t.Fatal(err)
			}
		}
		if err := c.Provide(h1NewMember, dig.Group("g")); err != nil {
			t.Fatal(err)
		}
		if err := c.Decorate(func(h1GroupIn) (h1GroupOut, error) { return h1GroupOut{}, boom }); err != nil {
			t.Fatal(err)
		}
		err := c.Invoke(func(h1Top) {})
		if !errors.Is(err, boom) {
			t.Fatalf("expected the decorator's error, got %v", err)
		}
		if !dig.CanVisualizeError(err) {
			t.Fatal("CanVisualizeError = false")
		}
		var b bytes.Buffer
		if err := dig.Visualize(c, &b, dig.VisualizeError(err)); err != nil {
			t.Fatal(err)
		}
		colours := h1ClusterColours(b.String())
		// h1NewConsumer never ran; it could not get its arguments because
		// the group's decorator failed: a transitive failure.
		if got := colours["h1NewConsumer"]; got != "orange" {
			t.Errorf("h1NewConsumer failed because the decorator of its value group failed; its cluster is %q, want \"orange\"\n%s", got, b.String())
		}
		if got := colours["h1NewTop"]; got != "orange" {
			t.Errorf("h1NewTop cluster is %q, want \"orange\"", got)
		}
		if !strings.Contains(b.String(), "color=red") {
			t.Errorf("nothing is marked as the root cause\n%s", b.String())
		}
	})

	t.Run("invoked directly", func(t *testing.T) {
		c := dig.New()
		if err := c.Provide(h1NewMember, dig.Group("g")); err != nil {
			t.Fatal(err)
		}
		if err := c.Decorate(func(h1GroupIn) (h1GroupOut, error) { return h1GroupOut{}, boom }); err != nil {
			t.Fatal(err)
		}
		err := c.Invoke(func(h1GroupIn) {})
		if !errors.Is(err, boom) {
			t.Fatalf("expected the decorator's error, got %v", err)
		}
		var b bytes.Buffer
		if err := dig.Visualize(c, &b, dig.VisualizeError(err)); err != nil {
			t.Fatal(err)
		}
		marked := strings.Contains(b.String(), "color=red")
		if can := dig.CanVisualizeError(err); can != marked {
			t.Errorf("CanVisualizeError = %v but the picture marks a root cause: %v\n%s", can, marked, b.String())
		}
	})

	t.Run("single value", func(t *testing.T) {
		// For comparison: the same situation with a single decorated value is
		// drawn correctly.
		c := dig.New()
		for _, f := range []interface{}{h1NewMember, h1NewSingleConsumer, h1NewTop} {
			if err := c.Provide(f); err != nil {
				t.Fatal(err)
			}
		}
		if err := c.Decorate(func(h1Member) (h1Member, error) { return h1Member{}, boom }); err != nil {
			t.Fatal(err)
		}
		err := c.Invoke(func(h1Top) {})
		var b bytes.Buffer
		if err := dig.Visualize(c, &b, dig.VisualizeError(err)); err != nil {
			t.Fatal(err)
		}
		colours := h1ClusterColours(b.String())
		if colours["h1NewSingleConsumer"] != "orange" || colours["h1NewTop"] != "orange" {
			t.Errorf("unexpected colours %v\n%s", colours, b.String())
		}
		if !strings.Contains(b.String(), `"dig_test.h1Member" [color=red];`) {
			t.Errorf("decorated key not marked as root cause\n%s", b.String())
		}
	})
}
