package dig_test

// C15: moving a name or group from a Provide option to the equivalent
// result-object tag must not change which registrations are accepted.
//
// dig.Name / dig.Group reject names containing a backquote
// (provideOptions.Validate), but the very same name is accepted when it comes
// from a `name:".."` / `group:".."` struct tag (legal Go: the tag is written as
// an interpreted string literal, or built with reflect.StructOf).

import (
	"testing"

	"go.uber.org/dig"
)

type hunt2Val struct{}

func TestHunt2BackquoteNameOptionVsTag(t *testing.T) {
	c1 := dig.New()
	errOpt := c1.Provide(func() *hunt2Val { return &hunt2Val{} }, dig.Name("a`b"))

	type out struct {
		dig.Out

		V *hunt2Val "name:\"a`b\""
	}
	c2 := dig.New()
	errTag := c2.Provide(func() out { return out{V: &hunt2Val{}} })

	if (errOpt == nil) != (errTag == nil) {
		t.Fatalf("same named result, different verdicts:\n dig.Name(\"a`b\"):  %v\n `name:\"a`b\"` tag: %v", errOpt, errTag)
	}
}

func TestHunt2BackquoteGroupOptionVsTag(t *testing.T) {
	c1 := dig.New()
	errOpt := c1.Provide(func() *hunt2Val { return &hunt2Val{} }, dig.Group("a`b"))

	type out struct {
		dig.Out

		V *hunt2Val "group:\"a`b\""
	}
	c2 := dig.New()
	errTag := c2.Provide(func() out { return out{V: &hunt2Val{}} })

	if (errOpt == nil) != (errTag == nil) {
		t.Fatalf("same grouped result, different verdicts:\n dig.Group(\"a`b\"):  %v\n `group:\"a`b\"` tag: %v", errOpt, errTag)
	}
}
