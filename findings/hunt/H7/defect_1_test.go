package dig_test

// C15: moving a group from a Provide option (dig.Group) to the equivalent
// result-object tag (`group:".."`) must change nothing observable.
//
// With dig.As present, the option form feeds the group of the As interface,
// but the tag form silently drops dig.As for the group-tagged field and feeds
// a group of the concrete type instead. (For a name-tagged or untagged field
// of the same result object dig.As IS applied, so this is not "As is
// unsupported for result objects".)

import (
	"fmt"
	"sort"
	"testing"

	"go.uber.org/dig"
)

type hunt1Impl struct{ id string }

func (h *hunt1Impl) String() string { return h.id }

type hunt1In struct {
	dig.In

	Ifaces    []fmt.Stringer `group:"g"`
	Concretes []*hunt1Impl   `group:"g"`
}

func hunt1Observe(t *testing.T, c *dig.Container) string {
	t.Helper()
	var got string
	err := c.Invoke(func(in hunt1In) {
		var ifaces, concretes []string
		for _, s := range in.Ifaces {
			ifaces = append(ifaces, s.String())
		}
		for _, s := range in.Concretes {
			concretes = append(concretes, s.String())
		}
		sort.Strings(ifaces)
		sort.Strings(concretes)
		got = fmt.Sprintf("[]fmt.Stringer=%v []*hunt1Impl=%v", ifaces, concretes)
	})
	if err != nil {
		t.Fatalf("invoke failed: %v", err)
	}
	return got
}

func TestHunt1AsDroppedForGroupTaggedResultField(t *testing.T) {
	// Option form: group given by dig.Group.
	c1 := dig.New()
	if err := c1.Provide(
		func() *hunt1Impl { return &hunt1Impl{"v"} },
		dig.Group("g"), dig.As(new(fmt.Stringer)),
	); err != nil {
		t.Fatalf("option form rejected: %v", err)
	}
	want := hunt1Observe(t, c1)

	// Tag form: same group, moved to the result-object tag.
	type out struct {
		dig.Out

		V *hunt1Impl `group:"g"`
	}
	c2 := dig.New()
	err := c2.Provide(
		func() out { return out{V: &hunt1Impl{"v"}} },
		dig.As(new(fmt.Stringer)),
	)
	if err != nil {
		// Rejecting dig.As on result objects outright (as the dig.As doc
		// comment claims) would at least not mis-wire anything silently.
		t.Logf("tag form rejected (acceptable): %v", err)
		return
	}
	got := hunt1Observe(t, c2)

	if got != want {
		t.Fatalf("dig.Group option and `group` tag are not equivalent under dig.As:\n option form: %s\n tag form:    %s", want, got)
	}
}

// Shows that dig.As is honoured for the other kinds of result-object fields,
// i.e. only the group-tagged field loses it.
func TestHunt1AsHonouredForNameTaggedResultField(t *testing.T) {
	type out struct {
		dig.Out

		V *hunt1Impl `name:"n"`
	}
	c := dig.New()
	if err := c.Provide(func() out { return out{V: &hunt1Impl{"v"}} }, dig.As(new(fmt.Stringer))); err != nil {
		t.Skipf("dig.As rejected for result objects: %v", err)
	}
	type in struct {
		dig.In

		S fmt.Stringer `name:"n"`
	}
	if err := c.Invoke(func(in) {}); err != nil {
		t.Fatalf("dig.As not applied to name-tagged field: %v", err)
	}
}
