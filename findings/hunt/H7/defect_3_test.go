package dig_test

// C16: for a block of accepted registrations, every order of the Provide calls
// must give the same wiring for every subsequent successful Invoke.
//
// A constructor that consumes a soft value group sees whatever the group
// feeders that happened to run before it have produced. Feeders of a value
// group are run in registration order (Scope.providers[k] is an append-only
// slice walked front to back by paramGroupedSlice.callGroupProviders), so
// swapping two Provide calls changes the value the constructor receives.

import (
	"fmt"
	"sort"
	"testing"

	"go.uber.org/dig"
)

func hunt3Run(t *testing.T, feederFirst bool) string {
	t.Helper()

	type feederOut struct {
		dig.Out

		Label string `group:"labels"`
		N     int    `group:"numbers"`
	}
	feeder := func() feederOut { return feederOut{Label: "feeder", N: 7} }

	type softIn struct {
		dig.In

		Numbers []int `group:"numbers,soft"`
	}
	type consumerOut struct {
		dig.Out

		Label string `group:"labels"`
	}
	consumer := func(in softIn) consumerOut {
		return consumerOut{Label: fmt.Sprintf("consumer saw %d numbers", len(in.Numbers))}
	}

	c := dig.New()
	regs := []interface{}{feeder, consumer}
	if !feederFirst {
		regs = []interface{}{consumer, feeder}
	}
	for _, f := range regs {
		if err := c.Provide(f); err != nil {
			t.Fatalf("provide: %v", err)
		}
	}

	type in struct {
		dig.In

		Labels []string `group:"labels"`
	}
	var got []string
	if err := c.Invoke(func(p in) { got = append(got, p.Labels...) }); err != nil {
		t.Fatalf("invoke: %v", err)
	}
	sort.Strings(got)
	return fmt.Sprint(got)
}

func TestHunt3SoftGroupDependsOnProvideOrder(t *testing.T) {
	a := hunt3Run(t, true)
	b := hunt3Run(t, false)
	if a != b {
		t.Fatalf("same registrations, different order, different wiring:\n feeder first:   %s\n consumer first: %s", a, b)
	}
}
