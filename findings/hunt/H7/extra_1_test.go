package dig_test

// NOT one of C15-C17 - reported as an additional finding.
//
// A genuine dependency cycle that runs through two sibling scopes via
// Export(true) constructors with scope-private dependencies is never reported
// (neither by Provide nor by Invoke, with or without
// DeferAcyclicVerification, DryRun or not): Invoke recurses until the process
// dies with "fatal error: stack overflow", which cannot be recovered.
//
//   c1: N1(P1) exported,  P1(E2) private
//   c2: E2(P2) exported,  P2(N1) private
//
// No single scope's graph contains the whole cycle: the root sees neither P1
// nor P2, c1 does not see P2, c2 does not see P1.
//
// The scenario is run in a child process because a stack overflow kills the
// test binary.

import (
	"os"
	"os/exec"
	"strings"
	"testing"

	"go.uber.org/dig"
)

type huntXN1 struct{}
type huntXP1 struct{}
type huntXE2 struct{}
type huntXP2 struct{}

func TestHuntExtra1CrossScopeExportCycle(t *testing.T) {
	if os.Getenv("HUNT_EXTRA1_CHILD") == "1" {
		c := dig.New()
		c1 := c.Scope("c1")
		c2 := c.Scope("c2")
		errs := []error{
			c1.Provide(func(*huntXP1) *huntXN1 { return &huntXN1{} }, dig.Export(true)),
			c1.Provide(func(*huntXE2) *huntXP1 { return &huntXP1{} }),
			c2.Provide(func(*huntXP2) *huntXE2 { return &huntXE2{} }, dig.Export(true)),
			c2.Provide(func(*huntXN1) *huntXP2 { return &huntXP2{} }),
		}
		for _, err := range errs {
			if err != nil {
				// A cycle reported at registration time is fine.
				if dig.IsCycleDetected(err) {
					return
				}
				t.Fatalf("unexpected provide error: %v", err)
			}
		}
		err := c.Invoke(func(*huntXN1) {})
		if err == nil {
			t.Fatalf("Invoke succeeded on a cyclic graph")
		}
		if !dig.IsCycleDetected(err) {
			t.Fatalf("expected a cycle error, got: %v", err)
		}
		return
	}

	cmd := exec.Command(os.Args[0], "-test.run=^TestHuntExtra1CrossScopeExportCycle$", "-test.count=1")
	cmd.Env = append(os.Environ(), "HUNT_EXTRA1_CHILD=1")
	out, err := cmd.CombinedOutput()
	if err != nil {
		s := string(out)
		if i := strings.Index(s, "\n\ngoroutine "); i > 0 {
			s = s[:i]
		}
		if len(s) > 1500 {
			s = s[:1500] + "..."
		}
		t.Fatalf("child process failed: %v\n%s", err, s)
	}
}
