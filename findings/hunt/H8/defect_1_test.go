package dig_test

// Defect 1 (C19): the error view of Visualize identifies constructors by the
// code pointer of their function. Two accepted constructors backed by the
// same function (the same function under two names, or in two sibling
// scopes) are therefore indistinguishable: the failure is recorded on the
// wrong constructor and constructors that never failed are not pruned.

import (
	"bytes"
	"errors"
	"strings"
	"testing"

	"go.uber.org/dig"
)

type hunt1Conn struct{}
type hunt1Repo struct{}

func hunt1NewConn() (*hunt1Conn, error) { return nil, errors.New("hunt1: cannot connect") }

func hunt1NewRepo(*hunt1Conn) *hunt1Repo { return &hunt1Repo{} }

// hunt1Clusters returns the text of every "subgraph cluster_N { ... }" block.
func hunt1Clusters(dot string) []string {
	parts := strings.Split(dot, "subgraph cluster_")[1:]
	for i, p := range parts {
		if j := strings.Index(p, "}"); j >= 0 {
			parts[i] = p[:j]
		}
	}
	return parts
}

func hunt1Visualize(t *testing.T, c *dig.Container, err error) string {
	t.Helper()
	var b bytes.Buffer
	if verr := dig.Visualize(c, &b, dig.VisualizeError(err)); verr != nil {
		t.Fatalf("Visualize failed: %v", verr)
	}
	return b.String()
}

// The doc comment of dig.Name shows one constructor provided under two names.
func TestHunt1SameFunctionUnderTwoNames(t *testing.T) {
	c := dig.New()
	if err := c.Provide(hunt1NewConn, dig.Name("rw")); err != nil {
		t.Fatal(err)
	}
	if err := c.Provide(hunt1NewConn, dig.Name("ro")); err != nil {
		t.Fatal(err)
	}

	type in struct {
		dig.In

		RW *hunt1Conn `name:"rw"`
	}
	// Only the "rw" constructor is executed, and fails. The "ro" one is
	// never run.
	err := c.Invoke(func(in) {})
	if err == nil || !dig.CanVisualizeError(err) {
		t.Fatalf("expected a visualizable error, got %v", err)
	}

	out := hunt1Visualize(t, c, err)
	clusters := hunt1Clusters(out)

	var rw, ro []string
	for _, cl := range clusters {
		switch {
		case strings.Contains(cl, "hunt1Conn[name=rw]"):
			rw = append(rw, cl)
		case strings.Contains(cl, "hunt1Conn[name=ro]"):
			ro = append(ro, cl)
		}
	}
	if len(ro) != 0 {
		t.Errorf("the constructor of name=ro did not fail (it never ran) and must be pruned, got:\n%s", out)
	}
	if len(rw) != 1 {
		t.Fatalf("expected exactly one cluster for the failed name=rw constructor, got %d:\n%s", len(rw), out)
	}
	if !strings.Contains(rw[0], "color=red") {
		t.Errorf("the failed name=rw constructor must be marked as root cause (color=red), got:\n%s", out)
	}
	for _, cl := range ro {
		if strings.Contains(cl, "color=red") {
			t.Errorf("the name=ro constructor, which never ran, is marked as the root cause:\n%s", out)
		}
	}
}

// The same constructors provided to two sibling scopes.
func TestHunt1SameFunctionInSiblingScopes(t *testing.T) {
	c := dig.New()
	s1 := c.Scope("s1")
	s2 := c.Scope("s2")
	for _, s := range []*dig.Scope{s1, s2} {
		if err := s.Provide(hunt1NewConn); err != nil {
			t.Fatal(err)
		}
		if err := s.Provide(hunt1NewRepo); err != nil {
			t.Fatal(err)
		}
	}

	// Only the constructors of s1 are involved.
	err := s1.Invoke(func(*hunt1Repo) {})
	if err == nil || !dig.CanVisualizeError(err) {
		t.Fatalf("expected a visualizable error, got %v", err)
	}

	out := hunt1Visualize(t, c, err)
	clusters := hunt1Clusters(out)
	// s1 was created first, so that its constructors come first.
	if len(clusters) != 2 {
		t.Fatalf("expected the 2 constructors of s1 only (s2's did not fail and must be pruned), got %d clusters:\n%s", len(clusters), out)
	}
	if !strings.Contains(clusters[0], "hunt1NewConn") || !strings.Contains(clusters[0], "color=red") {
		t.Errorf("hunt1NewConn of s1 must be the root cause:\n%s", out)
	}
	if !strings.Contains(clusters[1], "hunt1NewRepo") || !strings.Contains(clusters[1], "color=orange") {
		t.Errorf("hunt1NewRepo of s1 must be a transitive failure:\n%s", out)
	}
}

// Same as above, but the order in which the clusters are emitted cannot hide
// the problem: s2's constructors succeeded for real before s1's fail.
func TestHunt1SucceededConstructorMarkedAsFailed(t *testing.T) {
	fail := false
	newConn := func() (*hunt1Conn, error) {
		if fail {
			return nil, errors.New("hunt1: cannot connect")
		}
		return &hunt1Conn{}, nil
	}

	c := dig.New()
	s1 := c.Scope("s1")
	s2 := c.Scope("s2")
	if err := s1.Provide(newConn); err != nil {
		t.Fatal(err)
	}
	if err := s2.Provide(newConn); err != nil {
		t.Fatal(err)
	}
	// s2's constructor succeeds.
	if err := s2.Invoke(func(*hunt1Conn) {}); err != nil {
		t.Fatal(err)
	}
	fail = true
	err := s1.Invoke(func(*hunt1Conn) {})
	if err == nil {
		t.Fatal("expected an error")
	}
	out := hunt1Visualize(t, c, err)
	clusters := hunt1Clusters(out)
	if len(clusters) != 1 {
		t.Fatalf("expected only the failed constructor of s1, got %d clusters:\n%s", len(clusters), out)
	}
	if !strings.Contains(clusters[0], "color=red") {
		t.Errorf("the failed constructor must be marked as root cause:\n%s", out)
	}
}
