package dig_test

// Borderline B1 (C20, "true outcome"): in a container WITHOUT
// RecoverFromPanics, a constructor or decorator that panics still gets its
// callback called - with Error == nil, i.e. the callback is told that the
// function succeeded, while the panic keeps unwinding through Invoke.
// The property only spells out "PanicError when a panic was recovered"; this
// test reads "Error is nil on success" as "nil only on success".

import (
	"testing"

	"go.uber.org/dig"
)

type huntB1Value struct{}

func TestHuntB1CallbackReportsSuccessForPanickingConstructor(t *testing.T) {
	c := dig.New()
	var infos []dig.CallbackInfo
	err := c.Provide(
		func() *huntB1Value { panic("huntB1: constructor panicked") },
		dig.WithProviderCallback(func(ci dig.CallbackInfo) { infos = append(infos, ci) }),
	)
	if err != nil {
		t.Fatal(err)
	}

	func() {
		defer func() { recover() }()
		c.Invoke(func(*huntB1Value) {})
	}()

	if len(infos) != 1 {
		t.Fatalf("expected exactly one callback, got %d", len(infos))
	}
	if infos[0].Error == nil {
		t.Errorf("the constructor panicked, but its callback was told it succeeded (Error == nil)")
	}
}

func TestHuntB1CallbackReportsSuccessForPanickingDecorator(t *testing.T) {
	c := dig.New()
	var infos []dig.CallbackInfo
	if err := c.Provide(func() *huntB1Value { return &huntB1Value{} }); err != nil {
		t.Fatal(err)
	}
	err := c.Decorate(
		func(*huntB1Value) *huntB1Value { panic("huntB1: decorator panicked") },
		dig.WithDecoratorCallback(func(ci dig.CallbackInfo) { infos = append(infos, ci) }),
	)
	if err != nil {
		t.Fatal(err)
	}

	func() {
		defer func() { recover() }()
		c.Invoke(func(*huntB1Value) {})
	}()

	if len(infos) != 1 {
		t.Fatalf("expected exactly one callback, got %d", len(infos))
	}
	if infos[0].Error == nil {
		t.Errorf("the decorator panicked, but its callback was told it succeeded (Error == nil)")
	}
}
