package dig_test

// Defect 3 (C18, "As interfaces expanded"): when the list given to dig.As
// contains the constructor's own result type next to other interfaces, the
// own type is silently dropped: it is neither listed in ProvideInfo.Outputs
// nor provided to the container. (When it is the only entry of dig.As it is
// kept, so the outcome depends on the other entries.)

import (
	"bytes"
	"io"
	"reflect"
	"sort"
	"testing"

	"go.uber.org/dig"
)

func hunt3Outputs(info dig.ProvideInfo) []string {
	var outs []string
	for _, o := range info.Outputs {
		outs = append(outs, o.String())
	}
	sort.Strings(outs)
	return outs
}

func TestHunt3AsOwnTypeAndAnotherInterface(t *testing.T) {
	c := dig.New()
	var info dig.ProvideInfo
	err := c.Provide(
		func() io.ReadWriter { return &bytes.Buffer{} },
		dig.As(new(io.ReadWriter), new(io.Reader)),
		dig.FillProvideInfo(&info),
	)
	if err != nil {
		t.Fatal(err)
	}

	want := []string{"io.ReadWriter", "io.Reader"}
	sort.Strings(want)
	if got := hunt3Outputs(info); !reflect.DeepEqual(got, want) {
		t.Errorf("ProvideInfo.Outputs = %v, want one entry per interface given to dig.As: %v", got, want)
	}

	if err := c.Invoke(func(io.Reader) {}); err != nil {
		t.Errorf("io.Reader must be available: %v", err)
	}
	if err := c.Invoke(func(io.ReadWriter) {}); err != nil {
		t.Errorf("io.ReadWriter was given to dig.As and must be available: %v", err)
	}
}

// The single-entry form keeps the type: the two forms are inconsistent.
func TestHunt3AsOwnTypeAloneIsKept(t *testing.T) {
	c := dig.New()
	var info dig.ProvideInfo
	err := c.Provide(
		func() io.ReadWriter { return &bytes.Buffer{} },
		dig.As(new(io.ReadWriter)),
		dig.FillProvideInfo(&info),
	)
	if err != nil {
		t.Fatal(err)
	}
	if got, want := hunt3Outputs(info), []string{"io.ReadWriter"}; !reflect.DeepEqual(got, want) {
		t.Errorf("ProvideInfo.Outputs = %v, want %v", got, want)
	}
}

// Same for value groups.
func TestHunt3AsOwnTypeAndAnotherInterfaceGroup(t *testing.T) {
	c := dig.New()
	var info dig.ProvideInfo
	err := c.Provide(
		func() io.ReadWriter { return &bytes.Buffer{} },
		dig.Group("g"),
		dig.As(new(io.ReadWriter), new(io.Reader)),
		dig.FillProvideInfo(&info),
	)
	if err != nil {
		t.Fatal(err)
	}
	want := []string{`io.ReadWriter[group = "g"]`, `io.Reader[group = "g"]`}
	sort.Strings(want)
	if got := hunt3Outputs(info); !reflect.DeepEqual(got, want) {
		t.Errorf("ProvideInfo.Outputs = %v, want %v", got, want)
	}

	type in struct {
		dig.In

		RWs []io.ReadWriter `group:"g"`
		Rs  []io.Reader     `group:"g"`
	}
	if err := c.Invoke(func(i in) {
		if len(i.Rs) != 1 {
			t.Errorf("expected 1 io.Reader in group g, got %d", len(i.Rs))
		}
		if len(i.RWs) != 1 {
			t.Errorf("expected 1 io.ReadWriter in group g, got %d", len(i.RWs))
		}
	}); err != nil {
		t.Fatal(err)
	}
}
