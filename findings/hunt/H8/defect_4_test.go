package dig_test

// Defect 4 (C19): when the decorator of a value group fails, the error of
// the Invoke is visualizable (CanVisualizeError is true) but the failure of
// the group is never recorded: FailGroupNodes is given the decorator's ID,
// which is not a constructor of the graph, and returns without marking
// anything. Depending on who consumes the group,
//   - nothing at all is marked (an empty graph without any root cause), or
//   - the constructor consuming the group, which only failed because of the
//     decorator, is marked as THE root cause instead of a transitive failure.
// (A failing decorator of a single value is handled: the decorated value
// is marked as root cause and its consumers as transitive failures.)

import (
	"bytes"
	"errors"
	"strings"
	"testing"

	"go.uber.org/dig"
)

type hunt4Server struct{}

type hunt4In struct {
	dig.In

	Handlers []string `group:"handlers"`
}

type hunt4Out struct {
	dig.Out

	Handlers []string `group:"handlers"`
}

func hunt4Container(t *testing.T) *dig.Container {
	c := dig.New()
	if err := c.Provide(func() string { return "h1" }, dig.Group("handlers")); err != nil {
		t.Fatal(err)
	}
	if err := c.Decorate(func(hunt4In) (hunt4Out, error) {
		return hunt4Out{}, errors.New("hunt4: decorator failed")
	}); err != nil {
		t.Fatal(err)
	}
	if err := c.Provide(func(hunt4In) *hunt4Server { return &hunt4Server{} }); err != nil {
		t.Fatal(err)
	}
	return c
}

func hunt4Visualize(t *testing.T, c *dig.Container, err error) string {
	var b bytes.Buffer
	if verr := dig.Visualize(c, &b, dig.VisualizeError(err)); verr != nil {
		t.Fatal(verr)
	}
	return b.String()
}

// Baseline: the same situation with a single value instead of a group.
func TestHunt4BaselineSingleValueDecorator(t *testing.T) {
	c := dig.New()
	c.Provide(func() string { return "h1" })
	c.Decorate(func(string) (string, error) { return "", errors.New("hunt4: decorator failed") })
	c.Provide(func(string) *hunt4Server { return &hunt4Server{} })
	err := c.Invoke(func(*hunt4Server) {})
	if err == nil || !dig.CanVisualizeError(err) {
		t.Fatalf("expected a visualizable error, got %v", err)
	}
	out := hunt4Visualize(t, c, err)
	if !strings.Contains(out, `"string" [color=red];`) {
		t.Errorf("decorated value not marked as root cause:\n%s", out)
	}
	if !strings.Contains(out, "color=orange;") || !strings.Contains(out, `"*dig_test.hunt4Server" [color=orange];`) {
		t.Errorf("consumer not marked as transitive failure:\n%s", out)
	}
}

func TestHunt4GroupDecoratorFailsInvokeConsumesGroup(t *testing.T) {
	c := hunt4Container(t)
	err := c.Invoke(func(hunt4In) {})
	if err == nil {
		t.Fatal("expected an error")
	}
	out := hunt4Visualize(t, c, err)
	marked := strings.Contains(out, "color=red")
	if can := dig.CanVisualizeError(err); can != marked {
		t.Errorf("CanVisualizeError = %v, but root cause marked in the graph = %v:\n%s", can, marked, out)
	}
}

func TestHunt4GroupDecoratorFailsConstructorConsumesGroup(t *testing.T) {
	c := hunt4Container(t)
	err := c.Invoke(func(*hunt4Server) {})
	if err == nil || !dig.CanVisualizeError(err) {
		t.Fatalf("expected a visualizable error, got %v", err)
	}
	out := hunt4Visualize(t, c, err)

	// The constructor of *hunt4Server did not fail by itself: it could not
	// get its arguments. It is a transitive failure, exactly as in the
	// baseline.
	for _, cl := range strings.Split(out, "subgraph cluster_")[1:] {
		cl = cl[:strings.Index(cl, "}")]
		if strings.Contains(cl, "hunt4Server") && !strings.Contains(cl, "color=orange") {
			t.Errorf("the constructor of *hunt4Server must be a transitive failure (orange):\n%s", out)
		}
	}
	if strings.Contains(out, `"*dig_test.hunt4Server" [color=red];`) {
		t.Errorf("*hunt4Server is reported as the root cause; the root cause is the failed value group:\n%s", out)
	}
}
