package dig_test

// Defect 2 (C18): ProvideInfo.ID / DecorateInfo.ID is the code pointer
// reported by reflect.Value.Pointer, which is shared by all functions made
// with reflect.MakeFunc (and all method values obtained through reflect).
// Distinct functions therefore receive the same ID. (LocationForPC's doc
// explicitly names reflect.MakeFunc functions as supported constructors.)

import (
	"bytes"
	"errors"
	"reflect"
	"strings"
	"testing"

	"go.uber.org/dig"
)

type hunt2A struct{}
type hunt2B struct{}

type hunt2Factory struct{}

func (hunt2Factory) NewA() *hunt2A { return &hunt2A{} }
func (hunt2Factory) NewB() *hunt2B { return &hunt2B{} }

func TestHunt2MakeFuncConstructorsShareOneID(t *testing.T) {
	newA := reflect.MakeFunc(
		reflect.TypeOf((func() *hunt2A)(nil)),
		func([]reflect.Value) []reflect.Value { return []reflect.Value{reflect.ValueOf(&hunt2A{})} },
	).Interface()
	newB := reflect.MakeFunc(
		reflect.TypeOf((func(*hunt2A) *hunt2B)(nil)),
		func([]reflect.Value) []reflect.Value { return []reflect.Value{reflect.ValueOf(&hunt2B{})} },
	).Interface()

	c := dig.New()
	var infoA, infoB dig.ProvideInfo
	if err := c.Provide(newA, dig.FillProvideInfo(&infoA)); err != nil {
		t.Fatal(err)
	}
	if err := c.Provide(newB, dig.FillProvideInfo(&infoB)); err != nil {
		t.Fatal(err)
	}
	if infoA.ID == infoB.ID {
		t.Errorf("distinct functions func() *hunt2A and func(*hunt2A) *hunt2B received the same ID %v", infoA.ID)
	}
}

func TestHunt2ReflectMethodValuesShareOneID(t *testing.T) {
	f := reflect.ValueOf(hunt2Factory{})
	newA := f.MethodByName("NewA").Interface()
	newB := f.MethodByName("NewB").Interface()

	c := dig.New()
	var infoA, infoB dig.ProvideInfo
	if err := c.Provide(newA, dig.FillProvideInfo(&infoA)); err != nil {
		t.Fatal(err)
	}
	if err := c.Provide(newB, dig.FillProvideInfo(&infoB)); err != nil {
		t.Fatal(err)
	}
	if infoA.ID == infoB.ID {
		t.Errorf("distinct methods NewA and NewB received the same ID %v", infoA.ID)
	}
}

// Consequence for C19: the shared ID makes Visualize blame the wrong
// constructor.
func TestHunt2MakeFuncVisualizeError(t *testing.T) {
	errT := reflect.TypeOf((*error)(nil)).Elem()
	newA := reflect.MakeFunc(
		reflect.TypeOf((func() (*hunt2A, error))(nil)),
		func([]reflect.Value) []reflect.Value {
			return []reflect.Value{reflect.Zero(reflect.TypeOf(&hunt2A{})), reflect.ValueOf(errors.New("hunt2")).Convert(errT)}
		},
	).Interface()
	newB := reflect.MakeFunc(
		reflect.TypeOf((func() *hunt2B)(nil)),
		func([]reflect.Value) []reflect.Value { return []reflect.Value{reflect.ValueOf(&hunt2B{})} },
	).Interface()

	c := dig.New()
	if err := c.Provide(newA); err != nil {
		t.Fatal(err)
	}
	if err := c.Provide(newB); err != nil {
		t.Fatal(err)
	}
	err := c.Invoke(func(*hunt2A) {})
	if err == nil {
		t.Fatal("expected an error")
	}
	var b bytes.Buffer
	if verr := dig.Visualize(c, &b, dig.VisualizeError(err)); verr != nil {
		t.Fatal(verr)
	}
	out := b.String()
	if n := strings.Count(out, "subgraph cluster_"); n != 1 {
		t.Errorf("expected only the failed constructor of *hunt2A, got %d clusters:\n%s", n, out)
	}
	for _, cl := range strings.Split(out, "subgraph cluster_")[1:] {
		cl = cl[:strings.Index(cl, "}")]
		if strings.Contains(cl, "hunt2B") && strings.Contains(cl, "color=red") {
			t.Errorf("the constructor of *hunt2B, which was never run, is marked as the root cause:\n%s", out)
		}
	}
}
