package dig_test

import (
	"testing"

	"go.uber.org/dig"
)

// BORDERLINE (see REPORT.md): C04 "if every required dependency is available,
// the graph is acyclic and no user function fails, Invoke succeeds".
//
// dig treats every result whose type implements error as "the error result"
// (isError uses Type.Implements), but then tests it with
// `v.Interface().(error) != nil`. For a concrete error type a nil pointer is a
// non-nil interface value, so a function that returns "no error" is reported
// as failed.

type huntBErr struct{ msg string }

func (e *huntBErr) Error() string { return e.msg }

type huntBA struct{}

func TestHuntBorderlineTypedNilErrorFromConstructor(t *testing.T) {
	c := dig.New()
	if err := c.Provide(func() (*huntBA, *huntBErr) { return &huntBA{}, nil }); err != nil {
		t.Fatal(err)
	}
	if err := c.Invoke(func(*huntBA) {}); err != nil {
		t.Fatalf("the constructor returned a nil *huntBErr, yet: %v", err)
	}
}

func TestHuntBorderlineTypedNilErrorFromInvoke(t *testing.T) {
	c := dig.New()
	if err := c.Invoke(func() *huntBErr { return nil }); err != nil {
		t.Fatalf("the function returned a nil *huntBErr, yet Invoke returned %#v", err)
	}
}
