package dig_test

import (
	"strings"
	"testing"

	"go.uber.org/dig"
)

// C05, last clause: "a reported cycle path is a real closed path".
//
// Scope.cycleDetectedError drops the value-group nodes from the cycle found by
// the graph search. When the search entered the cycle through a value-group
// node (which is the case whenever the group's consumer was provided before
// the constructor that closes the cycle, because the group node then has the
// lowest order), the node that opens and closes the path is the one that is
// dropped: the reported path is an open chain "X depends on Y" (or a single
// function for a self cycle) instead of "X depends on Y depends on X".

type hunt3A struct{}
type hunt3B struct{}

type hunt3GroupIn struct {
	dig.In

	Vs []*hunt3B `group:"g"`
}

type hunt3GroupOut struct {
	dig.Out

	V *hunt3B `group:"g"`
}

func hunt3CheckClosed(t *testing.T, err error) {
	t.Helper()
	if err == nil {
		t.Fatal("expected the cycle to be rejected")
	}
	if !dig.IsCycleDetected(err) {
		t.Fatalf("expected a cycle error, got %v", err)
	}
	entries := strings.Split(err.Error(), "\n\tdepends on ")
	if len(entries) < 2 {
		t.Fatalf("the reported cycle path has a single entry and no \"depends on\" edge, it is not a closed path:\n%v", err)
	}
	first, last := entries[0], entries[len(entries)-1]
	if !strings.HasSuffix(first, last) {
		t.Fatalf("the reported cycle path does not return to where it starts:\n%v", err)
	}
}

// For reference: a cycle through plain edges is reported as a closed path.
func TestHunt3PlainCyclePathIsClosed(t *testing.T) {
	c := dig.New()
	if err := c.Provide(func(*hunt3B) *hunt3A { return nil }); err != nil {
		t.Fatal(err)
	}
	hunt3CheckClosed(t, c.Provide(func(*hunt3A) *hunt3B { return nil }))
}

func TestHunt3GroupCyclePathIsClosed(t *testing.T) {
	c := dig.New()
	// consumer of the group first
	if err := c.Provide(func(hunt3GroupIn) *hunt3A { return nil }); err != nil {
		t.Fatal(err)
	}
	// feeds the group and needs the consumer's result
	hunt3CheckClosed(t, c.Provide(func(*hunt3A) hunt3GroupOut { return hunt3GroupOut{} }))
}

func TestHunt3GroupSelfCyclePathIsClosed(t *testing.T) {
	c := dig.New()
	hunt3CheckClosed(t, c.Provide(func(hunt3GroupIn) hunt3GroupOut { return hunt3GroupOut{} }))
}

// The same at Invoke time with DeferAcyclicVerification.
func TestHunt3GroupCyclePathIsClosedDeferred(t *testing.T) {
	c := dig.New(dig.DeferAcyclicVerification())
	if err := c.Provide(func(hunt3GroupIn) *hunt3A { return nil }); err != nil {
		t.Fatal(err)
	}
	if err := c.Provide(func(*hunt3A) hunt3GroupOut { return hunt3GroupOut{} }); err != nil {
		t.Fatal(err)
	}
	hunt3CheckClosed(t, c.Invoke(func(*hunt3A) {}))
}
