package dig_test

import (
	"testing"

	"go.uber.org/dig"
)

// C04: "A parameter-object field tagged optional receives the zero value
// exactly when no constructor for it is visible or that constructor's
// dependencies are unavailable".
//
// As soon as a decorator is registered for the key, an optional field of that
// key no longer degrades to the zero value: paramSingle.Build returns whatever
// the decorator reports and never looks at ps.Optional on that path. The
// decorator cannot be built (the value it decorates does not exist), so the
// whole Invoke fails with "missing dependencies".

type hunt2A struct{ name string }
type hunt2B struct{}
type hunt2X struct{}

type hunt2In struct {
	dig.In

	A *hunt2A `optional:"true"`
}

// No constructor for *hunt2A is visible at all.
func TestHunt2OptionalWithoutConstructorButDecorated(t *testing.T) {
	c := dig.New()
	if err := c.Decorate(func(a *hunt2A) *hunt2A { return &hunt2A{name: a.name + "'"} }); err != nil {
		t.Fatal(err)
	}

	invoked := false
	err := c.Invoke(func(p hunt2In) {
		invoked = true
		if p.A != nil {
			t.Errorf("expected the zero value for the optional field, got %+v", p.A)
		}
	})
	if err != nil {
		t.Fatalf("no constructor for *hunt2A is visible, so the optional field must receive nil and Invoke must succeed; got: %v", err)
	}
	if !invoked {
		t.Fatal("function was not invoked")
	}
}

// Same, with a decorator that needs something unrelated that is missing too.
func TestHunt2OptionalWithoutConstructorDecoratorNeedsOther(t *testing.T) {
	c := dig.New()
	if err := c.Decorate(func(*hunt2X) *hunt2A { return &hunt2A{} }); err != nil {
		t.Fatal(err)
	}
	err := c.Invoke(func(p hunt2In) {
		if p.A != nil {
			t.Errorf("expected the zero value for the optional field, got %+v", p.A)
		}
	})
	if err != nil {
		t.Fatalf("no constructor for *hunt2A is visible, so the optional field must receive nil; got: %v", err)
	}
}

// A constructor is visible, but its own dependency (*hunt2B) is unavailable.
// Without the decorator this Invoke succeeds with p.A == nil.
func TestHunt2OptionalWithUnavailableDepsButDecorated(t *testing.T) {
	build := func(decorate bool) error {
		c := dig.New()
		if err := c.Provide(func(*hunt2B) *hunt2A { return &hunt2A{name: "a"} }); err != nil {
			t.Fatal(err)
		}
		if decorate {
			if err := c.Decorate(func(a *hunt2A) *hunt2A { return &hunt2A{name: a.name + "'"} }); err != nil {
				t.Fatal(err)
			}
		}
		return c.Invoke(func(p hunt2In) {
			if p.A != nil {
				t.Errorf("expected the zero value for the optional field, got %+v", p.A)
			}
		})
	}

	if err := build(false); err != nil {
		t.Fatalf("baseline without decorator: %v", err)
	}
	if err := build(true); err != nil {
		t.Fatalf("the constructor's dependencies are unavailable, so the optional field must receive nil; "+
			"registering a decorator for the key turned that into an error: %v", err)
	}
}
