package dig_test

import (
	"errors"
	"fmt"
	"testing"

	"go.uber.org/dig"
)

// C04, last clause: "an optional tag never hides an error returned by a
// constructor".
//
// A constructor that fails with an error whose chain contains dig's own
// "missing dependencies" error (for instance because the constructor ran an
// Invoke on another container or scope and passed the failure on) is silently
// swallowed when the value it builds is requested through an
// `optional:"true"` field: Invoke reports success and hands out the zero
// value, although the constructor was called and returned a non-nil error.

type hunt1A struct{}
type hunt1B struct{}
type hunt1Missing struct{}

type hunt1In struct {
	dig.In

	A *hunt1A `optional:"true"`
}

func TestHunt1OptionalHidesConstructorError(t *testing.T) {
	other := dig.New() // nothing provided here

	c := dig.New()
	ctorCalls := 0
	var ctorErr error
	if err := c.Provide(func() (*hunt1A, error) {
		ctorCalls++
		// The constructor needs something from another container and
		// reports the failure to its caller.
		if err := other.Invoke(func(*hunt1Missing) {}); err != nil {
			ctorErr = fmt.Errorf("cannot set up A: %w", err)
			return nil, ctorErr
		}
		return &hunt1A{}, nil
	}); err != nil {
		t.Fatal(err)
	}

	invoked := false
	err := c.Invoke(func(p hunt1In) { invoked = true })

	if ctorCalls != 1 || ctorErr == nil {
		t.Fatalf("test setup: constructor calls=%d, its error=%v", ctorCalls, ctorErr)
	}
	if err == nil {
		t.Fatalf("the constructor of *hunt1A was called and returned the error %q, "+
			"but Invoke returned nil (invoked function ran: %v): the optional tag hid the error", ctorErr, invoked)
	}
	if !errors.Is(err, ctorErr) {
		t.Errorf("Invoke failed with %v, which does not wrap the constructor's error", err)
	}
}

// Same thing one level down: the failing constructor is a dependency of the
// constructor of the optional value.
func TestHunt1OptionalHidesTransitiveConstructorError(t *testing.T) {
	other := dig.New()

	c := dig.New()
	var ctorErr error
	if err := c.Provide(func() (*hunt1B, error) {
		ctorErr = other.Invoke(func(*hunt1Missing) {}) // returned as is
		return nil, ctorErr
	}); err != nil {
		t.Fatal(err)
	}
	aBuilt := false
	if err := c.Provide(func(*hunt1B) *hunt1A { aBuilt = true; return &hunt1A{} }); err != nil {
		t.Fatal(err)
	}

	err := c.Invoke(func(p hunt1In) {})
	if ctorErr == nil || aBuilt {
		t.Fatalf("test setup: ctorErr=%v aBuilt=%v", ctorErr, aBuilt)
	}
	if err == nil {
		t.Fatalf("the constructor of *hunt1B returned the error %q, but Invoke returned nil", ctorErr)
	}
}
