package dig_test

import (
	"testing"

	"go.uber.org/dig"
)

// C05, first clause: "no history can make Invoke recurse without bound,
// re-enter a constructor that is already being built, or crash the process".
//
// constructorNode.Call only knows "called" / "not called"; it has no notion
// of a constructor that is currently running. A constructor that, while it
// runs, triggers a resolution of its own result (Invoke on the same container
// or on a child scope) is entered again, and again from there: without the
// guard below the recursion is unbounded and the process dies with a stack
// overflow that cannot be recovered. The guard stops at the first re-entry
// so that the test can report it.

type hunt4A struct{ from string }
type hunt4B struct{}

func TestHunt4ConstructorReenteredThroughNestedInvoke(t *testing.T) {
	c := dig.New()

	running, entries := 0, 0
	reentered := false
	var nestedErr error
	if err := c.Provide(func() *hunt4A {
		entries++
		running++
		defer func() { running-- }()
		if running > 1 {
			// Already being built further up the stack. Stop here; the
			// library would otherwise recurse until the stack overflows.
			reentered = true
			return &hunt4A{from: "re-entered call"}
		}
		nestedErr = c.Invoke(func(*hunt4A) {})
		return &hunt4A{from: "outer call"}
	}); err != nil {
		t.Fatal(err)
	}

	err := c.Invoke(func(*hunt4A) {})
	t.Logf("outer Invoke: %v; nested Invoke: %v; constructor entered %d times", err, nestedErr, entries)
	if reentered {
		t.Fatalf("the constructor of *hunt4A was entered again while it was being built (entered %d times)", entries)
	}
}

// The same through a second constructor and a child scope: the constructor of
// *hunt4A asks a scope for *hunt4B, whose constructor needs *hunt4A.
func TestHunt4ConstructorReenteredThroughScope(t *testing.T) {
	c := dig.New()
	child := c.Scope("child")

	running, entries := 0, 0
	reentered := false
	if err := c.Provide(func() *hunt4A {
		entries++
		running++
		defer func() { running-- }()
		if running > 1 {
			reentered = true
			return &hunt4A{}
		}
		_ = child.Invoke(func(*hunt4B) {})
		return &hunt4A{}
	}); err != nil {
		t.Fatal(err)
	}
	if err := child.Provide(func(*hunt4A) *hunt4B { return &hunt4B{} }); err != nil {
		t.Fatal(err)
	}

	_ = child.Invoke(func(*hunt4B) {})
	if reentered {
		t.Fatalf("the constructor of *hunt4A was entered again while it was being built (entered %d times)", entries)
	}
}
