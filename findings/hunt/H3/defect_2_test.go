package dig_test

// Defect 2 (C07): with RecoverFromPanics, a constructor or decorator that
// panics with a nil value (`panic(nil)`, legal Go; go.mod says "go 1.20", so
// recover() returns nil for it) is treated as if it had returned normally
// WITHOUT results: no error is reported for it.  Depending on the consumer the
// demanding Invoke succeeds with missing / undecorated values, or fails with an
// unrelated "reflect: Call using zero Value argument" panic blamed on another
// function.

import (
	"errors"
	"strings"
	"testing"

	"go.uber.org/dig"
)

// reports whether panic(nil) is invisible to recover() in this build.
func hunt2LegacyPanicNil() (legacy bool) {
	defer func() { legacy = recover() == nil }()
	panic(nil)
}

type hunt2A struct{ v int }

type hunt2GroupIn struct {
	dig.In
	Vals []int `group:"hunt2"`
}
type hunt2GroupOut struct {
	dig.Out
	V int `group:"hunt2"`
}
type hunt2GroupDec struct {
	dig.Out
	Vals []int `group:"hunt2"`
}

func hunt2CheckPanicError(t *testing.T, err error, ran bool) {
	t.Helper()
	if ran {
		t.Errorf("invoked function ran although a function it depends on panicked")
	}
	if err == nil {
		t.Fatalf("a function needed by Invoke panicked, but Invoke returned nil")
	}
	var pe dig.PanicError
	if !errors.As(dig.RootCause(err), &pe) {
		t.Errorf("root cause is not a PanicError: %v", err)
	}
	if strings.Contains(err.Error(), "reflect:") {
		t.Errorf("Invoke did not fail with the function's own panic but with a secondary one: %v", err)
	}
}

func TestHunt2PanicNilConstructorSingle(t *testing.T) {
	if !hunt2LegacyPanicNil() {
		t.Skip("panic(nil) is turned into *runtime.PanicNilError in this build")
	}
	c := dig.New(dig.RecoverFromPanics())
	calls := 0
	if err := c.Provide(func() *hunt2A {
		calls++
		if calls == 1 {
			panic(nil)
		}
		return &hunt2A{v: 1}
	}); err != nil {
		t.Fatal(err)
	}
	ran := false
	err := c.Invoke(func(a *hunt2A) { ran = true })
	hunt2CheckPanicError(t, err, ran)
	if !strings.Contains(err.Error(), "TestHunt2PanicNilConstructorSingle.func1") {
		t.Errorf("the panic is not attributed to the constructor: %v", err)
	}
}

func TestHunt2PanicNilConstructorGroup(t *testing.T) {
	if !hunt2LegacyPanicNil() {
		t.Skip("panic(nil) is turned into *runtime.PanicNilError in this build")
	}
	c := dig.New(dig.RecoverFromPanics())
	calls := 0
	if err := c.Provide(func() hunt2GroupOut {
		calls++
		if calls == 1 {
			panic(nil)
		}
		return hunt2GroupOut{V: 7}
	}); err != nil {
		t.Fatal(err)
	}
	ran := false
	var got []int
	err := c.Invoke(func(p hunt2GroupIn) { ran = true; got = p.Vals })
	if err == nil {
		t.Logf("Invoke succeeded with group %v after its only feeder panicked", got)
	}
	hunt2CheckPanicError(t, err, ran)
}

func TestHunt2PanicNilDecoratorSingle(t *testing.T) {
	if !hunt2LegacyPanicNil() {
		t.Skip("panic(nil) is turned into *runtime.PanicNilError in this build")
	}
	c := dig.New(dig.RecoverFromPanics())
	if err := c.Provide(func() *hunt2A { return &hunt2A{v: 1} }); err != nil {
		t.Fatal(err)
	}
	calls := 0
	if err := c.Decorate(func(a *hunt2A) *hunt2A {
		calls++
		if calls == 1 {
			panic(nil)
		}
		return &hunt2A{v: a.v + 10}
	}); err != nil {
		t.Fatal(err)
	}
	ran := false
	err := c.Invoke(func(a *hunt2A) { ran = true })
	hunt2CheckPanicError(t, err, ran)
}

func TestHunt2PanicNilDecoratorGroupSilentlySkipped(t *testing.T) {
	if !hunt2LegacyPanicNil() {
		t.Skip("panic(nil) is turned into *runtime.PanicNilError in this build")
	}
	c := dig.New(dig.RecoverFromPanics())
	if err := c.Provide(func() hunt2GroupOut { return hunt2GroupOut{V: 7} }); err != nil {
		t.Fatal(err)
	}
	calls := 0
	if err := c.Decorate(func(p hunt2GroupIn) hunt2GroupDec {
		calls++
		if calls == 1 {
			panic(nil)
		}
		return hunt2GroupDec{Vals: append(p.Vals, 1000)}
	}); err != nil {
		t.Fatal(err)
	}
	ran := false
	var got []int
	err := c.Invoke(func(p hunt2GroupIn) { ran = true; got = p.Vals })
	if err == nil {
		t.Logf("Invoke succeeded with the UNDECORATED group %v: the panicking decorator was silently skipped", got)
	}
	hunt2CheckPanicError(t, err, ran)
}
