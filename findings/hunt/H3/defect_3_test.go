package dig_test

// Defect 3 (C06): a rejected Decorate whose function has a value-group
// parameter leaves the graph node(s) of that parameter behind in the scope
// and in all of its descendants (Scope.Decorate has no snapshot/rollback as
// Scope.provide has).  The leftover node changes the traversal of every later
// cycle detection, hence the text of later cycle errors.  Two containers that
// differ only in one rejected Decorate call behave differently.

import (
	"testing"

	"go.uber.org/dig"
)

type hunt3A struct{}

type hunt3GroupIn struct {
	dig.In
	Vals []int `group:"hunt3"`
}
type hunt3GroupOut struct {
	dig.Out
	V int `group:"hunt3"`
}

// Rejected: the second field has an invalid optional tag. (Any other reason
// for rejecting works as well, e.g. "already decorated", see below.)
type hunt3BadIn struct {
	dig.In
	Vals []int   `group:"hunt3"`
	A    *hunt3A `optional:"maybe"`
}

func hunt3BadDecorator(hunt3BadIn) *hunt3A { panic("never called") }

// Consumes and feeds the same group: a cycle.
func hunt3Cyclic(hunt3GroupIn) hunt3GroupOut { return hunt3GroupOut{} }

func TestHunt3RejectedDecorateChangesLaterInvokeError(t *testing.T) {
	run := func(withRejected bool) string {
		c := dig.New(dig.DeferAcyclicVerification())
		if withRejected {
			if err := c.Decorate(hunt3BadDecorator); err == nil {
				t.Fatal("test setup: Decorate must be rejected")
			}
		}
		if err := c.Provide(hunt3Cyclic); err != nil {
			t.Fatal(err)
		}
		err := c.Invoke(func(hunt3GroupIn) {})
		if err == nil {
			t.Fatal("test setup: expected a cycle error")
		}
		return err.Error()
	}
	without, with := run(false), run(true)
	if without != with {
		t.Errorf("a rejected Decorate changed the result of a later Invoke:\n--- never called:\n%s\n--- after rejected Decorate:\n%s", without, with)
	}
}

func TestHunt3RejectedDecorateChangesLaterProvideError(t *testing.T) {
	run := func(withRejected bool) string {
		c := dig.New()
		if err := c.Provide(func() *hunt3A { return &hunt3A{} }); err != nil {
			t.Fatal(err)
		}
		if err := c.Decorate(func(a *hunt3A) *hunt3A { return a }); err != nil {
			t.Fatal(err)
		}
		child := c.Scope("child")
		if withRejected {
			// Rejected because *hunt3A is already decorated in this scope.
			err := c.Decorate(func(p hunt3GroupIn, a *hunt3A) *hunt3A { return a })
			if err == nil {
				t.Fatal("test setup: Decorate must be rejected")
			}
		}
		err := child.Provide(hunt3Cyclic)
		if err == nil {
			t.Fatal("test setup: expected a cycle error")
		}
		return err.Error()
	}
	without, with := run(false), run(true)
	if without != with {
		t.Errorf("a rejected Decorate changed the result of a later Provide:\n--- never called:\n%s\n--- after rejected Decorate:\n%s", without, with)
	}
}
