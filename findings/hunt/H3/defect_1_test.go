package dig_test

// Defect 1 (C07): an optional parameter swallows the error RETURNED by the
// constructor of that parameter whenever the returned error's chain contains a
// dig "missing dependencies" error (e.g. it comes from a nested Invoke on the
// same container, a child scope or another container).  The Invoke that
// demanded the value then succeeds with a zero value instead of failing.

import (
	"errors"
	"fmt"
	"testing"

	"go.uber.org/dig"
)

type hunt1A struct{}
type hunt1Z struct{}

type hunt1Params struct {
	dig.In

	A *hunt1A `optional:"true"`
}

// The constructor propagates, unchanged, the error of a nested Invoke.
func TestHunt1OptionalSwallowsReturnedErrorNestedInvoke(t *testing.T) {
	c := dig.New()
	calls := 0
	var returned error
	if err := c.Provide(func() (*hunt1A, error) {
		calls++
		// *hunt1Z is not provided: the nested Invoke fails.
		returned = c.Invoke(func(*hunt1Z) {})
		return &hunt1A{}, returned
	}); err != nil {
		t.Fatal(err)
	}

	ran := false
	err := c.Invoke(func(p hunt1Params) { ran = true })
	if calls != 1 || returned == nil {
		t.Fatalf("test setup: constructor must have run once and failed (calls=%d, returned=%v)", calls, returned)
	}
	if err == nil {
		t.Errorf("constructor of *hunt1A returned the non-nil error %q but Invoke returned nil", returned)
	}
	if ran {
		t.Errorf("invoked function was run although the constructor of its parameter failed")
	}
}

// Same with the usual "add context" wrapping, and a sub-container.
func TestHunt1OptionalSwallowsReturnedErrorWrapped(t *testing.T) {
	sub := dig.New()
	c := dig.New()
	var returned error
	if err := c.Provide(func() (*hunt1A, error) {
		if err := sub.Invoke(func(*hunt1Z) {}); err != nil {
			returned = fmt.Errorf("starting sub-application: %w", err)
			return nil, returned
		}
		return &hunt1A{}, nil
	}); err != nil {
		t.Fatal(err)
	}

	ran := false
	err := c.Invoke(func(p hunt1Params) { ran = true })
	if returned == nil {
		t.Fatal("test setup: constructor must have failed")
	}
	if err == nil {
		t.Fatalf("constructor of *hunt1A returned the non-nil error %q but Invoke returned nil (ran=%v)", returned, ran)
	}
	if !errors.Is(err, returned) {
		t.Errorf("Invoke error %q does not have the constructor's error as cause", err)
	}
	if ran {
		t.Errorf("invoked function was run although the constructor of its parameter failed")
	}
}

// The constructor of an intermediate, non-optional dependency fails that way;
// the optional tag is on the consumer two levels up.
type hunt1B struct{}

func TestHunt1OptionalSwallowsTransitiveReturnedError(t *testing.T) {
	c := dig.New()
	var returned error
	if err := c.Provide(func() (*hunt1B, error) {
		returned = fmt.Errorf("B: %w", c.Invoke(func(*hunt1Z) {}))
		return nil, returned
	}); err != nil {
		t.Fatal(err)
	}
	if err := c.Provide(func(*hunt1B) *hunt1A { return &hunt1A{} }); err != nil {
		t.Fatal(err)
	}
	ran := false
	err := c.Invoke(func(p hunt1Params) { ran = true })
	if err == nil || ran {
		t.Errorf("constructor of *hunt1B returned %q; Invoke must fail, got err=%v ran=%v", returned, err, ran)
	}
}
