package dig_test

// Defect 4 (C07, "fails with that error as root cause"; lower severity):
// dig.RootCause does not return the error a failed constructor returned when
// that error is an ordinary (non-dig) error which wraps a dig error, e.g. the
// result of a nested Invoke annotated with fmt.Errorf("...: %w", err).
// RootCause is documented to return "the first non-dig.Error in a chain", but
// it uses errors.As for every hop and therefore skips over non-dig errors.

import (
	"errors"
	"fmt"
	"testing"

	"go.uber.org/dig"
)

type hunt4A struct{}
type hunt4B struct{}

func TestHunt4RootCauseIsNotTheReturnedError(t *testing.T) {
	c := dig.New()
	inner := errors.New("inner failure")
	if err := c.Provide(func() (*hunt4B, error) { return nil, inner }); err != nil {
		t.Fatal(err)
	}
	var returned error
	if err := c.Provide(func() (*hunt4A, error) {
		// Re-entrant use of the container from inside a constructor.
		if err := c.Invoke(func(*hunt4B) {}); err != nil {
			returned = fmt.Errorf("building A: %w", err)
			return nil, returned
		}
		return &hunt4A{}, nil
	}); err != nil {
		t.Fatal(err)
	}

	err := c.Invoke(func(*hunt4A) {})
	if err == nil || returned == nil {
		t.Fatalf("test setup: Invoke must fail (err=%v)", err)
	}
	if rc := dig.RootCause(err); rc != returned {
		t.Errorf("constructor of *hunt4A returned %q,\nbut the root cause of the failed Invoke is %q", returned, rc)
	}
}

// RootCause even yields one of dig's own errors for a failure of user code.
func TestHunt4RootCauseReportsDigErrorForUserError(t *testing.T) {
	c := dig.New()
	type missing struct{}
	if err := c.Provide(func() (*hunt4A, error) {
		err := c.Invoke(func(*missing) {})
		return nil, fmt.Errorf("building A: %w", err)
	}); err != nil {
		t.Fatal(err)
	}
	err := c.Invoke(func(*hunt4A) {})
	if err == nil {
		t.Fatal("test setup: Invoke must fail")
	}
	rc := dig.RootCause(err)
	if _, isDig := rc.(dig.Error); isDig {
		t.Errorf("the error was returned by a provided constructor, yet RootCause yields the dig error %q", rc)
	}
	if want := "building A: "; len(rc.Error()) < len(want) || rc.Error()[:len(want)] != want {
		t.Errorf("root cause %q is not the error the constructor returned", rc)
	}
}
