package dig_test

// Defect 2 (C08): the cycle detector does not resolve a constructor's
// parameters "as seen from the scope it was provided to" (and nearest-wins);
// it draws an edge to EVERY provider of the key that is visible from the
// scope whose graph is being checked. Legal, acyclic registrations are
// therefore rejected with "this function introduces a cycle".

import (
	"testing"

	"go.uber.org/dig"
)

type hunt2A struct{ tag string }
type hunt2B struct{ tag string }

// root:  B0 = newB()        A = newA(B)     (A's B is root's B0: resolved from root)
// child: B1 = newB(A)       (shadows B for the child)
// There is no cycle: child.B1 -> root.A -> root.B0.
func TestHunt2FalseCycleShadowedProvider(t *testing.T) {
	for _, deferred := range []bool{false, true} {
		var opts []dig.Option
		if deferred {
			opts = append(opts, dig.DeferAcyclicVerification())
		}
		c := dig.New(opts...)
		child := c.Scope("child")
		if err := c.Provide(func() *hunt2B { return &hunt2B{"root"} }); err != nil {
			t.Fatal(err)
		}
		if err := c.Provide(func(b *hunt2B) *hunt2A { return &hunt2A{"A(" + b.tag + ")"} }); err != nil {
			t.Fatal(err)
		}
		if err := child.Provide(func(a *hunt2A) *hunt2B { return &hunt2B{"child(" + a.tag + ")"} }); err != nil {
			t.Errorf("deferred=%v: acyclic Provide to the child rejected: %v", deferred, err)
			continue
		}
		var got string
		if err := child.Invoke(func(b *hunt2B) { got = b.tag }); err != nil {
			t.Errorf("deferred=%v: Invoke in child failed: %v", deferred, err)
			continue
		}
		if got != "child(A(root))" {
			t.Errorf("deferred=%v: got %q, want %q", deferred, got, "child(A(root))")
		}
	}
}

// A root "registry" consumes the value group as seen from the root; a plugin
// provided to a child scope depends on that registry. The registry never sees
// the child's plugin, so there is no cycle.
func TestHunt2FalseCycleGroupFeederInChild(t *testing.T) {
	type Registry struct{ n int }
	type Plugin struct{ s string }
	type regIn struct {
		dig.In
		Ps []*Plugin `group:"plugins"`
	}
	type childIn struct {
		dig.In
		Ps []*Plugin `group:"plugins"`
		R  *Registry
	}
	c := dig.New()
	child := c.Scope("child")
	if err := c.Provide(func() *Plugin { return &Plugin{"root"} }, dig.Group("plugins")); err != nil {
		t.Fatal(err)
	}
	if err := c.Provide(func(in regIn) *Registry { return &Registry{len(in.Ps)} }); err != nil {
		t.Fatal(err)
	}
	if err := child.Provide(func(r *Registry) *Plugin { return &Plugin{"child"} }, dig.Group("plugins")); err != nil {
		t.Fatalf("acyclic Provide to the child rejected: %v", err)
	}
	if err := child.Invoke(func(in childIn) {
		if in.R.n != 1 || len(in.Ps) != 2 {
			t.Errorf("registry saw %d plugins (want 1), child sees %d (want 2)", in.R.n, len(in.Ps))
		}
	}); err != nil {
		t.Fatal(err)
	}
}

// s1 provides Y privately and exports X(Y): X's Y is s1's Y (resolved from
// s1, nearest wins). The root's own Y'(X) therefore does not close a cycle.
func TestHunt2FalseCycleExported(t *testing.T) {
	type X struct{ tag string }
	type Y struct{ tag string }
	c := dig.New()
	s1 := c.Scope("s1")
	if err := s1.Provide(func() *Y { return &Y{"s1"} }); err != nil {
		t.Fatal(err)
	}
	if err := c.Provide(func(x *X) *Y { return &Y{"root(" + x.tag + ")"} }); err != nil {
		t.Fatal(err)
	}
	if err := s1.Provide(func(y *Y) *X { return &X{"X(" + y.tag + ")"} }, dig.Export(true)); err != nil {
		t.Fatalf("acyclic exported Provide rejected: %v", err)
	}
	var got string
	if err := c.Invoke(func(y *Y) { got = y.tag }); err != nil {
		t.Fatal(err)
	}
	if got != "root(X(s1))" {
		t.Errorf("got %q, want %q", got, "root(X(s1))")
	}
}
