package dig_test

// Defect 4 (C09): dig.As combined with a result object (dig.Out) is neither
// rejected (as dig.Name and dig.Group are, and as the documentation of As
// says) nor applied consistently: plain fields are re-keyed to the interface,
// group fields keep their concrete type.

import (
	"bytes"
	"io"
	"testing"

	"go.uber.org/dig"
)

func TestHunt4AsWithResultObjectGroupField(t *testing.T) {
	type out struct {
		dig.Out
		B *bytes.Buffer
		G *bytes.Buffer `group:"g"`
	}
	c := dig.New()
	err := c.Provide(
		func() out { return out{B: &bytes.Buffer{}, G: &bytes.Buffer{}} },
		dig.As(new(io.Reader)),
	)
	if err != nil {
		// Rejecting the combination is what the documentation promises.
		return
	}
	// If it is accepted, "with As a value is available only under the listed
	// interfaces and not under its concrete type" must hold for every value.
	type in struct {
		dig.In
		GB []*bytes.Buffer `group:"g"`
		GR []io.Reader     `group:"g"`
	}
	if err := c.Invoke(func(*bytes.Buffer) {}); err == nil {
		t.Errorf("plain field available under its concrete type despite dig.As")
	}
	if err := c.Invoke(func(i in) {
		if len(i.GB) != 0 || len(i.GR) != 1 {
			t.Errorf("group field: %d member(s) under concrete *bytes.Buffer (want 0), %d under io.Reader (want 1)", len(i.GB), len(i.GR))
		}
	}); err != nil {
		t.Fatal(err)
	}
}
