package dig_test

// Defect 5 (root cause shared with defect 2; C08 clause "a constructor's own
// dependencies are always resolved as seen from the scope it was provided
// to"): a REAL cycle that runs through two exported constructors whose
// dependencies are private to two sibling scopes is invisible in every
// scope's graph. Nothing is rejected, and Invoke recurses until the process
// dies with "fatal error: stack overflow" (not recoverable, also with
// RecoverFromPanics).
//
// The scenario runs in a child process so that the crash can be observed.

import (
	"fmt"
	"os"
	"os/exec"
	"runtime/debug"
	"strings"
	"testing"

	"go.uber.org/dig"
)

func TestHunt5UndetectedCycleThroughTwoExportingScopes(t *testing.T) {
	if os.Getenv("DIG_HUNT5_CHILD") == "1" {
		debug.SetMaxStack(32 << 20)
		type X struct{}
		type Y struct{}
		type D1 struct{}
		type D3 struct{}
		c := dig.New()
		s1 := c.Scope("s1")
		s3 := c.Scope("s3")
		// X (exported from s1) -> D1 (private to s1) -> Y (exported from s3)
		//   -> D3 (private to s3) -> X
		errs := []error{
			s1.Provide(func(*Y) *D1 { return &D1{} }),
			s3.Provide(func(*X) *D3 { return &D3{} }),
			s1.Provide(func(*D1) *X { return &X{} }, dig.Export(true)),
			s3.Provide(func(*D3) *Y { return &Y{} }, dig.Export(true)),
		}
		for _, err := range errs {
			if err != nil {
				fmt.Println("HUNT5-CYCLE-REPORTED by Provide:", err)
				return
			}
		}
		if err := c.Invoke(func(*X) {}); err != nil {
			fmt.Println("HUNT5-CYCLE-REPORTED by Invoke:", err)
			return
		}
		fmt.Println("HUNT5-NO-ERROR")
		return
	}

	cmd := exec.Command(os.Args[0], "-test.run=^TestHunt5UndetectedCycleThroughTwoExportingScopes$", "-test.count=1")
	cmd.Env = append(os.Environ(), "DIG_HUNT5_CHILD=1")
	out, err := cmd.CombinedOutput()
	s := string(out)
	if strings.Contains(s, "stack overflow") || strings.Contains(s, "stack exceeds") {
		t.Fatalf("the cycle was not detected; Invoke crashed the process with a stack overflow (exit: %v)", err)
	}
	if !strings.Contains(s, "HUNT5-CYCLE-REPORTED") {
		if len(s) > 2000 {
			s = s[:2000]
		}
		t.Fatalf("the cycle was not reported by Provide or Invoke (exit: %v):\n%s", err, s)
	}
}
