package dig_test

// Defect 1 (C09): dig.As silently drops the constructor's own result type
// when it is listed together with another interface.

import (
	"bytes"
	"io"
	"testing"

	"go.uber.org/dig"
)

// The constructor returns io.ReadWriter and lists io.ReadWriter AND io.Reader
// in dig.As. Both listed interfaces must be available (sharing one instance).
func TestHunt1AsListingOwnTypeSingle(t *testing.T) {
	c := dig.New()
	buf := &bytes.Buffer{}
	err := c.Provide(
		func() io.ReadWriter { return buf },
		dig.As(new(io.ReadWriter), new(io.Reader)),
	)
	if err != nil {
		t.Fatalf("Provide: %v", err)
	}

	var r io.Reader
	var rw io.ReadWriter
	if err := c.Invoke(func(x io.Reader) { r = x }); err != nil {
		t.Errorf("io.Reader listed in dig.As is not available: %v", err)
	}
	if err := c.Invoke(func(x io.ReadWriter) { rw = x }); err != nil {
		t.Errorf("io.ReadWriter listed in dig.As is not available: %v", err)
	}
	if r != nil && rw != nil && (r != io.Reader(buf) || rw != io.ReadWriter(buf)) {
		t.Errorf("the As interfaces do not share one instance")
	}
}

// Same with the order of the As arguments swapped and a name.
func TestHunt1AsListingOwnTypeNamed(t *testing.T) {
	c := dig.New()
	buf := &bytes.Buffer{}
	err := c.Provide(
		func() io.ReadWriter { return buf },
		dig.As(new(io.Reader), new(io.ReadWriter)),
		dig.Name("x"),
	)
	if err != nil {
		t.Fatalf("Provide: %v", err)
	}
	type in struct {
		dig.In
		R  io.Reader     `name:"x" optional:"true"`
		RW io.ReadWriter `name:"x" optional:"true"`
	}
	if err := c.Invoke(func(i in) {
		if i.R == nil {
			t.Errorf("io.Reader[name=x] listed in dig.As is not available")
		}
		if i.RW == nil {
			t.Errorf("io.ReadWriter[name=x] listed in dig.As is not available")
		}
	}); err != nil {
		t.Fatal(err)
	}
}

// Same for value groups: the value must be a member of both groups.
func TestHunt1AsListingOwnTypeGroup(t *testing.T) {
	c := dig.New()
	buf := &bytes.Buffer{}
	err := c.Provide(
		func() io.ReadWriter { return buf },
		dig.Group("g"),
		dig.As(new(io.ReadWriter), new(io.Reader)),
	)
	if err != nil {
		t.Fatalf("Provide: %v", err)
	}
	type in struct {
		dig.In
		RW []io.ReadWriter `group:"g"`
		R  []io.Reader     `group:"g"`
	}
	if err := c.Invoke(func(i in) {
		if len(i.R) != 1 {
			t.Errorf("group g of io.Reader has %d members, want 1", len(i.R))
		}
		if len(i.RW) != 1 {
			t.Errorf("group g of io.ReadWriter has %d members, want 1", len(i.RW))
		}
	}); err != nil {
		t.Fatal(err)
	}
}
