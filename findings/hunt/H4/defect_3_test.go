package dig_test

// Defect 3 (C08, "nearest wins"): a decorator registered in an ANCESTOR scope
// takes precedence over a nearer provider of the same key, so the scope that
// provides the key itself (and its descendants) get the ancestor's value and
// the nearest constructor is never run.

import (
	"testing"

	"go.uber.org/dig"
)

type hunt3T struct{ tag string }

func TestHunt3AncestorDecoratorOverridesNearestProvider(t *testing.T) {
	c := dig.New()
	child := c.Scope("child")
	if err := c.Provide(func() *hunt3T { return &hunt3T{"root"} }); err != nil {
		t.Fatal(err)
	}
	if err := c.Decorate(func(v *hunt3T) *hunt3T { return &hunt3T{"dec(" + v.tag + ")"} }); err != nil {
		t.Fatal(err)
	}
	childRan := false
	if err := child.Provide(func() *hunt3T { childRan = true; return &hunt3T{"child"} }); err != nil {
		t.Fatal(err)
	}

	var got string
	if err := child.Invoke(func(v *hunt3T) { got = v.tag }); err != nil {
		t.Fatal(err)
	}
	// The nearest provider of *hunt3T for the child is the child's own.
	// (Whether or not the root decorator is applied on top of it, the value
	// must originate from the child's constructor.)
	if !childRan || (got != "child" && got != "dec(child)") {
		t.Errorf("child scope got %q (child's constructor ran: %v); want the value of its own, nearest, provider", got, childRan)
	}

	// The root is unaffected.
	if err := c.Invoke(func(v *hunt3T) { got = v.tag }); err != nil {
		t.Fatal(err)
	}
	if got != "dec(root)" {
		t.Errorf("root got %q, want dec(root)", got)
	}
}

// Same with three levels, a name, and the decorated value already cached in
// the middle scope before the leaf registers its own provider.
func TestHunt3CachedDecoratedValueOverridesNearestProvider(t *testing.T) {
	type in struct {
		dig.In
		V *hunt3T `name:"n"`
	}
	type out struct {
		dig.Out
		V *hunt3T `name:"n"`
	}
	c := dig.New()
	mid := c.Scope("mid")
	leaf := mid.Scope("leaf")
	if err := c.Provide(func() *hunt3T { return &hunt3T{"root"} }, dig.Name("n")); err != nil {
		t.Fatal(err)
	}
	if err := mid.Decorate(func(i in) out { return out{V: &hunt3T{"dec(" + i.V.tag + ")"}} }); err != nil {
		t.Fatal(err)
	}
	var got string
	if err := leaf.Invoke(func(i in) { got = i.V.tag }); err != nil {
		t.Fatal(err)
	}
	if got != "dec(root)" {
		t.Fatalf("leaf got %q, want dec(root)", got)
	}
	if err := leaf.Provide(func() *hunt3T { return &hunt3T{"leaf"} }, dig.Name("n")); err != nil {
		t.Fatal(err)
	}
	if err := leaf.Invoke(func(i in) { got = i.V.tag }); err != nil {
		t.Fatal(err)
	}
	if got != "leaf" && got != "dec(leaf)" {
		t.Errorf("leaf got %q; want the value of its own, nearest, provider", got)
	}
}
