package dig_test

// Defect 3 (C03): after a value-group decorator has run, a feeder provided
// afterwards to the same group is accepted by Provide but never executed by
// any later Invoke that consumes the group - the cached decorated slice is
// returned without looking at the group's providers. Without a decorator the
// same history runs the late feeder and delivers its value.

import (
	"testing"

	"go.uber.org/dig"
)

type hunt3In struct {
	dig.In
	V []int `group:"g"`
}

type hunt3Out struct {
	dig.Out
	V []int `group:"g"`
}

func TestHunt3FeederProvidedAfterGroupWasDecorated(t *testing.T) {
	for _, decorate := range []bool{false, true} {
		c := dig.New()
		if err := c.Provide(func() int { return 1 }, dig.Group("g")); err != nil {
			t.Fatal(err)
		}
		if decorate {
			if err := c.Decorate(func(i hunt3In) hunt3Out {
				return hunt3Out{V: append([]int{100}, i.V...)}
			}); err != nil {
				t.Fatal(err)
			}
		}
		if err := c.Invoke(func(hunt3In) {}); err != nil {
			t.Fatal(err)
		}

		lateRuns := 0
		if err := c.Provide(func() int { lateRuns++; return 2 }, dig.Group("g")); err != nil {
			if decorate {
				// Refusing a feeder that can no longer be honoured would
				// be a legitimate way to keep the property.
				t.Logf("late Provide rejected: %v", err)
				continue
			}
			t.Fatalf("late Provide rejected: %v", err)
		}
		err := c.Invoke(func(i hunt3In) {
			if lateRuns != 1 {
				t.Errorf("decorate=%v: Invoke succeeded but the not-yet-built feeder of the consumed group ran %d times, want 1 (group %v)",
					decorate, lateRuns, i.V)
			}
		})
		if err != nil {
			// Refusing (either this Invoke or the late Provide) would
			// also honour the property.
			t.Logf("decorate=%v: Invoke failed: %v", decorate, err)
		}
	}
}
