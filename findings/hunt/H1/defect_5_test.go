package dig_test

// Defect 5 (C02): a constructor is entered again while it is already being
// built when it (directly or through something it calls) asks the container
// for its own result. Nothing marks a constructorNode as "on the stack", so
// the nested Invoke re-runs the constructor; both runs return successfully,
// the constructor has then run twice and two different instances of the
// same key have been handed out.

import (
	"testing"

	"go.uber.org/dig"
)

type hunt5Svc struct{ id int }
type hunt5Dep struct{ svc *hunt5Svc }

func TestHunt5ConstructorReenteredWhileBeingBuilt(t *testing.T) {
	c := dig.New()

	runs, depth, maxDepth := 0, 0, 0
	var inner *hunt5Svc
	var innerErr error
	if err := c.Provide(func() *hunt5Svc {
		runs++
		id := runs
		depth++
		if depth > maxDepth {
			maxDepth = depth
		}
		defer func() { depth-- }()
		if depth == 1 { // guard: otherwise this is an unbounded recursion
			innerErr = c.Invoke(func(s *hunt5Svc) { inner = s })
		}
		return &hunt5Svc{id: id}
	}); err != nil {
		t.Fatal(err)
	}

	var outer *hunt5Svc
	if err := c.Invoke(func(s *hunt5Svc) { outer = s }); err != nil {
		// Failing would be acceptable; running the constructor twice is not.
		t.Logf("outer Invoke failed: %v", err)
	}
	t.Logf("nested Invoke error: %v", innerErr)

	if maxDepth > 1 {
		t.Errorf("constructor was entered while it was already being built (depth %d)", maxDepth)
	}
	if runs != 1 {
		t.Errorf("constructor returned successfully %d times, want 1", runs)
	}
	if inner != nil && outer != nil && inner != outer {
		t.Errorf("two different instances of *hunt5Svc were handed out: %+v and %+v", inner, outer)
	}
}

// Indirect variant: the constructor of *hunt5Svc asks for *hunt5Dep whose
// constructor depends on *hunt5Svc.
func TestHunt5ConstructorReenteredIndirectly(t *testing.T) {
	c := dig.New()
	runs, depth, maxDepth := 0, 0, 0
	if err := c.Provide(func(s *hunt5Svc) *hunt5Dep { return &hunt5Dep{svc: s} }); err != nil {
		t.Fatal(err)
	}
	var seenByDep *hunt5Svc
	if err := c.Provide(func() *hunt5Svc {
		runs++
		id := runs
		depth++
		if depth > maxDepth {
			maxDepth = depth
		}
		defer func() { depth-- }()
		if depth == 1 {
			_ = c.Invoke(func(d *hunt5Dep) { seenByDep = d.svc })
		}
		return &hunt5Svc{id: id}
	}); err != nil {
		t.Fatal(err)
	}
	var outer *hunt5Svc
	_ = c.Invoke(func(s *hunt5Svc) { outer = s })
	if maxDepth > 1 || runs != 1 {
		t.Errorf("constructor of *hunt5Svc ran %d times, nesting depth %d; want 1 and 1", runs, maxDepth)
	}
	if seenByDep != nil && outer != nil && seenByDep != outer {
		t.Errorf("*hunt5Dep holds %+v but Invoke received %+v", seenByDep, outer)
	}
}
