package dig_test

// Defect 1 (C01): the output of a value-group decorator is filed under the
// decorator's *slice type*; a consumer that spells the same group with a
// different (named) slice type of the same element type never sees it and is
// handed the undecorated values, although the decorator ran.

import (
	"sort"
	"testing"

	"go.uber.org/dig"
)

type hunt1Ints []int

type hunt1PlainIn struct {
	dig.In
	V []int `group:"g"`
}

type hunt1NamedIn struct {
	dig.In
	V hunt1Ints `group:"g"`
}

type hunt1PlainOut struct {
	dig.Out
	V []int `group:"g"`
}

type hunt1NamedOut struct {
	dig.Out
	V hunt1Ints `group:"g"`
}

func hunt1Sorted(v []int) []int {
	w := append([]int(nil), v...)
	sort.Ints(w)
	return w
}

func hunt1Equal(a, b []int) bool {
	if len(a) != len(b) {
		return false
	}
	for i := range a {
		if a[i] != b[i] {
			return false
		}
	}
	return true
}

// Decorator returns []int, consumer asks for the group as a named slice type.
func TestHunt1NamedSliceConsumerOfDecoratedGroup(t *testing.T) {
	c := dig.New()
	if err := c.Provide(func() int { return 1 }, dig.Group("g")); err != nil {
		t.Fatal(err)
	}
	if err := c.Provide(func() int { return 2 }, dig.Group("g")); err != nil {
		t.Fatal(err)
	}
	decoratorRuns := 0
	if err := c.Decorate(func(i hunt1PlainIn) hunt1PlainOut {
		decoratorRuns++
		return hunt1PlainOut{V: []int{100, 200, 300}}
	}); err != nil {
		t.Fatal(err)
	}

	invoked := 0
	err := c.Invoke(func(plain hunt1PlainIn, named hunt1NamedIn) {
		invoked++
		want := []int{100, 200, 300}
		if got := hunt1Sorted(plain.V); !hunt1Equal(got, want) {
			t.Errorf("[]int consumer: got %v, want the decorator's output %v", got, want)
		}
		if got := hunt1Sorted(named.V); !hunt1Equal(got, want) {
			t.Errorf("named-slice consumer of the same group: got %v, want the decorator's output %v (decorator ran %d time(s))",
				got, want, decoratorRuns)
		}
	})
	if err != nil {
		t.Fatal(err)
	}
	if invoked != 1 {
		t.Fatalf("invoked %d times", invoked)
	}
}

// Decorator returns the named slice type, consumer asks for []int.
func TestHunt1PlainSliceConsumerOfGroupDecoratedAsNamedSlice(t *testing.T) {
	c := dig.New()
	if err := c.Provide(func() int { return 1 }, dig.Group("g")); err != nil {
		t.Fatal(err)
	}
	decoratorRuns := 0
	if err := c.Decorate(func(i hunt1NamedIn) hunt1NamedOut {
		decoratorRuns++
		return hunt1NamedOut{V: hunt1Ints{100}}
	}); err != nil {
		t.Fatal(err)
	}
	err := c.Invoke(func(plain hunt1PlainIn) {
		if got, want := hunt1Sorted(plain.V), []int{100}; !hunt1Equal(got, want) {
			t.Errorf("[]int consumer: got %v, want the decorator's output %v (decorator ran %d time(s))",
				got, want, decoratorRuns)
		}
	})
	if err != nil {
		t.Fatal(err)
	}
}
