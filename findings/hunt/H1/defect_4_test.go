package dig_test

// Defect 4 (C01, C03): an optional dependency whose constructor exists, has
// all of its dependencies, RUNS and returns a non-nil error is silently
// replaced by a zero value - and Invoke succeeds - when the returned error
// happens to wrap a dig "missing dependencies" error (for instance because
// the constructor used another container, or the same one, internally).
// paramSingle.Build uses errors.As over the whole chain, including the part
// that came out of user code.

import (
	"errors"
	"fmt"
	"testing"

	"go.uber.org/dig"
)

type hunt4Conn struct{}
type hunt4Cfg struct{}

type hunt4Params struct {
	dig.In
	Conn *hunt4Conn `optional:"true"`
}

func TestHunt4OptionalSwallowsConstructorFailure(t *testing.T) {
	plugins := dig.New() // unrelated container, knows nothing

	c := dig.New()
	runs := 0
	if err := c.Provide(func() (*hunt4Conn, error) {
		runs++
		if err := plugins.Invoke(func(*hunt4Cfg) {}); err != nil {
			return nil, fmt.Errorf("loading plugins: %w", err)
		}
		return &hunt4Conn{}, nil
	}); err != nil {
		t.Fatal(err)
	}

	// Control: a constructor failing with any other error fails the Invoke.
	{
		c2 := dig.New()
		_ = c2.Provide(func() (*hunt4Conn, error) { return nil, errors.New("boom") })
		if err := c2.Invoke(func(hunt4Params) {}); err == nil {
			t.Fatal("control: expected the constructor's error")
		}
	}

	invoked := false
	err := c.Invoke(func(p hunt4Params) {
		invoked = true
		t.Errorf("Invoke ran the function with Conn=%v although the constructor of *hunt4Conn was run (%d time(s)) and FAILED",
			p.Conn, runs)
	})
	if err == nil {
		t.Errorf("Invoke returned nil although the constructor of an optional-but-available dependency returned an error (invoked=%v)", invoked)
	}
}

// Same thing with a nested Invoke on the very same container.
func TestHunt4OptionalSwallowsConstructorFailureSameContainer(t *testing.T) {
	c := dig.New()
	if err := c.Provide(func() (*hunt4Conn, error) {
		if err := c.Invoke(func(*hunt4Cfg) {}); err != nil {
			return nil, err
		}
		return &hunt4Conn{}, nil
	}); err != nil {
		t.Fatal(err)
	}
	err := c.Invoke(func(p hunt4Params) {
		t.Errorf("function invoked with Conn=%v although its constructor failed", p.Conn)
	})
	if err == nil {
		t.Errorf("Invoke returned nil although the constructor of *hunt4Conn returned an error")
	}
}

// Same thing one level down, with a decorator: the error returned by the
// decorator of a dependency of the optional value's constructor is swallowed.
type hunt4Base struct{}

func TestHunt4OptionalSwallowsDecoratorFailure(t *testing.T) {
	plugins := dig.New()
	c := dig.New()
	if err := c.Provide(func() *hunt4Base { return &hunt4Base{} }); err != nil {
		t.Fatal(err)
	}
	if err := c.Provide(func(*hunt4Base) *hunt4Conn { return &hunt4Conn{} }); err != nil {
		t.Fatal(err)
	}
	decoratorRuns := 0
	if err := c.Decorate(func(b *hunt4Base) (*hunt4Base, error) {
		decoratorRuns++
		return nil, plugins.Invoke(func(*hunt4Cfg) {})
	}); err != nil {
		t.Fatal(err)
	}
	err := c.Invoke(func(p hunt4Params) {
		t.Errorf("function invoked with Conn=%v although the decorator of its constructor's dependency ran %d time(s) and failed",
			p.Conn, decoratorRuns)
	})
	if err == nil {
		t.Errorf("Invoke returned nil although a decorator in the closure returned an error")
	}
}
