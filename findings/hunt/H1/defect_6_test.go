package dig_test

// Defect 6 (C01): when a decorator of A depends (directly or transitively) on
// a constructor that itself consumes A, that constructor is silently called
// with the UNDECORATED A (the decorator is "on the stack" and is skipped),
// Invoke succeeds, and from then on the graph holds an object built from the
// raw value while every other consumer sees the decorated one. Decorators are
// not part of the cycle check, so the dependency loop is never reported.

import (
	"testing"

	"go.uber.org/dig"
)

type hunt6Logger struct{ name string }
type hunt6Server struct{ log *hunt6Logger }

func TestHunt6ConstructorReceivesUndecoratedValue(t *testing.T) {
	c := dig.New()
	if err := c.Provide(func() *hunt6Logger { return &hunt6Logger{name: "raw"} }); err != nil {
		t.Fatal(err)
	}
	var serverGot *hunt6Logger
	serverRuns := 0
	if err := c.Provide(func(l *hunt6Logger) *hunt6Server {
		serverRuns++
		serverGot = l
		return &hunt6Server{log: l}
	}); err != nil {
		t.Fatal(err)
	}
	if err := c.Decorate(func(l *hunt6Logger, s *hunt6Server) *hunt6Logger {
		return &hunt6Logger{name: "decorated"}
	}); err != nil {
		// Rejecting the decorator (it closes a loop) would honour C01.
		t.Skipf("decorator rejected: %v", err)
	}

	err := c.Invoke(func(l *hunt6Logger, s *hunt6Server) {
		if l.name != "decorated" {
			t.Errorf("Invoke received logger %q, want the decorator's output", l.name)
		}
		if serverRuns != 1 {
			t.Errorf("server constructor ran %d times", serverRuns)
		}
		// C01: every constructor that ran was called with the decorated value.
		if serverGot != l {
			t.Errorf("the constructor of *hunt6Server was called with logger %q although the scope decorates *hunt6Logger (Invoke itself received %q)",
				serverGot.name, l.name)
		}
	})
	if err != nil {
		// Reporting the loop instead would honour C01 as well.
		t.Logf("Invoke failed: %v", err)
	}
}

// Two decorators that depend on each other's key: one of them necessarily
// receives the undecorated value of the other, which one depends on the order
// of the Invoke parameters.
func TestHunt6MutuallyDependentDecorators(t *testing.T) {
	type A struct{ v string }
	type B struct{ v string }
	c := dig.New()
	_ = c.Provide(func() *A { return &A{"rawA"} })
	_ = c.Provide(func() *B { return &B{"rawB"} })
	var d1GotB, d2GotA string
	err1 := c.Decorate(func(a *A, b *B) *A { d1GotB = b.v; return &A{"decA"} })
	err2 := c.Decorate(func(a *A, b *B) *B { d2GotA = a.v; return &B{"decB"} })
	if err1 != nil || err2 != nil {
		t.Skipf("decorators rejected: %v %v", err1, err2)
	}
	err := c.Invoke(func(a *A, b *B) {
		if d1GotB != b.v {
			t.Errorf("decorator of *A was called with B=%q, Invoke sees B=%q", d1GotB, b.v)
		}
		if d2GotA != a.v {
			t.Errorf("decorator of *B was called with A=%q, Invoke sees A=%q", d2GotA, a.v)
		}
	})
	if err != nil {
		t.Logf("Invoke failed: %v", err)
	}
}
