package dig_test

// Defect 2 (C03, C01): once an ancestor scope has a decorator for a value
// group, the feeders of that group registered in a descendant scope are
// never executed and never reach any consumer of that descendant scope: the
// ancestor's decorated slice short-circuits paramGroupedSlice.Build.

import (
	"testing"

	"go.uber.org/dig"
)

type hunt2In struct {
	dig.In
	V []string `group:"g"`
}

type hunt2Out struct {
	dig.Out
	V []string `group:"g"`
}

func hunt2Contains(vs []string, s string) bool {
	for _, v := range vs {
		if v == s {
			return true
		}
	}
	return false
}

func TestHunt2ChildFeederOfParentDecoratedGroup(t *testing.T) {
	c := dig.New()
	if err := c.Provide(func() string { return "root" }, dig.Group("g")); err != nil {
		t.Fatal(err)
	}
	if err := c.Decorate(func(i hunt2In) hunt2Out {
		out := hunt2Out{}
		for _, v := range i.V {
			out.V = append(out.V, "decorated "+v)
		}
		return out
	}); err != nil {
		t.Fatal(err)
	}

	child := c.Scope("child")
	childFeederRuns := 0
	if err := child.Provide(func() string { childFeederRuns++; return "child" }, dig.Group("g")); err != nil {
		t.Fatal(err)
	}

	// Control: without the decorator the very same registration is honoured.
	{
		c2 := dig.New()
		_ = c2.Provide(func() string { return "root" }, dig.Group("g"))
		child2 := c2.Scope("child")
		runs := 0
		_ = child2.Provide(func() string { runs++; return "child" }, dig.Group("g"))
		if err := child2.Invoke(func(i hunt2In) {
			if len(i.V) != 2 || runs != 1 {
				t.Fatalf("control: got %v, runs=%d", i.V, runs)
			}
		}); err != nil {
			t.Fatal(err)
		}
	}

	invoked := 0
	err := child.Invoke(func(i hunt2In) {
		invoked++
		// C03: the feeder is reachable from this function through a
		// non-soft value group, and it has not been built yet.
		if childFeederRuns != 1 {
			t.Errorf("Invoke on the child scope succeeded but the child scope's feeder of group g ran %d times, want 1 (got group %q)",
				childFeederRuns, i.V)
		}
		// C01: the value registered for the group in the nearest scope is missing.
		if !hunt2Contains(i.V, "child") && !hunt2Contains(i.V, "decorated child") {
			t.Errorf("group %q lacks the value fed by the child scope", i.V)
		}
	})
	if err != nil {
		t.Fatal(err)
	}
	if invoked != 1 {
		t.Fatalf("invoked %d times", invoked)
	}
}
