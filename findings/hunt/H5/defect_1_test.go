package dig_test

// Defect 1 (C12): a decorated value group is stored under the decorator's
// *slice type* but looked up under the consumer's *slice type*, while the
// decorator itself is registered (and found) under the element type. When the
// two slice types differ only by name (e.g. `type Strs []string` vs
// `[]string`), the decorator runs, is marked as called, and the consumer
// nevertheless receives the undecorated group.

import (
	"sort"
	"strings"
	"testing"

	"go.uber.org/dig"
)

type hunt1Strs []string

type hunt1PlainIn struct {
	dig.In
	Vs []string `group:"g"`
}

type hunt1PlainOut struct {
	dig.Out
	Vs []string `group:"g"`
}

type hunt1NamedIn struct {
	dig.In
	Vs hunt1Strs `group:"g"`
}

type hunt1NamedOut struct {
	dig.Out
	Vs hunt1Strs `group:"g"`
}

func hunt1Join(v []string) string {
	v = append([]string(nil), v...)
	sort.Strings(v)
	return strings.Join(v, ",")
}

func hunt1Container(t *testing.T) *dig.Container {
	c := dig.New()
	for _, s := range []string{"a", "b"} {
		s := s
		if err := c.Provide(func() string { return s }, dig.Group("g")); err != nil {
			t.Fatal(err)
		}
	}
	return c
}

// Control: consuming an (undecorated) group through a named slice type is legal
// and works, so the inputs below are legal.
func TestHunt1Control_NamedSliceConsumerUndecorated(t *testing.T) {
	c := hunt1Container(t)
	if err := c.Invoke(func(i hunt1NamedIn) {
		if got := hunt1Join(i.Vs); got != "a,b" {
			t.Errorf("got %q", got)
		}
	}); err != nil {
		t.Fatal(err)
	}
}

// The decorator returns the group as []string, the consumer asks for it as a
// named slice type.
func TestHunt1_NamedSliceConsumerSeesUndecoratedGroup(t *testing.T) {
	c := hunt1Container(t)
	runs := 0
	if err := c.Decorate(func(i hunt1PlainIn) hunt1PlainOut {
		runs++
		return hunt1PlainOut{Vs: []string{"decorated"}}
	}); err != nil {
		t.Fatal(err)
	}
	// The key is considered decorated: a second decorator, even one using the
	// named slice type, is rejected.
	if err := c.Decorate(func(i hunt1NamedIn) hunt1NamedOut { return hunt1NamedOut{} }); err == nil {
		t.Fatal("a second decorator for the same group was accepted")
	}

	var got string
	if err := c.Invoke(func(i hunt1NamedIn) { got = hunt1Join(i.Vs) }); err != nil {
		t.Fatal(err)
	}
	if runs != 1 {
		t.Errorf("decorator ran %d times, want 1", runs)
	}
	if got != "decorated" {
		t.Errorf("consumer below the decorator received %q, want the decorator's output %q", got, "decorated")
	}
}

// The decorator returns the group as a named slice type, the consumer asks for
// []string.
func TestHunt1_NamedSliceDecoratorOutputIgnored(t *testing.T) {
	c := hunt1Container(t)
	runs := 0
	if err := c.Decorate(func(i hunt1PlainIn) hunt1NamedOut {
		runs++
		return hunt1NamedOut{Vs: hunt1Strs{"decorated"}}
	}); err != nil {
		t.Fatal(err)
	}
	child := c.Scope("child")
	var got string
	if err := child.Invoke(func(i hunt1PlainIn) { got = hunt1Join(i.Vs) }); err != nil {
		t.Fatal(err)
	}
	if runs != 1 {
		t.Errorf("decorator ran %d times, want 1", runs)
	}
	if got != "decorated" {
		t.Errorf("consumer below the decorator received %q, want the decorator's output %q", got, "decorated")
	}
}

// A decorator in a child scope must receive the outer decorator's output; with
// a named slice type as its input it receives the provided values instead.
func TestHunt1_InnerDecoratorReceivesUndecoratedGroup(t *testing.T) {
	c := hunt1Container(t)
	if err := c.Decorate(func(i hunt1PlainIn) hunt1PlainOut {
		return hunt1PlainOut{Vs: []string{"outer"}}
	}); err != nil {
		t.Fatal(err)
	}
	child := c.Scope("child")
	var inner string
	if err := child.Decorate(func(i hunt1NamedIn) hunt1NamedOut {
		inner = hunt1Join(i.Vs)
		return hunt1NamedOut{Vs: append(i.Vs, "inner")}
	}); err != nil {
		t.Fatal(err)
	}
	var got string
	if err := child.Invoke(func(i hunt1NamedIn) { got = hunt1Join(i.Vs) }); err != nil {
		t.Fatal(err)
	}
	if inner != "outer" {
		t.Errorf("inner decorator received %q, want the outer decorator's output %q", inner, "outer")
	}
	if got != "inner,outer" {
		t.Errorf("consumer received %q, want %q", got, "inner,outer")
	}
}
