package dig_test

// Defect 2 (C12): the "is anything missing?" pre-check
// (findMissingDependencies in invoke.go) accepts a key that has no provider
// but already has a decorated value -- but it looks for that decorated value
// only in the scope the function is resolved in, not in its ancestors, unlike
// the code that actually builds the parameter (paramSingle.Build walks
// storesToRoot). So the decorating scope itself hands out the decorator's
// value while its descendants are refused with "missing type".

import (
	"testing"

	"go.uber.org/dig"
)

type hunt2A struct{ S string }

func TestHunt2_DescendantOfDecoratingScopeIsRefused(t *testing.T) {
	c := dig.New()
	child1 := c.Scope("child1")
	child2 := c.Scope("child2")

	runs := 0
	if err := c.Decorate(func() *hunt2A { runs++; return &hunt2A{"decorated"} }); err != nil {
		t.Fatal(err)
	}
	// The type is provided in child1 only.
	if err := child1.Provide(func() *hunt2A { return &hunt2A{"provided"} }); err != nil {
		t.Fatal(err)
	}

	check := func(name string, s interface {
		Invoke(interface{}, ...dig.InvokeOption) error
	}) {
		t.Helper()
		var got string
		if err := s.Invoke(func(a *hunt2A) { got = a.S }); err != nil {
			t.Errorf("%s: a function below the decorator could not resolve the decorated key: %v", name, err)
			return
		}
		if got != "decorated" {
			t.Errorf("%s: got %q, want %q", name, got, "decorated")
		}
	}

	check("child1", child1) // runs the root decorator
	check("root", c)        // ok: root holds the decorated value
	check("child2", child2) // FAILS: missing type *hunt2A
	check("grandchild of child2", child2.Scope("gc"))
	if runs != 1 {
		t.Errorf("decorator ran %d times, want 1", runs)
	}
}

// Same scope, same key: an optional parameter receives the decorator's value
// while a required one is refused.
func TestHunt2_OptionalAndRequiredDisagree(t *testing.T) {
	c := dig.New()
	child := c.Scope("child")
	if err := c.Decorate(func() *hunt2A { return &hunt2A{"decorated"} }); err != nil {
		t.Fatal(err)
	}
	type optIn struct {
		dig.In
		A *hunt2A `optional:"true"`
	}
	var opt *hunt2A
	if err := child.Invoke(func(i optIn) { opt = i.A }); err != nil {
		t.Fatal(err)
	}
	if opt == nil || opt.S != "decorated" {
		t.Fatalf("optional consumer got %v", opt)
	}
	// The decorator has run; root now resolves the key ...
	if err := c.Invoke(func(a *hunt2A) {}); err != nil {
		t.Errorf("root: %v", err)
	}
	// ... and the child, which just received it as an optional value, does not.
	var got string
	if err := child.Invoke(func(a *hunt2A) { got = a.S }); err != nil {
		t.Errorf("child: a function below the decorator could not resolve the decorated key: %v", err)
	} else if got != "decorated" {
		t.Errorf("child got %q", got)
	}
}

// The same pre-check guards decorators (decoratorNode.Call) and constructors
// (constructorNode.Call): a child decorator must receive the outer decorator's
// output, but is refused.
func TestHunt2_InnerDecoratorIsRefused(t *testing.T) {
	c := dig.New()
	child := c.Scope("child")
	if err := c.Decorate(func() *hunt2A { return &hunt2A{"outer"} }); err != nil {
		t.Fatal(err)
	}
	if err := child.Decorate(func(a *hunt2A) *hunt2A { return &hunt2A{a.S + "+inner"} }); err != nil {
		t.Fatal(err)
	}
	type optIn struct {
		dig.In
		A *hunt2A `optional:"true"`
	}
	// make the root decorator run
	if err := c.Invoke(func(i optIn) {}); err != nil {
		t.Fatal(err)
	}
	var got *hunt2A
	if err := child.Invoke(func(i optIn) { got = i.A }); err != nil {
		t.Fatalf("inner decorator could not obtain the outer decorator's output: %v", err)
	}
	if got == nil || got.S != "outer+inner" {
		t.Errorf("got %v, want outer+inner", got)
	}
}
