package dig_test

// BORDERLINE observation (C12), not counted as a confirmed defect:
// value-group decorators are run eagerly for every enclosing scope, root
// first (paramGroupedSlice.callGroupDecorators), whereas single-value
// decorators are run lazily, nearest first (paramSingle.buildWithDecorators).
// A failing outer group decorator therefore prevents a consumer from receiving
// the output of its nearest decorator even when that decorator does not
// consume the group at all. The single-value twin of the scenario succeeds.

import (
	"errors"
	"testing"

	"go.uber.org/dig"
)

type huntB1A struct{ S string }

type huntB1In struct {
	dig.In
	Vs []string `group:"g"`
}

type huntB1Out struct {
	dig.Out
	Vs []string `group:"g"`
}

func TestHuntB1_SingleValueTwinWorks(t *testing.T) {
	c := dig.New()
	child := c.Scope("child")
	c.Provide(func() *huntB1A { return &huntB1A{"o"} })
	c.Decorate(func(a *huntB1A) (*huntB1A, error) { return nil, errors.New("outer decorator fails") })
	child.Decorate(func() *huntB1A { return &huntB1A{"replaced"} })
	var got string
	if err := child.Invoke(func(a *huntB1A) { got = a.S }); err != nil {
		t.Fatal(err)
	}
	if got != "replaced" {
		t.Errorf("got %q", got)
	}
}

func TestHuntB1_OuterGroupDecoratorBlocksIndependentInnerOne(t *testing.T) {
	c := dig.New()
	child := c.Scope("child")
	c.Provide(func() string { return "o" }, dig.Group("g"))
	outerRuns := 0
	c.Decorate(func(i huntB1In) (huntB1Out, error) {
		outerRuns++
		return huntB1Out{}, errors.New("outer decorator fails")
	})
	child.Decorate(func() huntB1Out { return huntB1Out{Vs: []string{"replaced"}} })
	var got []string
	if err := child.Invoke(func(i huntB1In) { got = i.Vs }); err != nil {
		t.Fatalf("consumer did not receive its nearest decorator's output: %v", err)
	}
	if len(got) != 1 || got[0] != "replaced" {
		t.Errorf("got %v", got)
	}
	if outerRuns != 0 {
		t.Errorf("the outer decorator, whose output nobody consumes, ran %d times", outerRuns)
	}
}
