package dig_test

import (
	"bytes"
	"testing"

	"go.uber.org/dig"
)

// C14: "any arguments given to the public option constructors, Provide,
// Decorate and Invoke either succeed or return an error. They never panic on
// their own".
//
// A nil option (e.g. a conditionally filled `var opt dig.ProvideOption`) is a
// legal argument. Every entry point calls the option's method without a nil
// check and dies with a nil pointer dereference. Scope() is the oddest one:
// ScopeOption has no implementation at all, so nil is the only value a caller
// can possibly pass.

func hunt5NoPanic(t *testing.T, what string, f func()) {
	t.Helper()
	defer func() {
		if p := recover(); p != nil {
			t.Errorf("%s panicked: %v", what, p)
		}
	}()
	f()
}

func TestHunt5NilProvideOption(t *testing.T) {
	c := dig.New()
	var opt dig.ProvideOption // nil
	hunt5NoPanic(t, "Provide(ctor, nil)", func() { _ = c.Provide(func() int { return 1 }, opt) })
}

func TestHunt5NilInvokeOption(t *testing.T) {
	c := dig.New()
	var opt dig.InvokeOption // nil
	hunt5NoPanic(t, "Invoke(fn, nil)", func() { _ = c.Invoke(func() {}, opt) })
}

func TestHunt5NilDecorateOption(t *testing.T) {
	c := dig.New()
	if err := c.Provide(func() int { return 1 }); err != nil {
		t.Fatal(err)
	}
	var opt dig.DecorateOption // nil
	hunt5NoPanic(t, "Decorate(fn, nil)", func() { _ = c.Decorate(func(i int) int { return i }, opt) })
}

func TestHunt5NilContainerOption(t *testing.T) {
	var opt dig.Option // nil
	hunt5NoPanic(t, "New(nil)", func() { _ = dig.New(opt) })
}

func TestHunt5NilScopeOption(t *testing.T) {
	c := dig.New()
	var opt dig.ScopeOption // nil
	hunt5NoPanic(t, `Scope("x", nil)`, func() { _ = c.Scope("x", opt) })
}

func TestHunt5NilVisualizeOption(t *testing.T) {
	c := dig.New()
	var opt dig.VisualizeOption // nil
	hunt5NoPanic(t, "Visualize(c, w, nil)", func() { _ = dig.Visualize(c, &bytes.Buffer{}, opt) })
}
