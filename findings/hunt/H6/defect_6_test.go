package dig_test

import (
	"errors"
	"testing"

	"go.uber.org/dig"
)

// C13: "An error returned by the invoked function is returned by Invoke
// unchanged" (doc.go: "Any error returned by the invoked function is
// propagated back to the caller").
//
// Scope.Invoke only inspects the LAST result of the function. For
// constructors and decorators dig honours an error result at any position
// (resultList.ExtractList), so the same function that fails as a constructor
// silently "succeeds" when invoked.

func TestHunt6InvokeDropsErrorThatIsNotTheLastResult(t *testing.T) {
	sentinel := errors.New("boom")
	fn := func() (error, int) { return sentinel, 0 }

	// Reference: as a constructor the error is honoured.
	c := dig.New()
	if err := c.Provide(fn); err != nil {
		t.Fatal(err)
	}
	if err := c.Invoke(func(int) {}); dig.RootCause(err) != sentinel {
		t.Fatalf("constructor: expected %v as root cause, got %v", sentinel, err)
	}

	// Invoked directly, the very same error is dropped.
	if err := dig.New().Invoke(fn); err != sentinel {
		t.Errorf("Invoke(func() (error, int)) returned %v, want the error returned by the function: %v", err, sentinel)
	}
}

func TestHunt6InvokeDropsFirstOfTwoErrors(t *testing.T) {
	sentinel := errors.New("boom")
	err := dig.New().Invoke(func() (error, error) { return sentinel, nil })
	if err != sentinel {
		t.Errorf("Invoke(func() (error, error)) returned %v, want %v", err, sentinel)
	}
}
