package dig_test

import (
	"errors"
	"fmt"
	"testing"

	"go.uber.org/dig"
)

// C13: "an error returned by a constructor or decorator is recoverable by
// identity through RootCause and errors.Is".
//
// dig classifies links of an error chain with errors.As, which searches the
// WHOLE chain. If the error returned by a user function itself wraps a
// dig.Error (typically: the constructor uses another dig container, or
// re-enters this one, and wraps the failure with %w), dig looks straight
// through the user's error:
//   - RootCause skips the user's error and reports a dig.Error as root cause,
//     so the documented classification says "this is a dig error";
//   - an `optional:"true"` parameter whose constructor RAN AND FAILED this way
//     is silently replaced with the zero value: Invoke returns nil.

func hunt2InnerDigError(t *testing.T) error {
	t.Helper()
	inner := dig.New()
	err := inner.Invoke(func(int) {}) // missing type: int
	if err == nil {
		t.Fatal("expected the inner container to fail")
	}
	return err
}

func TestHunt2RootCauseSkipsUserErrorFromConstructor(t *testing.T) {
	userErr := fmt.Errorf("building sub-system failed: %w", hunt2InnerDigError(t))

	c := dig.New()
	if err := c.Provide(func() (string, error) { return "", userErr }); err != nil {
		t.Fatal(err)
	}
	err := c.Invoke(func(string) {})
	if err == nil {
		t.Fatal("expected an error")
	}
	if !errors.Is(err, userErr) {
		t.Errorf("errors.Is(err, userErr) = false for %v", err)
	}
	if rc := dig.RootCause(err); rc != userErr {
		t.Errorf("RootCause must return the error the constructor returned (the first non-dig error in the chain)\n got: (%T) %v\nwant: (%T) %v", rc, rc, userErr, userErr)
	}
}

func TestHunt2RootCauseSkipsUserErrorFromDecorator(t *testing.T) {
	userErr := fmt.Errorf("decorating failed: %w", hunt2InnerDigError(t))

	c := dig.New()
	if err := c.Provide(func() string { return "x" }); err != nil {
		t.Fatal(err)
	}
	if err := c.Decorate(func(s string) (string, error) { return "", userErr }); err != nil {
		t.Fatal(err)
	}
	err := c.Invoke(func(string) {})
	if err == nil {
		t.Fatal("expected an error")
	}
	if rc := dig.RootCause(err); rc != userErr {
		t.Errorf("RootCause must return the error the decorator returned\n got: (%T) %v\nwant: (%T) %v", rc, rc, userErr, userErr)
	}
}

func TestHunt2OptionalParamSwallowsConstructorError(t *testing.T) {
	type in struct {
		dig.In

		S string `optional:"true"`
	}

	innerErr := hunt2InnerDigError(t)
	var userErr error
	calls := 0

	c := dig.New()
	if err := c.Provide(func() (string, error) {
		calls++
		userErr = fmt.Errorf("building sub-system failed: %w", innerErr)
		return "", userErr
	}); err != nil {
		t.Fatal(err)
	}

	err := c.Invoke(func(in) {})
	if calls != 1 {
		t.Fatalf("constructor ran %d times, expected 1", calls)
	}
	// The constructor exists, was executed and returned an error. That error
	// must surface; `optional` only covers values that cannot be provided.
	if err == nil {
		t.Fatalf("constructor failed with %q but Invoke returned nil: the error was swallowed", userErr)
	}
	if !errors.Is(err, userErr) {
		t.Errorf("errors.Is(err, userErr) = false for %v", err)
	}
}
