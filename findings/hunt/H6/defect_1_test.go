package dig_test

import (
	"errors"
	"testing"

	"go.uber.org/dig"
)

// C14: a function with a legal (if unusual) parameter type must be answered
// with an error, never with a panic. [1<<61]struct{} is a legal zero-sized Go
// type. When it is missing from the container, newErrMissingTypes tries to
// suggest "[N]*T" via reflect.ArrayOf, which panics with
// "reflect.ArrayOf: array size would exceed virtual address space".

type hunt1Huge = [1 << 61]struct{}

func hunt1NoPanic(t *testing.T, what string, f func() error) (err error) {
	t.Helper()
	defer func() {
		if p := recover(); p != nil {
			t.Errorf("%s panicked instead of returning an error: %v", what, p)
		}
	}()
	return f()
}

func hunt1WantDigError(t *testing.T, what string, err error) {
	t.Helper()
	if t.Failed() {
		return
	}
	if err == nil {
		t.Errorf("%s: expected a missing-type error, got nil", what)
		return
	}
	var de dig.Error
	if !errors.As(dig.RootCause(err), &de) {
		t.Errorf("%s: expected a dig.Error, got %T: %v", what, dig.RootCause(err), err)
	}
}

func TestHunt1InvokeHugeArrayParam(t *testing.T) {
	c := dig.New()
	err := hunt1NoPanic(t, "Invoke(func([1<<61]struct{}))", func() error {
		return c.Invoke(func(hunt1Huge) {})
	})
	hunt1WantDigError(t, "Invoke", err)
}

func TestHunt1ConstructorHugeArrayParam(t *testing.T) {
	c := dig.New()
	if err := c.Provide(func(hunt1Huge) int { return 1 }); err != nil {
		t.Fatalf("Provide: %v", err)
	}
	err := hunt1NoPanic(t, "Invoke(func(int)) with a constructor depending on [1<<61]struct{}", func() error {
		return c.Invoke(func(int) {})
	})
	hunt1WantDigError(t, "Invoke", err)
}

func TestHunt1ParamObjectHugeArrayField(t *testing.T) {
	type in struct {
		dig.In

		A hunt1Huge
	}
	c := dig.New()
	err := hunt1NoPanic(t, "Invoke(func(dig.In{A [1<<61]struct{}}))", func() error {
		return c.Invoke(func(in) {})
	})
	hunt1WantDigError(t, "Invoke", err)
}
