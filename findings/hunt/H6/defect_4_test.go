package dig_test

import (
	"errors"
	"runtime"
	"testing"

	"go.uber.org/dig"
)

// C13: "With RecoverFromPanics a panic in any user function surfaces as a
// PanicError carrying the panic value".
//
// dig detects a panic with `if p := recover(); p != nil`. This module declares
// `go 1.20`, so the Go toolchain runs it with GODEBUG=panicnil=1: panic(nil)
// is a real panic for which recover() returns nil (the same holds for every
// application whose go.mod says go <= 1.20, and for GODEBUG=panicnil=1).
// recover() stops the panic, but dig then believes that nothing happened:
//   - an invoked function that panics makes Invoke return nil (swallowed);
//   - a constructor that panics "succeeds" without having produced a value;
//     dig then hands an invalid reflect.Value to the consumer, which makes dig
//     itself panic inside reflect (blamed on the wrong function, or - for
//     parameter objects - escaping Invoke altogether).
// (When the test is built with newer panic(nil) semantics recover() yields a
// *runtime.PanicNilError and everything is fine; the assertions accept both.)

func hunt4IsNilPanic(p interface{}) bool {
	if p == nil {
		return true
	}
	_, ok := p.(*runtime.PanicNilError)
	return ok
}

func hunt4Invoke(t *testing.T, c *dig.Container, f interface{}) (err error) {
	t.Helper()
	defer func() {
		if p := recover(); p != nil {
			t.Errorf("panic %q escaped Invoke although the container was built with RecoverFromPanics", p)
		}
	}()
	return c.Invoke(f)
}

func hunt4WantNilPanicError(t *testing.T, err error) {
	t.Helper()
	if t.Failed() {
		return
	}
	var pe dig.PanicError
	if !errors.As(dig.RootCause(err), &pe) {
		t.Fatalf("expected a PanicError as root cause, got (%T) %v", dig.RootCause(err), err)
	}
	if !hunt4IsNilPanic(pe.Panic) {
		t.Errorf("PanicError does not carry the panic value of the user function, it carries: %v", pe.Panic)
	}
}

func TestHunt4InvokedFunctionPanicNilIsSwallowed(t *testing.T) {
	c := dig.New(dig.RecoverFromPanics())
	completed := false
	err := hunt4Invoke(t, c, func() {
		panic(nil)
		completed = true //nolint
	})
	if completed {
		t.Fatal("function completed?!")
	}
	hunt4WantNilPanicError(t, err)
}

func TestHunt4ConstructorPanicNil(t *testing.T) {
	c := dig.New(dig.RecoverFromPanics())
	if err := c.Provide(func() int { panic(nil) }); err != nil {
		t.Fatal(err)
	}
	ran := false
	err := hunt4Invoke(t, c, func(int) { ran = true })
	if ran {
		t.Error("the function was invoked although the constructor of its argument panicked")
	}
	hunt4WantNilPanicError(t, err)
}

func TestHunt4ConstructorPanicNilParamObject(t *testing.T) {
	type in struct {
		dig.In

		I int
	}
	c := dig.New(dig.RecoverFromPanics())
	if err := c.Provide(func() int { panic(nil) }); err != nil {
		t.Fatal(err)
	}
	err := hunt4Invoke(t, c, func(in) {})
	hunt4WantNilPanicError(t, err)
}
