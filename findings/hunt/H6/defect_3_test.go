package dig_test

import (
	"errors"
	"testing"

	"go.uber.org/dig"
)

// C13: "With RecoverFromPanics a panic in any user function surfaces as a
// PanicError carrying the panic value".
//
// Callbacks (WithProviderCallback / WithDecoratorCallback) are user functions
// given to the container and run by it during Invoke. They are called from a
// deferred function that is registered BEFORE the recovering defer, hence run
// after it, and Scope.Invoke only installs its own recover after the arguments
// were built. A panicking callback therefore escapes Invoke.

func hunt3Invoke(t *testing.T, c *dig.Container, f interface{}) (err error) {
	t.Helper()
	defer func() {
		if p := recover(); p != nil {
			t.Errorf("panic %q escaped Invoke although the container was built with RecoverFromPanics", p)
		}
	}()
	return c.Invoke(f)
}

func hunt3WantPanicError(t *testing.T, err error, want interface{}) {
	t.Helper()
	if t.Failed() {
		return
	}
	var pe dig.PanicError
	if !errors.As(dig.RootCause(err), &pe) {
		t.Fatalf("expected a PanicError as root cause, got %T: %v", dig.RootCause(err), err)
	}
	if pe.Panic != want {
		t.Errorf("PanicError carries %v, want %v", pe.Panic, want)
	}
}

func TestHunt3ProviderCallbackPanic(t *testing.T) {
	c := dig.New(dig.RecoverFromPanics())
	err := c.Provide(func() int { return 1 },
		dig.WithProviderCallback(func(dig.CallbackInfo) { panic("callback exploded") }))
	if err != nil {
		t.Fatal(err)
	}
	err = hunt3Invoke(t, c, func(int) {})
	hunt3WantPanicError(t, err, "callback exploded")
}

func TestHunt3DecoratorCallbackPanic(t *testing.T) {
	c := dig.New(dig.RecoverFromPanics())
	if err := c.Provide(func() int { return 1 }); err != nil {
		t.Fatal(err)
	}
	err := c.Decorate(func(i int) int { return i + 1 },
		dig.WithDecoratorCallback(func(dig.CallbackInfo) { panic("callback exploded") }))
	if err != nil {
		t.Fatal(err)
	}
	err = hunt3Invoke(t, c, func(int) {})
	hunt3WantPanicError(t, err, "callback exploded")
}
