package dig_test

import (
	"os"
	"os/exec"
	"strings"
	"testing"

	"go.uber.org/dig"
)

// C14 (... "Visualize and String never panic on any container state reachable
// this way") and C05 ("no history can ... crash the process"): String prints
// every cached value with %v. fmt follows slices, maps and interfaces without
// looking for cycles, so a container that holds a value containing itself
// makes Container.String / Scope.String recurse until the runtime kills the
// process with "fatal error: stack overflow" (which no recover can stop).
// The sibling code path - printing a rejected non-function argument - was
// fixed earlier (describeValue); String was forgotten.

type hunt1Tree []interface{} // e.g. a JSON-like document

type hunt1Registry map[string]interface{}

func hunt1Scenario(kind string) string {
	c := dig.New()
	switch kind {
	case "slice":
		must(c.Provide(func() hunt1Tree { t := make(hunt1Tree, 1); t[0] = t; return t }))
		must(c.Invoke(func(hunt1Tree) {}))
		return c.String()
	case "map":
		must(c.Provide(func() hunt1Registry { m := hunt1Registry{}; m["self"] = m; return m }))
		must(c.Invoke(func(hunt1Registry) {}))
		return c.String()
	case "group-in-scope":
		s := c.Scope("child")
		must(s.Provide(func() hunt1Tree { t := make(hunt1Tree, 1); t[0] = t; return t }, dig.Group("g")))
		must(s.Invoke(func(in struct {
			dig.In
			G []hunt1Tree `group:"g"`
		}) {
		}))
		return s.String()
	}
	panic("unknown kind")
}

func must(err error) {
	if err != nil {
		panic(err)
	}
}

// The overflow is fatal, so every case runs in a child process.
func TestHunt1StringSelfContainingValue(t *testing.T) {
	if kind := os.Getenv("HUNT1_KIND"); kind != "" {
		s := hunt1Scenario(kind)
		if !strings.Contains(s, "values: {") {
			t.Fatalf("unexpected String output: %q", s)
		}
		return
	}
	for _, kind := range []string{"slice", "map", "group-in-scope"} {
		cmd := exec.Command(os.Args[0], "-test.run=^TestHunt1StringSelfContainingValue$", "-test.count=1")
		cmd.Env = append(os.Environ(), "HUNT1_KIND="+kind)
		out, err := cmd.CombinedOutput()
		if err != nil {
			msg := string(out)
			if len(msg) > 300 {
				msg = msg[:300] + "..."
			}
			t.Errorf("%s: String() on a container holding a self-containing value killed the process: %v\n%s", kind, err, msg)
		}
	}
}
