package dig_test

import (
	"errors"
	"reflect"
	"testing"

	"go.uber.org/dig"
)

type hunt1In struct {
	dig.In

	Vs []int `group:"g"`
}

type hunt1Out struct {
	dig.Out

	Vs []int `group:"g"`
}

// The child scope's decorator replaces the group without consuming it, so the
// root's decorator of the same group is not reachable from the Invoke in the
// child: it must not run (C03) and its failure must not matter (C04, C12).
func TestHunt1OuterGroupDecoratorIsNotInTheClosure(t *testing.T) {
	c := dig.New()
	child := c.Scope("child")
	if err := c.Provide(func() int { return 1 }, dig.Group("g")); err != nil {
		t.Fatal(err)
	}
	rootRan := 0
	if err := c.Decorate(func(in hunt1In) hunt1Out {
		rootRan++
		return hunt1Out{Vs: append(in.Vs, 10)}
	}); err != nil {
		t.Fatal(err)
	}
	if err := child.Decorate(func() hunt1Out { return hunt1Out{Vs: []int{42}} }); err != nil {
		t.Fatal(err)
	}
	var got []int
	if err := child.Invoke(func(in hunt1In) { got = in.Vs }); err != nil {
		t.Fatal(err)
	}
	if !reflect.DeepEqual(got, []int{42}) {
		t.Errorf("child consumer got %v, want [42]", got)
	}
	if rootRan != 0 {
		t.Errorf("C03: the root decorator ran %d time(s) although nothing the Invoke needs depends on it", rootRan)
	}
}

// Same, with a root decorator that fails: the Invoke in the child fails with
// the error of a function outside its dependency closure.
func TestHunt1OuterGroupDecoratorFailureBreaksUnrelatedInvoke(t *testing.T) {
	c := dig.New()
	child := c.Scope("child")
	boom := errors.New("boom")
	if err := c.Decorate(func(in hunt1In) (hunt1Out, error) { return hunt1Out{}, boom }); err != nil {
		t.Fatal(err)
	}
	if err := child.Decorate(func() hunt1Out { return hunt1Out{Vs: []int{42}} }); err != nil {
		t.Fatal(err)
	}
	var got []int
	err := child.Invoke(func(in hunt1In) { got = in.Vs })
	if err != nil {
		t.Fatalf("C04/C12: every dependency of the Invoke is available and no function it needs fails, yet: %v", err)
	}
	if !reflect.DeepEqual(got, []int{42}) {
		t.Errorf("child consumer got %v, want [42]", got)
	}
}

// The nearest decorator has already run and its output is cached; a decorator
// registered later in the root (with a missing dependency) makes every later
// consumer below the child's decorator fail, although C12 says that such a
// consumer receives exactly what the nearest enclosing decorator returned (and
// C04 that the Invoke succeeds: nothing it needs is missing).
func TestHunt1LateOuterGroupDecoratorBreaksCachedInnerDecoration(t *testing.T) {
	c := dig.New()
	child := c.Scope("child")
	if err := child.Decorate(func(in hunt1In) hunt1Out { return hunt1Out{Vs: append(in.Vs, 42)} }); err != nil {
		t.Fatal(err)
	}
	var got []int
	if err := child.Invoke(func(in hunt1In) { got = in.Vs }); err != nil {
		t.Fatal(err)
	}
	if !reflect.DeepEqual(got, []int{42}) {
		t.Fatalf("got %v", got)
	}
	type missing struct{}
	if err := c.Decorate(func(in hunt1In, _ *missing) hunt1Out { return hunt1Out{} }); err != nil {
		t.Fatal(err)
	}
	got = nil
	if err := child.Invoke(func(in hunt1In) { got = in.Vs }); err != nil {
		t.Fatalf("C12: the nearest decorator's cached output must be delivered: %v", err)
	}
	if !reflect.DeepEqual(got, []int{42}) {
		t.Errorf("got %v, want [42]", got)
	}
}
