package dig_test

import (
	"errors"
	"testing"

	"go.uber.org/dig"
)

// Defect 1: a value group that is decorated in an enclosing scope AND in a
// nearer scope. The consumer must get what the NEAREST decorator returned
// (C12); the outer decorator is part of the dependency closure only if the
// nearer decorator consumes the group. dig nevertheless runs every enclosing
// group decorator, outermost first, on every request of the group - so an
// outer decorator that is not needed is executed (C03), its missing
// dependencies (C04) or its failure (C07/C12) make the Invoke fail, and after
// a failure it is executed again on every later request although the nearer
// decorator's result is cached. The same history with a single value instead
// of a group behaves as demanded (second half of each test).

type hunt1Member struct{ from string }
type hunt1Value struct{ from string }
type hunt1Absent struct{}

type hunt1GroupIn struct {
	dig.In
	Members []*hunt1Member `group:"g"`
}

type hunt1GroupOut struct {
	dig.Out
	Members []*hunt1Member `group:"g"`
}

// No user function fails and everything the child's consumer needs is there:
// the child decorator replaces the group without looking at it.
func TestHunt1OuterGroupDecoratorWithMissingDependencyIsNotNeeded(t *testing.T) {
	c := dig.New()
	child := c.Scope("child")

	if err := c.Provide(func() *hunt1Member { return &hunt1Member{"member"} }, dig.Group("g")); err != nil {
		t.Fatal(err)
	}
	type outerIn struct {
		dig.In
		Members []*hunt1Member `group:"g"`
		Absent  *hunt1Absent   // nobody provides this
	}
	if err := c.Decorate(func(in outerIn) hunt1GroupOut {
		t.Error("the outer decorator was executed without its dependencies")
		return hunt1GroupOut{}
	}); err != nil {
		t.Fatal(err)
	}
	if err := child.Decorate(func() hunt1GroupOut {
		return hunt1GroupOut{Members: []*hunt1Member{{"child decorator"}}}
	}); err != nil {
		t.Fatal(err)
	}

	called := 0
	err := child.Invoke(func(in hunt1GroupIn) {
		called++
		if len(in.Members) != 1 || in.Members[0].from != "child decorator" {
			t.Errorf("group consumer in child got %v, want what the child's decorator returned", in.Members)
		}
	})
	if err != nil {
		t.Errorf("child.Invoke of a group decorated in the child: %v", err)
	}
	if called != 1 {
		t.Errorf("invoked function called %d times, want 1", called)
	}

	// The same history with a single value works.
	c2 := dig.New()
	child2 := c2.Scope("child")
	if err := c2.Provide(func() *hunt1Value { return &hunt1Value{"ctor"} }); err != nil {
		t.Fatal(err)
	}
	if err := c2.Decorate(func(v *hunt1Value, _ *hunt1Absent) *hunt1Value { return v }); err != nil {
		t.Fatal(err)
	}
	if err := child2.Decorate(func() *hunt1Value { return &hunt1Value{"child decorator"} }); err != nil {
		t.Fatal(err)
	}
	if err := child2.Invoke(func(v *hunt1Value) {
		if v.from != "child decorator" {
			t.Errorf("single value: got %q", v.from)
		}
	}); err != nil {
		t.Fatalf("single value: %v", err)
	}
}

// The outer decorator fails. The child's consumer does not depend on it, and
// once the child's decorator has run its result is cached - still every
// Invoke fails and the outer decorator is executed again and again.
func TestHunt1OuterGroupDecoratorFailureReachesConsumersOfNearerDecorator(t *testing.T) {
	c := dig.New()
	child := c.Scope("child")

	members := 0
	if err := c.Provide(func() *hunt1Member { members++; return &hunt1Member{"member"} }, dig.Group("g")); err != nil {
		t.Fatal(err)
	}
	outerRuns := 0
	errOuter := errors.New("outer decorator failed")
	if err := c.Decorate(func(in hunt1GroupIn) (hunt1GroupOut, error) {
		outerRuns++
		return hunt1GroupOut{}, errOuter
	}); err != nil {
		t.Fatal(err)
	}
	innerRuns := 0
	if err := child.Decorate(func() hunt1GroupOut {
		innerRuns++
		return hunt1GroupOut{Members: []*hunt1Member{{"child decorator"}}}
	}); err != nil {
		t.Fatal(err)
	}

	for i := 0; i < 3; i++ {
		var got []*hunt1Member
		err := child.Invoke(func(in hunt1GroupIn) { got = in.Members })
		if err != nil {
			t.Errorf("Invoke %d in child: %v", i, err)
			continue
		}
		if len(got) != 1 || got[0].from != "child decorator" {
			t.Errorf("Invoke %d in child: got %v", i, got)
		}
	}
	if outerRuns != 0 {
		t.Errorf("outer decorator, which nothing in the child needs, was executed %d times", outerRuns)
	}
	if members != 0 {
		t.Errorf("the group's constructor, whose value nobody consumes, was executed %d times", members)
	}
	if innerRuns != 1 {
		t.Errorf("child decorator executed %d times, want 1", innerRuns)
	}
}

// Without any failure the only symptom is user code that runs outside the
// dependency closure of the Invoke.
func TestHunt1OuterGroupDecoratorRunsAlthoughNotNeeded(t *testing.T) {
	c := dig.New()
	child := c.Scope("child")
	var ran []string
	if err := c.Provide(func() *hunt1Member { ran = append(ran, "member ctor"); return &hunt1Member{"member"} }, dig.Group("g")); err != nil {
		t.Fatal(err)
	}
	if err := c.Decorate(func(in hunt1GroupIn) hunt1GroupOut {
		ran = append(ran, "outer decorator")
		return hunt1GroupOut{Members: in.Members}
	}); err != nil {
		t.Fatal(err)
	}
	if err := child.Decorate(func() hunt1GroupOut {
		ran = append(ran, "child decorator")
		return hunt1GroupOut{Members: []*hunt1Member{{"child decorator"}}}
	}); err != nil {
		t.Fatal(err)
	}
	if err := child.Invoke(func(in hunt1GroupIn) {}); err != nil {
		t.Fatal(err)
	}
	if len(ran) != 1 || ran[0] != "child decorator" {
		t.Errorf("executed %v, want only the child decorator (single values: only the nearest decorator runs)", ran)
	}
}
