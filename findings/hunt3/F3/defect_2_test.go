package dig_test

import (
	"testing"

	"go.uber.org/dig"
)

// Defect 2 (C04): a parameter-object field tagged optional must receive the
// zero value when the constructor of its key is visible but that constructor's
// dependencies are unavailable. That holds - unless the key is decorated: then
// the very same Invoke fails with a "missing dependencies" error, although the
// decorator's own dependencies (the decorated key only) all have a visible
// constructor. One level further down (an optional field whose constructor
// needs the decorated key) the zero value is delivered again.

type hunt2Conn struct{ from string }
type hunt2Config struct{} // never provided
type hunt2Client struct{ conn *hunt2Conn }

type hunt2In struct {
	dig.In
	Conn *hunt2Conn `optional:"true"`
}

func TestHunt2OptionalFieldOfDecoratedKeyWhoseConstructorLacksDependencies(t *testing.T) {
	newContainer := func(decorate bool) *dig.Container {
		c := dig.New()
		// the constructor of *hunt2Conn is visible, its dependency is not
		if err := c.Provide(func(*hunt2Config) *hunt2Conn {
			t.Error("constructor executed without its dependency")
			return &hunt2Conn{"constructor"}
		}); err != nil {
			t.Fatal(err)
		}
		if decorate {
			// the decorator depends on nothing but the key it decorates
			if err := c.Decorate(func(conn *hunt2Conn) *hunt2Conn {
				t.Error("decorator executed without its dependency")
				return &hunt2Conn{"decorator"}
			}); err != nil {
				t.Fatal(err)
			}
		}
		return c
	}

	// reference: without the decorator the optional field is zero
	called := 0
	if err := newContainer(false).Invoke(func(in hunt2In) {
		called++
		if in.Conn != nil {
			t.Errorf("undecorated: got %v, want nil", in.Conn)
		}
	}); err != nil || called != 1 {
		t.Fatalf("undecorated: err=%v called=%d", err, called)
	}

	// with the decorator the Invoke fails
	called = 0
	c := newContainer(true)
	err := c.Invoke(func(in hunt2In) {
		called++
		if in.Conn != nil {
			t.Errorf("decorated: got %v, want nil", in.Conn)
		}
	})
	if err != nil {
		t.Errorf("decorated: Invoke with an optional field must succeed with the zero value, got: %v", err)
	}
	if called != 1 {
		t.Errorf("decorated: invoked function called %d times, want 1", called)
	}

	// ... while one level deeper the optional field is zero again, as demanded
	if err := c.Provide(func(conn *hunt2Conn) *hunt2Client { return &hunt2Client{conn} }); err != nil {
		t.Fatal(err)
	}
	type deeper struct {
		dig.In
		Client *hunt2Client `optional:"true"`
	}
	if err := c.Invoke(func(in deeper) {
		if in.Client != nil {
			t.Errorf("deeper: got %v, want nil", in.Client)
		}
	}); err != nil {
		t.Errorf("deeper: %v", err)
	}
}
