package dig_test

import (
	"fmt"
	"os"
	"os/exec"
	"runtime/debug"
	"strings"
	"testing"

	"go.uber.org/dig"
)

// Defect 3 (C14, C05): Container.String (and Scope.String) hand every cached
// value to fmt, and PanicError.Error hands the recovered panic value to fmt.
// fmt follows maps, slices and interfaces without looking for cycles, so one
// value that contains itself - perfectly legal Go, and dig stores and injects
// it correctly - makes String() / Error() recurse until the runtime kills the
// process with "fatal error: stack overflow", which cannot be recovered. The
// earlier fix for values printed with %v (describeValue, for rejected
// non-function arguments) did not cover these two sibling paths.
//
// The crash is fatal, so each scenario runs in a child process.

type hunt3Registry map[string]interface{}

func hunt3Scenario(name string) {
	switch name {
	case "string":
		c := dig.New()
		must(c.Provide(func() hunt3Registry {
			r := hunt3Registry{}
			r["self"] = r // e.g. a registry that lists itself
			return r
		}))
		must(c.Invoke(func(hunt3Registry) {}))
		_ = c.String()
	case "scope-string-group":
		c := dig.New()
		s := c.Scope("child")
		must(s.Provide(func() []interface{} {
			l := make([]interface{}, 1)
			l[0] = l
			return l
		}, dig.Group("g")))
		type in struct {
			dig.In
			G [][]interface{} `group:"g"`
		}
		must(s.Invoke(func(in) {}))
		_ = s.String()
	case "panic-error":
		c := dig.New(dig.RecoverFromPanics())
		must(c.Provide(func() *hunt3Registry {
			r := hunt3Registry{}
			r["self"] = r
			panic(r)
		}))
		err := c.Invoke(func(*hunt3Registry) {})
		if err == nil {
			panic("expected an error")
		}
		_ = err.Error() // what every caller does with the error of Invoke
	}
}

func must(err error) {
	if err != nil {
		panic(err)
	}
}

func TestHunt3Child(t *testing.T) {
	name := os.Getenv("HUNT3_SCENARIO")
	if name == "" {
		t.Skip("helper process of the TestHunt3 tests")
	}
	debug.SetMaxStack(32 << 20) // die quickly
	hunt3Scenario(name)
	fmt.Println("HUNT3-SURVIVED")
}

func hunt3Run(t *testing.T, scenario string) {
	cmd := exec.Command(os.Args[0], "-test.run=^TestHunt3Child$", "-test.v")
	cmd.Env = append(os.Environ(), "HUNT3_SCENARIO="+scenario)
	out, err := cmd.CombinedOutput()
	if err == nil && strings.Contains(string(out), "HUNT3-SURVIVED") {
		return
	}
	lines := strings.SplitN(string(out), "\n", 6)
	if len(lines) > 5 {
		lines = lines[:5]
	}
	t.Errorf("scenario %q killed the process (%v):\n%s", scenario, err, strings.Join(lines, "\n"))
}

func TestHunt3StringOfContainerWithSelfContainingValue(t *testing.T) {
	hunt3Run(t, "string")
}

func TestHunt3StringOfScopeWithSelfContainingGroupValue(t *testing.T) {
	hunt3Run(t, "scope-string-group")
}

func TestHunt3ErrorOfPanicErrorWithSelfContainingPanicValue(t *testing.T) {
	hunt3Run(t, "panic-error")
}
