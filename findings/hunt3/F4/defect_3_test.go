package dig_test

import (
	"os"
	"os/exec"
	"runtime/debug"
	"strings"
	"testing"

	"go.uber.org/dig"
)

// Defect 3: Container.String / Scope.String print every cached value with %v.
// fmt follows maps, slices and interfaces without looking for cycles, so one
// constructor result of a (named) map or slice type that contains itself
// makes String overflow the stack: a fatal error that kills the process and
// cannot be recovered. The same was fixed for rejected non-function arguments
// (describeValue) but not for the values String prints.
//
// The crash is unrecoverable, so the history runs in a child process.

type hunt3Map map[string]interface{}

type hunt3List []interface{}

func hunt3History(t *testing.T, which string) {
	c := dig.New()
	switch which {
	case "map":
		if err := c.Provide(func() hunt3Map { m := hunt3Map{}; m["self"] = m; return m }); err != nil {
			t.Fatal(err)
		}
		if err := c.Invoke(func(hunt3Map) {}); err != nil {
			t.Fatal(err)
		}
	case "group":
		if err := c.Provide(func() hunt3List { l := hunt3List{nil}; l[0] = l; return l }, dig.Group("g")); err != nil {
			t.Fatal(err)
		}
		type in struct {
			dig.In
			Ls []hunt3List `group:"g"`
		}
		if err := c.Invoke(func(in) {}); err != nil {
			t.Fatal(err)
		}
	}
	if s := c.String(); !strings.Contains(s, "values:") {
		t.Fatalf("unexpected String output %q", s)
	}
}

func hunt3Child(t *testing.T, which string) {
	if os.Getenv("HUNT3_CHILD") == which {
		debug.SetMaxStack(16 << 20) // crash quickly instead of eating 1 GB first
		hunt3History(t, which)
		return
	}
	cmd := exec.Command(os.Args[0], "-test.run=^"+t.Name()+"$")
	cmd.Env = append(os.Environ(), "HUNT3_CHILD="+which)
	out, err := cmd.CombinedOutput()
	if err != nil {
		lines := strings.SplitN(string(out), "\n", 4)
		if len(lines) > 3 {
			lines = lines[:3]
		}
		t.Errorf("C14: String() on a container holding a self-containing %s killed the process: %v\n%s", which, err, strings.Join(lines, "\n"))
	}
}

func TestHunt3StringWithSelfContainingMapValue(t *testing.T)   { hunt3Child(t, "map") }
func TestHunt3StringWithSelfContainingGroupValue(t *testing.T) { hunt3Child(t, "group") }
