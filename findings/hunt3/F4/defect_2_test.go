package dig_test

import (
	"testing"

	"go.uber.org/dig"
)

// Defect 2: dig treats every result whose type implements error as "the error
// result" (isError = t.Implements(error)), but then decides whether the
// function failed with `v.Interface().(error) != nil`. For a result declared
// with a concrete error type (func() (*T, *MyErr)) the nil pointer, which is
// that signature's way of saying "no error", becomes a non-nil error
// interface: the function is reported as failed although it succeeded.

type hunt2Err struct{ msg string }

func (e *hunt2Err) Error() string { return e.msg }

type hunt2T struct{}

func TestHunt2ConstructorReturningNilConcreteErrorIsTreatedAsFailed(t *testing.T) {
	c := dig.New()
	runs := 0
	if err := c.Provide(func() (*hunt2T, *hunt2Err) { runs++; return &hunt2T{}, nil }); err != nil {
		t.Fatal(err)
	}
	for i := 0; i < 2; i++ {
		called := false
		err := c.Invoke(func(*hunt2T) { called = true })
		if err != nil || !called {
			t.Errorf("C04: the constructor returned a nil error, yet Invoke %d failed (called=%v): %v", i+1, called, err)
		}
	}
	if runs != 1 {
		t.Errorf("C02: the constructor returned successfully but was executed %d times", runs)
	}
}

func TestHunt2InvokedFunctionReturningNilConcreteErrorFailsInvoke(t *testing.T) {
	c := dig.New()
	err := c.Invoke(func() *hunt2Err { return nil })
	if err != nil {
		t.Errorf("C13: the invoked function returned no error but Invoke returned a non-nil error (%T)", err)
	}
	// The non-nil case keeps working.
	want := &hunt2Err{"boom"}
	if err := c.Invoke(func() *hunt2Err { return want }); err != error(want) {
		t.Errorf("error of the invoked function not returned unchanged: %v", err)
	}
}

func TestHunt2DecoratorReturningNilConcreteErrorIsTreatedAsFailed(t *testing.T) {
	c := dig.New()
	if err := c.Provide(func() *hunt2T { return &hunt2T{} }); err != nil {
		t.Fatal(err)
	}
	decorated := &hunt2T{}
	if err := c.Decorate(func(*hunt2T) (*hunt2T, *hunt2Err) { return decorated, nil }); err != nil {
		t.Fatal(err)
	}
	var got *hunt2T
	if err := c.Invoke(func(v *hunt2T) { got = v }); err != nil {
		t.Fatalf("C04/C12: the decorator returned a nil error, yet Invoke failed: %v", err)
	}
	if got != decorated {
		t.Errorf("consumer did not receive the decorated value")
	}
}
