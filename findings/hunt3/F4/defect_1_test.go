package dig_test

import (
	"errors"
	"testing"

	"go.uber.org/dig"
)

// Defect 1: a value-group consumer runs EVERY group decorator between the root
// and its scope, not only the nearest one. Decorators (and, through them,
// constructors) that the consumer does not depend on are executed, and their
// failures or missing dependencies fail an Invoke that needs none of them.
// The single-value path (paramSingle.buildWithDecorators) calls the nearest
// decorator only.

type hunt1T struct{ id string }

type hunt1GroupIn struct {
	dig.In
	Vs []*hunt1T `group:"g"`
}

type hunt1GroupOut struct {
	dig.Out
	Vs []*hunt1T `group:"g"`
}

// The nearest decorator replaces the group without consuming it: neither the
// outer decorator nor the feeders are in the closure of the Invoke (C03).
func TestHunt1GroupConsumerRunsUnneededOuterDecoratorAndFeeders(t *testing.T) {
	c := dig.New()
	var feederRuns, outerRuns, innerRuns int
	if err := c.Provide(func() *hunt1T { feederRuns++; return &hunt1T{"feeder"} }, dig.Group("g")); err != nil {
		t.Fatal(err)
	}
	if err := c.Decorate(func(in hunt1GroupIn) hunt1GroupOut {
		outerRuns++
		return hunt1GroupOut{Vs: append(in.Vs, &hunt1T{"outer"})}
	}); err != nil {
		t.Fatal(err)
	}
	child := c.Scope("child")
	if err := child.Decorate(func() hunt1GroupOut {
		innerRuns++
		return hunt1GroupOut{Vs: []*hunt1T{{"inner"}}}
	}); err != nil {
		t.Fatal(err)
	}
	var got []*hunt1T
	if err := child.Invoke(func(in hunt1GroupIn) { got = in.Vs }); err != nil {
		t.Fatal(err)
	}
	if len(got) != 1 || got[0].id != "inner" {
		t.Fatalf("consumer must see the nearest decorator's group, got %v", got)
	}
	if innerRuns != 1 {
		t.Errorf("inner decorator ran %d times", innerRuns)
	}
	if outerRuns != 0 || feederRuns != 0 {
		t.Errorf("C03: the outer decorator ran %d times and the feeder %d times although nothing the Invoke needs depends on them", outerRuns, feederRuns)
	}
}

// Same graph; the unneeded feeder fails: the Invoke must still succeed (C04).
func TestHunt1UnneededFeederFailureFailsInvoke(t *testing.T) {
	c := dig.New()
	boom := errors.New("boom")
	if err := c.Provide(func() (*hunt1T, error) { return nil, boom }, dig.Group("g")); err != nil {
		t.Fatal(err)
	}
	if err := c.Decorate(func(in hunt1GroupIn) hunt1GroupOut { return hunt1GroupOut{Vs: in.Vs} }); err != nil {
		t.Fatal(err)
	}
	child := c.Scope("child")
	if err := child.Decorate(func() hunt1GroupOut { return hunt1GroupOut{Vs: []*hunt1T{{"inner"}}} }); err != nil {
		t.Fatal(err)
	}
	called := false
	err := child.Invoke(func(in hunt1GroupIn) { called = true })
	if err != nil || !called {
		t.Errorf("C04: every dependency of the Invoke is available and nothing it needs failed, yet Invoke returned: %v", err)
	}
}

// The nearest decorator already holds its result. A decorator registered
// later in an enclosing scope, with a dependency nobody provides, must not
// affect consumers below the nearer decorator (C12: scopes ... receive exactly
// what the nearest enclosing decorator returned; C04).
func TestHunt1LateOuterDecoratorBreaksSettledGroup(t *testing.T) {
	type missing struct{}
	c := dig.New()
	if err := c.Provide(func() *hunt1T { return &hunt1T{"feeder"} }, dig.Group("g")); err != nil {
		t.Fatal(err)
	}
	child := c.Scope("child")
	if err := child.Decorate(func(in hunt1GroupIn) hunt1GroupOut {
		return hunt1GroupOut{Vs: append(in.Vs, &hunt1T{"inner"})}
	}); err != nil {
		t.Fatal(err)
	}
	if err := child.Invoke(func(in hunt1GroupIn) {}); err != nil {
		t.Fatal(err)
	}
	outerRuns := 0
	if err := c.Decorate(func(in hunt1GroupIn, _ *missing) hunt1GroupOut { outerRuns++; return hunt1GroupOut{Vs: in.Vs} }); err != nil {
		t.Fatal(err)
	}
	var got []*hunt1T
	err := child.Invoke(func(in hunt1GroupIn) { got = in.Vs })
	if err != nil {
		t.Errorf("second Invoke in the child failed although its decorator ran already: %v", err)
	} else if len(got) != 2 {
		t.Errorf("got %v", got)
	}

	// Control: the same history with a single value succeeds.
	c2 := dig.New()
	if err := c2.Provide(func() *hunt1T { return &hunt1T{"v"} }); err != nil {
		t.Fatal(err)
	}
	child2 := c2.Scope("child")
	if err := child2.Decorate(func(v *hunt1T) *hunt1T { return &hunt1T{v.id + "+inner"} }); err != nil {
		t.Fatal(err)
	}
	if err := child2.Invoke(func(*hunt1T) {}); err != nil {
		t.Fatal(err)
	}
	if err := c2.Decorate(func(v *hunt1T, _ *missing) *hunt1T { return v }); err != nil {
		t.Fatal(err)
	}
	if err := child2.Invoke(func(*hunt1T) {}); err != nil {
		t.Fatalf("control (single value) failed: %v", err)
	}
}
