package dig_test

// Defect 1: resolving a value group runs EVERY group decorator of every
// enclosing scope (outermost first), not only the nearest one. When the
// nearest decorator replaces the group without consuming it, the outer
// decorators - and the constructors they need - are outside the dependency
// closure of the Invoke, yet they are executed, and their failures (or their
// missing dependencies) make the Invoke fail. The single-value path
// (paramSingle.buildWithDecorators) runs the nearest decorator only.

import (
	"errors"
	"testing"

	"go.uber.org/dig"
)

type hunt1In struct {
	dig.In
	G []int `group:"g"`
}

type hunt1Out struct {
	dig.Out
	G []int `group:"g"`
}

type hunt1Missing struct{}

// C03: only the dependency closure of an Invoke executes user code.
func TestHunt1OuterGroupDecoratorOutsideClosureRuns(t *testing.T) {
	c := dig.New()
	feeder, outer, inner := 0, 0, 0
	if err := c.Provide(func() int { feeder++; return 1 }, dig.Group("g")); err != nil {
		t.Fatal(err)
	}
	if err := c.Decorate(func(in hunt1In) hunt1Out { outer++; return hunt1Out{G: append(in.G, 100)} }); err != nil {
		t.Fatal(err)
	}
	s1 := c.Scope("s1")
	s2 := s1.Scope("s2")
	// replaces the group, consumes nothing
	if err := s2.Decorate(func() hunt1Out { inner++; return hunt1Out{G: []int{7}} }); err != nil {
		t.Fatal(err)
	}
	var got []int
	if err := s2.Invoke(func(in hunt1In) { got = in.G }); err != nil {
		t.Fatal(err)
	}
	if len(got) != 1 || got[0] != 7 || inner != 1 {
		t.Fatalf("got %v, inner ran %d times", got, inner)
	}
	if feeder != 0 || outer != 0 {
		t.Errorf("functions outside the closure of the Invoke ran: feeding constructor %d times, root decorator %d times", feeder, outer)
	}

	// the same shape with a single value is lazy
	c = dig.New()
	feeder, outer, inner = 0, 0, 0
	c.Provide(func() int { feeder++; return 1 })
	c.Decorate(func(i int) int { outer++; return i + 100 })
	s2 = c.Scope("s1").Scope("s2")
	s2.Decorate(func() int { inner++; return 7 })
	if err := s2.Invoke(func(i int) {}); err != nil {
		t.Fatal(err)
	}
	if feeder != 0 || outer != 0 || inner != 1 {
		t.Fatalf("single value: feeder=%d outer=%d inner=%d", feeder, outer, inner)
	}
}

// C04: every required dependency of the closure is available, nothing fails,
// the graph is acyclic - yet Invoke reports a missing type.
func TestHunt1UnneededOuterGroupDecoratorWithMissingDependency(t *testing.T) {
	c := dig.New()
	if err := c.Provide(func() int { return 1 }, dig.Group("g")); err != nil {
		t.Fatal(err)
	}
	s1 := c.Scope("s1")
	s2 := s1.Scope("s2")
	if err := s1.Decorate(func(in hunt1In, _ *hunt1Missing) hunt1Out { return hunt1Out{G: in.G} }); err != nil {
		t.Fatal(err)
	}
	if err := s2.Decorate(func() hunt1Out { return hunt1Out{G: []int{7}} }); err != nil {
		t.Fatal(err)
	}
	var got []int
	if err := s2.Invoke(func(in hunt1In) { got = in.G }); err != nil {
		t.Errorf("Invoke needs only the decorator of s2, which needs nothing: %v", err)
	} else if len(got) != 1 || got[0] != 7 {
		t.Errorf("got %v", got)
	}
}

// C07 / C12: the nearest decorator already ran and its result is cached; a
// decorator registered later in an ancestor scope is executed anyway and its
// failure is reported as the root cause of an Invoke that does not need it.
func TestHunt1LateOuterGroupDecoratorBreaksCachedInnerOne(t *testing.T) {
	c := dig.New()
	s1 := c.Scope("s1")
	s2 := s1.Scope("s2")
	if err := s2.Decorate(func() hunt1Out { return hunt1Out{G: []int{7}} }); err != nil {
		t.Fatal(err)
	}
	if err := s2.Invoke(func(in hunt1In) {}); err != nil {
		t.Fatal(err)
	}
	boom := errors.New("boom")
	ran := 0
	if err := c.Decorate(func(in hunt1In) (hunt1Out, error) { ran++; return hunt1Out{}, boom }); err != nil {
		t.Fatal(err)
	}
	var got []int
	err := s2.Invoke(func(in hunt1In) { got = in.G })
	if err != nil {
		t.Errorf("the decorator of s2 is done and cached, yet Invoke fails: %v", err)
	} else if len(got) != 1 || got[0] != 7 {
		t.Errorf("got %v", got)
	}
	if ran != 0 {
		t.Errorf("root decorator ran %d times for a request it is not part of", ran)
	}
}
