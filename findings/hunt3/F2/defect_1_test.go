package dig_test

import (
	"sort"
	"strings"
	"testing"

	"go.uber.org/dig"
)

// C10 / C03 with Provide calls made from inside constructors.
//
// While a value group is being collected, a feeder may register another feeder
// of the same group. Whether that late feeder takes part in the collection
// depends on which scope it was registered in: a feeder added to a scope the
// collection has not visited yet (an ancestor) is executed and delivered, a
// feeder added to the scope being visited or to one already visited (the same
// scope, a descendant in the chain) is silently left out - although it is
// visible from the consuming scope when the consumer is called, the Invoke
// succeeds without having run it and the consumer receives an incomplete group.

type hunt1T struct{ s string }

type hunt1In struct {
	dig.In
	Ts []hunt1T `group:"g"`
}

func hunt1Names(ts []hunt1T) string {
	var out []string
	for _, v := range ts {
		out = append(out, v.s)
	}
	sort.Strings(out)
	return strings.Join(out, ",")
}

// Minimal form: one scope.
func TestHunt1LateFeederSameScope(t *testing.T) {
	c := dig.New()
	lateRan := 0
	if err := c.Provide(func() hunt1T {
		// registered while group "g" is being collected
		if err := c.Provide(func() hunt1T { lateRan++; return hunt1T{"late"} }, dig.Group("g")); err != nil {
			t.Errorf("late Provide rejected: %v", err)
		}
		return hunt1T{"early"}
	}, dig.Group("g")); err != nil {
		t.Fatal(err)
	}

	var first string
	if err := c.Invoke(func(in hunt1In) { first = hunt1Names(in.Ts) }); err != nil {
		t.Fatal(err)
	}
	// When the consumer is called, two constructors feeding hunt1T/"g" are
	// visible from its scope; C10 demands one element for each of them, C03
	// that every not-yet-built constructor of the closure has run.
	if first != "early,late" || lateRan != 1 {
		t.Errorf("first Invoke: group = [%s], late feeder ran %d times; want [early,late] and 1", first, lateRan)
	}
	var second string
	if err := c.Invoke(func(in hunt1In) { second = hunt1Names(in.Ts) }); err != nil {
		t.Fatal(err)
	}
	if second != "early,late" {
		t.Errorf("second Invoke: group = [%s]", second)
	}
}

// The asymmetry: the same late registration IS honoured when it goes to a
// scope that the collection visits later (child feeder registers a root
// feeder), and is NOT when it goes to a scope already visited.
func TestHunt1LateFeederDependsOnScope(t *testing.T) {
	c := dig.New()
	ch := c.Scope("child")
	must := func(err error) {
		if err != nil {
			t.Fatal(err)
		}
	}
	must(ch.Provide(func() hunt1T {
		must(c.Provide(func() hunt1T { return hunt1T{"late-root-from-child"} }, dig.Group("g")))
		return hunt1T{"early-child"}
	}, dig.Group("g")))
	must(c.Provide(func() hunt1T {
		must(ch.Provide(func() hunt1T { return hunt1T{"late-child-from-root"} }, dig.Group("g")))
		must(c.Provide(func() hunt1T { return hunt1T{"late-root-from-root"} }, dig.Group("g")))
		return hunt1T{"early-root"}
	}, dig.Group("g")))

	var first string
	must(ch.Invoke(func(in hunt1In) { first = hunt1Names(in.Ts) }))
	want := "early-child,early-root,late-child-from-root,late-root-from-child,late-root-from-root"
	if first != want {
		t.Errorf("first Invoke from child:\n got [%s]\nwant [%s]", first, want)
	}
}
