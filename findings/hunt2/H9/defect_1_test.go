package dig_test

import (
	"testing"

	"go.uber.org/dig"
)

// C08: "When several enclosing scopes provide the same key the nearest one is
// used" and "a constructor provided to a scope ... [is] usable from that scope
// and all of its descendants ... unless it was provided with Export(true), in
// which case it is usable from every scope".
//
// A scope that provides a key with Export(true) does not get its own
// constructor when an intermediate ancestor provides the same key: the
// exported constructor is filed under the root scope only, so the ancestor in
// between shadows it - for the exporting scope itself and for its descendants.

type hunt1Conf struct{ from string }

func hunt1Tree() (root *dig.Container, parent, child, grandchild *dig.Scope) {
	root = dig.New()
	parent = root.Scope("parent")
	child = parent.Scope("child")
	grandchild = child.Scope("grandchild")
	return
}

func hunt1Check(t *testing.T, root *dig.Container, parent, child, grandchild *dig.Scope) {
	t.Helper()
	get := func(invoke func(interface{}, ...dig.InvokeOption) error) string {
		var got string
		if err := invoke(func(c hunt1Conf) { got = c.from }); err != nil {
			t.Fatalf("Invoke failed: %v", err)
		}
		return got
	}
	// Unaffected views, for reference.
	if got := get(root.Invoke); got != "child (exported)" {
		t.Errorf("root: got the value of %q, want the exported constructor of child", got)
	}
	if got := get(parent.Invoke); got != "parent" {
		t.Errorf("parent: got the value of %q, want its own constructor", got)
	}
	// The scope the constructor was provided to is the nearest provider for
	// itself and for its descendants.
	if got := get(child.Invoke); got != "child (exported)" {
		t.Errorf("child: got the value of %q, want the constructor provided to child itself", got)
	}
	if got := get(grandchild.Invoke); got != "child (exported)" {
		t.Errorf("grandchild: got the value of %q, want the constructor provided to child (nearest enclosing provider)", got)
	}
}

func TestHunt1ExportedConstructorShadowedByIntermediateAncestor(t *testing.T) {
	root, parent, child, grandchild := hunt1Tree()
	if err := parent.Provide(func() hunt1Conf { return hunt1Conf{"parent"} }); err != nil {
		t.Fatal(err)
	}
	if err := child.Provide(func() hunt1Conf { return hunt1Conf{"child (exported)"} }, dig.Export(true)); err != nil {
		t.Fatal(err)
	}
	hunt1Check(t, root, parent, child, grandchild)
}

func TestHunt1ExportedConstructorShadowedRegistrationOrderReversed(t *testing.T) {
	root, parent, child, grandchild := hunt1Tree()
	if err := child.Provide(func() hunt1Conf { return hunt1Conf{"child (exported)"} }, dig.Export(true)); err != nil {
		t.Fatal(err)
	}
	if err := parent.Provide(func() hunt1Conf { return hunt1Conf{"parent"} }); err != nil {
		t.Fatal(err)
	}
	hunt1Check(t, root, parent, child, grandchild)
}

// The same through a constructor: a constructor provided to child resolves
// its dependencies "as seen from the scope it was provided to", where the
// nearest provider of hunt1Conf is child's own exported constructor.
func TestHunt1ConstructorInExportingScopeSeesAncestorsValue(t *testing.T) {
	type user struct{ conf string }
	_, parent, child, _ := hunt1Tree()
	if err := parent.Provide(func() hunt1Conf { return hunt1Conf{"parent"} }); err != nil {
		t.Fatal(err)
	}
	if err := child.Provide(func() hunt1Conf { return hunt1Conf{"child (exported)"} }, dig.Export(true)); err != nil {
		t.Fatal(err)
	}
	if err := child.Provide(func(c hunt1Conf) *user { return &user{c.from} }); err != nil {
		t.Fatal(err)
	}
	if err := child.Invoke(func(u *user) {
		if u.conf != "child (exported)" {
			t.Errorf("constructor provided to child received the value of %q, want child's own constructor", u.conf)
		}
	}); err != nil {
		t.Fatal(err)
	}
}
