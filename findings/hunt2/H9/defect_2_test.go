package dig_test

import (
	"sort"
	"strings"
	"testing"

	"go.uber.org/dig"
)

// C12: "Once a decorator for a key ... is registered in a scope, every
// function in that scope or a descendant that subsequently resolves the key
// receives exactly what the nearest enclosing decorator returned and never the
// undecorated value, while the decorator itself receives what a consumer in
// its scope would have received without it".
//
// While a decorator is collecting its own arguments it is skipped by *every*
// lookup of the key, not only by the lookup made for the decorator's own
// parameter. A constructor the decorator depends on (directly or not) that
// consumes the decorated key is therefore silently handed the undecorated
// value. That is a dependency cycle through the decorator which dig neither
// reports nor can honour; the only outcome compatible with C12 is an error.

type hunt2Conf struct{ v string }
type hunt2Client struct{ conf string }

// Each test accepts either outcome that honours the property: the Invoke
// fails (cycle reported), or every consumer saw the decorated value.

func TestHunt2ConstructorBelowDecoratorGetsUndecoratedValue(t *testing.T) {
	c := dig.New()
	must := func(err error) {
		t.Helper()
		if err != nil {
			t.Fatal(err)
		}
	}
	must(c.Provide(func() hunt2Conf { return hunt2Conf{"plain"} }))
	var clientSaw string
	must(c.Provide(func(cf hunt2Conf) *hunt2Client {
		clientSaw = cf.v
		return &hunt2Client{conf: cf.v}
	}))
	must(c.Decorate(func(cf hunt2Conf, cl *hunt2Client) hunt2Conf {
		return hunt2Conf{"decorated(" + cf.v + ")"}
	}))

	var invoked hunt2Conf
	err := c.Invoke(func(cl *hunt2Client, cf hunt2Conf) { invoked = cf })
	if err != nil {
		return // reporting the cycle honours the property
	}
	if clientSaw != invoked.v {
		t.Errorf("Invoke succeeded, but the constructor of *hunt2Client resolved hunt2Conf to %q while the scope's decorator returned %q: a function in the decorator's scope received the undecorated value",
			clientSaw, invoked.v)
	}
}

// The same with one decorator registered for two keys: the constructor of the
// unnamed value consumes the named one, which the decorator replaces too.
func TestHunt2MultiKeyDecorator(t *testing.T) {
	type in struct {
		dig.In
		Named hunt2Conf `name:"n"`
	}
	type out struct {
		dig.Out
		Plain hunt2Conf
		Named hunt2Conf `name:"n"`
	}
	c := dig.New()
	must := func(err error) {
		t.Helper()
		if err != nil {
			t.Fatal(err)
		}
	}
	must(c.Provide(func() hunt2Conf { return hunt2Conf{"named"} }, dig.Name("n")))
	var ctorSaw string
	must(c.Provide(func(i in) hunt2Conf {
		ctorSaw = i.Named.v
		return hunt2Conf{"plain(" + i.Named.v + ")"}
	}))
	must(c.Decorate(func(p hunt2Conf, i in) out {
		return out{Plain: hunt2Conf{"D(" + p.v + ")"}, Named: hunt2Conf{"D(" + i.Named.v + ")"}}
	}))

	var got string
	err := c.Invoke(func(i in) { got = i.Named.v })
	if err != nil {
		return
	}
	if ctorSaw != "" && ctorSaw != got {
		t.Errorf("Invoke succeeded, but the constructor of hunt2Conf resolved hunt2Conf[name=n] to %q while the decorator returned %q", ctorSaw, got)
	}
}

// The same with a value group.
func TestHunt2GroupDecorator(t *testing.T) {
	type groupIn struct {
		dig.In
		Vs []string `group:"g"`
	}
	type groupOut struct {
		dig.Out
		Vs []string `group:"g"`
	}
	c := dig.New()
	must := func(err error) {
		t.Helper()
		if err != nil {
			t.Fatal(err)
		}
	}
	must(c.Provide(func() string { return "a" }, dig.Group("g")))
	must(c.Provide(func() string { return "b" }, dig.Group("g")))
	var clientSaw []string
	must(c.Provide(func(i groupIn) *hunt2Client {
		clientSaw = append([]string(nil), i.Vs...)
		return &hunt2Client{}
	}))
	must(c.Decorate(func(i groupIn, cl *hunt2Client) groupOut {
		return groupOut{Vs: []string{"decorated"}}
	}))

	var got []string
	err := c.Invoke(func(cl *hunt2Client, i groupIn) { got = i.Vs })
	if err != nil {
		return
	}
	sort.Strings(clientSaw)
	if strings.Join(clientSaw, ",") != strings.Join(got, ",") {
		t.Errorf("Invoke succeeded, but the constructor of *hunt2Client received the group %v while the scope's group decorator returned %v", clientSaw, got)
	}
}

// C01 symptom of the same flaw: "No argument is ever ... a zero value standing
// in for a dependency that is available". The constructor of *hunt2Client runs
// successfully during the very Invoke that hands the zero value to the
// optional parameter asking for it; the next Invoke gets the cached value.
func TestHunt2OptionalGetsZeroWhileItsConstructorRan(t *testing.T) {
	type groupIn struct {
		dig.In
		Vs []string `group:"g"`
	}
	type groupOut struct {
		dig.Out
		Vs []string `group:"g"`
	}
	type missing struct{}
	type needsMissing struct{}
	type optIn struct {
		dig.In
		Client *hunt2Client `optional:"true"`
	}
	c := dig.New()
	must := func(err error) {
		t.Helper()
		if err != nil {
			t.Fatal(err)
		}
	}
	ran := 0
	must(c.Provide(func(i groupIn) *hunt2Client { ran++; return &hunt2Client{} }))
	must(c.Provide(func(*missing) *needsMissing { return nil }))
	must(c.Decorate(func(i groupIn, cl *hunt2Client, _ *needsMissing) groupOut {
		return groupOut{Vs: i.Vs}
	}))

	var first, second *hunt2Client
	err := c.Invoke(func(i optIn) { first = i.Client })
	if err != nil {
		return // reporting the failure is fine
	}
	if ran > 0 && first == nil {
		t.Errorf("Invoke succeeded with a nil optional *hunt2Client although its constructor ran successfully %d time(s) during that Invoke", ran)
	}
	must(c.Invoke(func(i optIn) { second = i.Client }))
	if (first == nil) != (second == nil) {
		t.Errorf("optional *hunt2Client: first Invoke got %v, an identical second Invoke got %v", first, second)
	}
}
