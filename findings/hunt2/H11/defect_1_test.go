package dig_test

// Defect 1 (C05, last clause: "a reported cycle path is a real closed path").
//
// When the depth-first search that finds the cycle enters it at a value group
// node (the consumer of the group was provided before the constructor that
// feeds the group), the reported path lists every constructor once and does
// not come back to its first entry: "X depends on A" instead of
// "X depends on A depends on X". The very same cycle is reported as a closed
// path when the two constructors are provided in the other order.

import (
	"strings"
	"testing"

	"go.uber.org/dig"
)

type hunt1A struct{}
type hunt1X struct{}

type hunt1In struct {
	dig.In

	Xs []*hunt1X `group:"g"`
}

func hunt1NewA(hunt1In) *hunt1A { return &hunt1A{} }
func hunt1NewX(*hunt1A) *hunt1X { return &hunt1X{} }

// hunt1Path returns the entries of the cycle path of a cycle error.
func hunt1Path(t *testing.T, err error) []string {
	t.Helper()
	if err == nil || !dig.IsCycleDetected(err) {
		t.Fatalf("expected a cycle error, got %v", err)
	}
	msg := err.Error()
	i := strings.LastIndex(msg, "cycle")
	j := strings.Index(msg[i:], ": ")
	if j < 0 {
		t.Fatalf("cannot parse %q", msg)
	}
	entries := strings.Split(msg[i+j+2:], "\n\tdepends on ")
	// keep the function type only
	for k, e := range entries {
		if p := strings.Index(e, " provided by "); p >= 0 {
			entries[k] = e[:p]
		}
	}
	return entries
}

func hunt1CheckClosed(t *testing.T, path []string) {
	t.Helper()
	if len(path) < 3 {
		t.Errorf("a cycle through two constructors needs three entries, got %d: %q", len(path), path)
	}
	if path[0] != path[len(path)-1] {
		t.Errorf("the reported cycle path is not closed: it starts at %q and ends at %q\nfull path: %q",
			path[0], path[len(path)-1], path)
	}
}

// Reference: feeder first, consumer second. The path is closed.
func TestHunt1CyclePathFeederFirst(t *testing.T) {
	c := dig.New()
	if err := c.Provide(hunt1NewX, dig.Group("g")); err != nil {
		t.Fatal(err)
	}
	err := c.Provide(hunt1NewA)
	hunt1CheckClosed(t, hunt1Path(t, err))
}

// Consumer of the group first, feeder second: the path is left open.
func TestHunt1CyclePathConsumerFirst(t *testing.T) {
	c := dig.New()
	if err := c.Provide(hunt1NewA); err != nil {
		t.Fatal(err)
	}
	err := c.Provide(hunt1NewX, dig.Group("g"))
	hunt1CheckClosed(t, hunt1Path(t, err))
}

// The same with DeferAcyclicVerification: the cycle is reported by Invoke.
func TestHunt1CyclePathConsumerFirstDeferred(t *testing.T) {
	c := dig.New(dig.DeferAcyclicVerification())
	if err := c.Provide(hunt1NewA); err != nil {
		t.Fatal(err)
	}
	if err := c.Provide(hunt1NewX, dig.Group("g")); err != nil {
		t.Fatal(err)
	}
	err := c.Invoke(func(*hunt1A) {})
	hunt1CheckClosed(t, hunt1Path(t, err))
}
