package dig_test

// Defect 4 (C05: "no history can make Invoke ... re-enter a constructor that
// is already being built"; also Provide's "called AT MOST ONCE").
//
// constructorNode.Call refuses to be entered again while it is building,
// unless a decorator was started in between (a decorator of one of its
// dependencies may consume its result while its ARGUMENTS are being built).
// The same exemption is applied while the constructor FUNCTION is running:
// if that function calls Invoke for a value whose decorator consumes the
// constructor's result, the constructor is entered again and its function runs
// a second time, nested inside the first run.

import (
	"testing"

	"go.uber.org/dig"
)

type hunt4A struct{ run int }
type hunt4B struct{ s string }

func TestHunt4ConstructorReenteredWhileRunning(t *testing.T) {
	c := dig.New()
	runs, depth, maxDepth := 0, 0, 0
	var innerErrs []error
	if err := c.Provide(func() *hunt4A {
		runs++
		depth++
		if depth > maxDepth {
			maxDepth = depth
		}
		defer func() { depth-- }()
		// a lazy lookup from inside a constructor
		innerErrs = append(innerErrs, c.Invoke(func(*hunt4B) {}))
		return &hunt4A{run: runs}
	}); err != nil {
		t.Fatal(err)
	}
	if err := c.Provide(func() *hunt4B { return &hunt4B{s: "b"} }); err != nil {
		t.Fatal(err)
	}
	if err := c.Decorate(func(b *hunt4B, a *hunt4A) *hunt4B { return &hunt4B{s: b.s + "'"} }); err != nil {
		t.Fatal(err)
	}

	err := c.Invoke(func(*hunt4A) {})
	if maxDepth > 1 {
		t.Errorf("the constructor of *hunt4A was re-entered while it was running (nesting depth %d)", maxDepth)
	}
	if runs != 1 {
		t.Errorf("the constructor of *hunt4A ran %d times (outer Invoke: %v, inner Invokes: %v)", runs, err, innerErrs)
	}
}

// Without the decorator the re-entry is refused, as the property demands.
func TestHunt4ReferenceWithoutDecorator(t *testing.T) {
	c := dig.New()
	runs := 0
	var inner error
	if err := c.Provide(func() *hunt4A {
		runs++
		inner = c.Invoke(func(*hunt4A) {})
		return &hunt4A{run: runs}
	}); err != nil {
		t.Fatal(err)
	}
	if err := c.Invoke(func(*hunt4A) {}); err != nil {
		t.Fatal(err)
	}
	if runs != 1 || !dig.IsCycleDetected(inner) {
		t.Errorf("runs=%d inner=%v", runs, inner)
	}
}
