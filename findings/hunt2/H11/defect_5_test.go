package dig_test

// Defect 5 (C16: "every order of the Provide ... calls inside the block ...
// yield ... the same wiring for every subsequent successful Invoke").
//
// No failure is involved here. The constructors of a value group are called in
// registration order; one of them consumes a soft value group that another
// one feeds. What the soft group holds when the first one runs depends on
// which of the two was provided first, so the very first Invoke of the
// container is wired differently in the two orders.
//
// (Weaker than the other findings: soft groups are documented as "populated
// with values from already-executed constructors" and the order in which
// constructors execute is documented as unspecified. The library itself
// already reorders the fields of a parameter object so that soft groups are
// built last, for exactly this reason.)

import (
	"fmt"
	"sort"
	"testing"

	"go.uber.org/dig"
)

type hunt5Soft struct {
	dig.In

	Names []string `group:"names,soft"`
}

type hunt5Out struct {
	dig.Out

	Value int    `group:"values"`
	Name  string `group:"names"`
}

type hunt5Values struct {
	dig.In

	Values []int `group:"values"`
}

func hunt5Run(t *testing.T, swap bool) string {
	c := dig.New()
	var seen string
	observer := func() error {
		return c.Provide(func(in hunt5Soft) int {
			names := append([]string(nil), in.Names...)
			sort.Strings(names)
			seen = fmt.Sprint(names)
			return 1
		}, dig.Group("values"))
	}
	feeder := func() error {
		return c.Provide(func() hunt5Out { return hunt5Out{Value: 2, Name: "feeder"} })
	}
	first, second := observer, feeder
	if swap {
		first, second = second, first
	}
	if err := first(); err != nil {
		t.Fatal(err)
	}
	if err := second(); err != nil {
		t.Fatal(err)
	}
	if err := c.Invoke(func(in hunt5Values) {
		if len(in.Values) != 2 {
			t.Errorf("expected two values, got %v", in.Values)
		}
	}); err != nil {
		t.Fatal(err)
	}
	return seen
}

func TestHunt5SoftGroupDependsOnProvideOrder(t *testing.T) {
	a := hunt5Run(t, false)
	b := hunt5Run(t, true)
	if a != b {
		t.Errorf("the soft group seen by a member of the value group depends on the order of two Provide calls: %s vs %s", a, b)
	}
}
