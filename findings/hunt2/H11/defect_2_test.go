package dig_test

// Defect 2 (C16: "every order of the Provide and Decorate calls inside the
// block ... yield the same verdict").
//
// A decorator may produce a value of a type that no constructor provides
// (findMissingDependencies explicitly supports "no providers but a decorated
// value"). The shallow dependency check however only knows about decorators
// that already RAN: a required parameter of such a type is reported missing
// until something else (an optional parameter) happened to trigger the
// decorator. With two members of one value group, the order in which the two
// constructors were registered therefore decides whether the first Invoke
// succeeds or fails.

import (
	"testing"

	"go.uber.org/dig"
)

type hunt2Cfg struct{ s string }

type hunt2Opt struct {
	dig.In

	Cfg *hunt2Cfg `optional:"true"`
}

type hunt2Group struct {
	dig.In

	Values []int `group:"g"`
}

func hunt2Run(t *testing.T, swap bool) error {
	c := dig.New()
	// replaces *hunt2Cfg completely; nobody provides it
	if err := c.Decorate(func() *hunt2Cfg { return &hunt2Cfg{s: "decorated"} }); err != nil {
		t.Fatal(err)
	}
	provideOptional := func() error {
		return c.Provide(func(in hunt2Opt) int { return 1 }, dig.Group("g"))
	}
	provideRequired := func() error {
		return c.Provide(func(cfg *hunt2Cfg) int { return 2 }, dig.Group("g"))
	}
	first, second := provideOptional, provideRequired
	if swap {
		first, second = second, first
	}
	if err := first(); err != nil {
		t.Fatal(err)
	}
	if err := second(); err != nil {
		t.Fatal(err)
	}
	return c.Invoke(func(in hunt2Group) {
		if len(in.Values) != 2 {
			t.Errorf("expected two values, got %v", in.Values)
		}
	})
}

func TestHunt2RegistrationOrderDecidesVerdict(t *testing.T) {
	errA := hunt2Run(t, false)
	errB := hunt2Run(t, true)
	if (errA == nil) != (errB == nil) {
		t.Errorf("the verdict of the same Invoke depends on the order of two Provide calls:\n"+
			"  optional consumer first: %v\n  required consumer first: %v", errA, errB)
	}
}

// The same asymmetry without value groups, as seen by one caller: the
// required parameter is "missing" until an optional one was asked for.
func TestHunt2FirstCallVersusSecondCall(t *testing.T) {
	c := dig.New()
	if err := c.Decorate(func() *hunt2Cfg { return &hunt2Cfg{s: "decorated"} }); err != nil {
		t.Fatal(err)
	}
	before := c.Invoke(func(*hunt2Cfg) {})
	if err := c.Invoke(func(hunt2Opt) {}); err != nil {
		t.Fatal(err)
	}
	after := c.Invoke(func(*hunt2Cfg) {})
	if (before == nil) != (after == nil) {
		t.Errorf("Invoke(func(*hunt2Cfg)) before an unrelated Invoke: %v; after it: %v", before, after)
	}
}
