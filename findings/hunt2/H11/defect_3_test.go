package dig_test

// Defect 3 (C16: "... yield the same verdict and the same wiring for every
// subsequent successful Invoke").
//
// paramGroupedSlice.callGroupProviders calls the constructors of a value group
// in registration order and stops at the first one that fails. Which of the
// group's constructors have run after a failed Invoke therefore depends on the
// order of the Provide calls, and later Invokes observe it.

import (
	"sort"
	"testing"

	"go.uber.org/dig"
)

type hunt3Missing struct{}

type hunt3Hard struct {
	dig.In

	Values []int `group:"g"`
}

type hunt3Soft struct {
	dig.In

	Values []int `group:"g,soft"`
}

func hunt3RunSoft(t *testing.T, swap bool) []int {
	c := dig.New()
	good := func() error { return c.Provide(func() int { return 1 }, dig.Group("g")) }
	bad := func() error { return c.Provide(func(*hunt3Missing) int { return 2 }, dig.Group("g")) }
	first, second := good, bad
	if swap {
		first, second = second, first
	}
	if err := first(); err != nil {
		t.Fatal(err)
	}
	if err := second(); err != nil {
		t.Fatal(err)
	}
	if err := c.Invoke(func(hunt3Hard) {}); err == nil {
		t.Fatal("expected the Invoke to fail: *hunt3Missing is not provided")
	}
	var got []int
	if err := c.Invoke(func(in hunt3Soft) { got = append(got, in.Values...) }); err != nil {
		t.Fatal(err)
	}
	sort.Ints(got)
	return got
}

// The wiring of a successful Invoke depends on the order of the two Provides.
func TestHunt3SoftGroupAfterFailedInvoke(t *testing.T) {
	a := hunt3RunSoft(t, false)
	b := hunt3RunSoft(t, true)
	if len(a) != len(b) {
		t.Errorf("soft group after a failed Invoke: %v when the working constructor is provided first, %v when it is provided second", a, b)
	}
}

// The verdict of an Invoke depends on the order of two Provides: no soft
// groups involved. The group "three" is fed by newR (which also builds *hunt3R)
// and by a constructor whose dependency is missing; the decorator of group
// "two", which newR consumes, consumes group "three".
type hunt3R struct{}

type hunt3RIn struct {
	dig.In

	Two []string `group:"two"`
}

type hunt3ROut struct {
	dig.Out

	R     *hunt3R
	Three int `group:"three"`
}

type hunt3DecIn struct {
	dig.In

	Two   []string `group:"two"`
	Three []int    `group:"three"`
}

type hunt3DecOut struct {
	dig.Out

	Two []string `group:"two"`
}

func hunt3RunVerdict(t *testing.T, swap bool) (first, second error) {
	c := dig.New()
	newR := func() error {
		return c.Provide(func(hunt3RIn) hunt3ROut { return hunt3ROut{R: &hunt3R{}, Three: 1} })
	}
	broken := func() error {
		return c.Provide(func(*hunt3Missing) int { return 2 }, dig.Group("three"))
	}
	p1, p2 := newR, broken
	if swap {
		p1, p2 = p2, p1
	}
	if err := p1(); err != nil {
		t.Fatal(err)
	}
	if err := p2(); err != nil {
		t.Fatal(err)
	}
	if err := c.Decorate(func(in hunt3DecIn) hunt3DecOut { return hunt3DecOut{Two: in.Two} }); err != nil {
		t.Fatal(err)
	}
	first = c.Invoke(func(*hunt3R) {})
	second = c.Invoke(func(*hunt3R) {})
	return first, second
}

func TestHunt3VerdictAfterFailedInvoke(t *testing.T) {
	a1, a2 := hunt3RunVerdict(t, false)
	b1, b2 := hunt3RunVerdict(t, true)
	if (a1 == nil) != (b1 == nil) {
		t.Errorf("first Invoke: %v vs %v", a1, b1)
	}
	if (a2 == nil) != (b2 == nil) {
		t.Errorf("the verdict of the second Invoke(func(*hunt3R)) depends on the order of two Provide calls:\n"+
			"  newR first:   %v\n  broken first: %v", a2, b2)
	}
}
