package dig_test

// Defect 2 (C14): Provide, Decorate and Invoke format the rejected
// non-function value itself with %v into the error message. For a value that
// contains itself (a perfectly legal Go value of a slice-of-interface or map
// type) fmt recurses without bound: the process dies with "fatal error: stack
// overflow", which cannot even be recovered. The property demands an error.
//
// The call is made in a child process because the crash is not recoverable.

import (
	"fmt"
	"os"
	"os/exec"
	"runtime/debug"
	"strings"
	"testing"

	"go.uber.org/dig"
)

type h2Items []interface{}

const h2Env = "DIG_HUNT2_CHILD"

func h2Child(mode string) {
	// Fail fast instead of growing the stack to the default 1 GB limit.
	debug.SetMaxStack(8 << 20)

	var v interface{}
	switch {
	case strings.HasSuffix(mode, "-map"):
		m := map[string]interface{}{}
		m["self"] = m
		v = m
	default:
		s := make(h2Items, 1)
		s[0] = s
		v = s
	}

	c := dig.New()
	var err error
	switch {
	case strings.HasPrefix(mode, "provide"):
		err = c.Provide(v)
	case strings.HasPrefix(mode, "decorate"):
		err = c.Decorate(v)
	case strings.HasPrefix(mode, "invoke"):
		err = c.Invoke(v)
	}
	if err == nil {
		fmt.Println("H2-NOERROR")
		os.Exit(3)
	}
	fmt.Println("H2-OK")
	os.Exit(0)
}

func TestHunt2SelfContainingNonFunctionValue(t *testing.T) {
	if mode := os.Getenv(h2Env); mode != "" {
		h2Child(mode)
		return
	}
	for _, mode := range []string{"provide", "decorate", "invoke", "provide-map"} {
		cmd := exec.Command(os.Args[0], "-test.run=^TestHunt2SelfContainingNonFunctionValue$")
		cmd.Env = append(os.Environ(), h2Env+"="+mode)
		out, err := cmd.CombinedOutput()
		if err != nil || !strings.Contains(string(out), "H2-OK") {
			text := string(out)
			if len(text) > 300 {
				text = text[:300] + "..."
			}
			t.Errorf("%s(value that contains itself) must return an error; the process ended with %v:\n%s", mode, err, text)
		}
	}
}
