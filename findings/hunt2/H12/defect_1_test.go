package dig_test

// Defect 1 (C06, also C14 "an input they reject changes nothing"):
// a rejected Decorate (and a rejected Invoke) whose function consumes a value
// group leaves a value-group node behind in the dependency graph of the target
// scope and of all its descendants. The stale node is visited first by every
// later cycle check, so a later operation reports a different error than it
// would have reported had the rejected call never been made.

import (
	"testing"

	"go.uber.org/dig"
)

type h1A struct{}
type h1B struct{}
type h1G struct{}
type h1X struct{}

type h1GroupIn struct {
	dig.In

	G []h1G `group:"g"`
}

type h1BOut struct {
	dig.Out

	B h1B
	G h1G `group:"g"`
}

// provides A from B
func h1NewA(h1B) h1A { return h1A{} }

// provides B (and feeds group "g") from A: closes the cycle A -> B -> A
func h1NewB(h1A) h1BOut { return h1BOut{} }

// h1Continuation runs the same continuation on a container and reports the
// text of the error of the Provide that closes the cycle.
func h1Continuation(t *testing.T, c interface {
	Provide(interface{}, ...dig.ProvideOption) error
}) string {
	t.Helper()
	if err := c.Provide(h1NewA); err != nil {
		t.Fatalf("Provide(h1NewA): %v", err)
	}
	err := c.Provide(h1NewB)
	if err == nil {
		t.Fatalf("Provide(h1NewB) must be rejected: it closes a cycle")
	}
	if !dig.IsCycleDetected(err) {
		t.Fatalf("expected a cycle error, got %v", err)
	}
	return err.Error()
}

func TestHunt1RejectedDecorateChangesLaterError(t *testing.T) {
	// Reference: the continuation on a container that never saw the call.
	want := h1Continuation(t, dig.New())

	c := dig.New()
	// Rejected: the decorator lists the same key twice.
	err := c.Decorate(func(h1GroupIn) (h1X, h1X) { return h1X{}, h1X{} })
	if err == nil {
		t.Fatal("Decorate must be rejected: h1X is decorated twice")
	}
	got := h1Continuation(t, c)
	if got != want {
		t.Errorf("a rejected Decorate changed the outcome of a later Provide\n--- never made:\n%s\n--- after the rejected Decorate:\n%s", want, got)
	}
}

func TestHunt1RejectedDecorateInParentChangesLaterErrorInChild(t *testing.T) {
	ref := dig.New()
	want := h1Continuation(t, ref.Scope("child"))

	c := dig.New()
	child := c.Scope("child")
	// Rejected for an unsuitable function: the second result is a dig.In.
	err := c.Decorate(func(h1GroupIn) (h1X, h1GroupIn) { return h1X{}, h1GroupIn{} })
	if err == nil {
		t.Fatal("Decorate must be rejected: it returns a parameter object")
	}
	// The continuation only touches the child scope.
	got := h1Continuation(t, child)
	if got != want {
		t.Errorf("a rejected Decorate changed the outcome of a later Provide\n--- never made:\n%s\n--- after the rejected Decorate:\n%s", want, got)
	}
}

func TestHunt1RejectedInvokeChangesLaterError(t *testing.T) {
	want := h1Continuation(t, dig.New())

	c := dig.New()
	// Rejected input: the second parameter is a pointer to a dig.In struct.
	err := c.Invoke(func(h1GroupIn, *h1GroupIn) {})
	if err == nil {
		t.Fatal("Invoke must reject a pointer to a parameter object")
	}
	got := h1Continuation(t, c)
	if got != want {
		t.Errorf("a rejected Invoke changed the outcome of a later Provide\n--- never made:\n%s\n--- after the rejected Invoke:\n%s", want, got)
	}
}
