package dig_test

// Defect 2 (C15): moving a group from the dig.Group option to the equivalent
// `group:".."` tag of a result object changes which registrations are
// accepted: the tag path (newResultGrouped) never looks at the type of the
// field, the option path (newResult) does.

import (
	"testing"

	"go.uber.org/dig"
)

type hunt2Dep struct{}

type hunt2Params struct {
	dig.In

	Dep *hunt2Dep `optional:"true"`
}

type hunt2Results struct {
	dig.Out

	Dep *hunt2Dep
}

type hunt2Err struct{}

func (*hunt2Err) Error() string { return "hunt2" }

func TestHunt2GroupOptionVersusGroupTag(t *testing.T) {
	type viaTagParams struct {
		dig.Out
		V hunt2Params `group:"g"`
	}
	type viaTagParamsPtr struct {
		dig.Out
		V *hunt2Params `group:"g"`
	}
	type viaTagResults struct {
		dig.Out
		V hunt2Results `group:"g"`
	}
	type viaTagResultsPtr struct {
		dig.Out
		V *hunt2Results `group:"g"`
	}
	type viaTagErr struct {
		dig.Out
		V *hunt2Err `group:"g"`
	}

	tests := []struct {
		desc      string
		viaOption interface{}
		viaTag    interface{}
	}{
		{
			desc:      "parameter object",
			viaOption: func() hunt2Params { return hunt2Params{} },
			viaTag:    func() viaTagParams { return viaTagParams{} },
		},
		{
			desc:      "pointer to parameter object",
			viaOption: func() *hunt2Params { return nil },
			viaTag:    func() viaTagParamsPtr { return viaTagParamsPtr{} },
		},
		{
			desc:      "result object",
			viaOption: func() hunt2Results { return hunt2Results{} },
			viaTag:    func() viaTagResults { return viaTagResults{} },
		},
		{
			desc:      "pointer to result object",
			viaOption: func() *hunt2Results { return nil },
			viaTag:    func() viaTagResultsPtr { return viaTagResultsPtr{} },
		},
		{
			desc:      "error implementation",
			viaOption: func() *hunt2Err { return nil },
			viaTag:    func() viaTagErr { return viaTagErr{} },
		},
	}

	for _, tt := range tests {
		t.Run(tt.desc, func(t *testing.T) {
			errOption := dig.New().Provide(tt.viaOption, dig.Group("g"))
			errTag := dig.New().Provide(tt.viaTag)
			if (errOption == nil) != (errTag == nil) {
				t.Errorf("dig.Group(\"g\") on %T: %v\n`group:\"g\"` tag on the equivalent result object %T: %v",
					tt.viaOption, errOption, tt.viaTag, errTag)
			}
		})
	}
}

// The plain (un-grouped, named or not) field of a result object goes through
// the same checks as the option path, only the group tag skips them.
func TestHunt2GroupTagVersusOtherFields(t *testing.T) {
	type plain struct {
		dig.Out
		V hunt2Results
	}
	type named struct {
		dig.Out
		V *hunt2Results `name:"n"`
	}
	type grouped struct {
		dig.Out
		V *hunt2Results `group:"g"`
	}
	errNamed := dig.New().Provide(func() named { return named{} })
	errGrouped := dig.New().Provide(func() grouped { return grouped{} })
	if errNamed == nil {
		t.Fatalf("a pointer to a result object was accepted as a named result")
	}
	if errGrouped == nil {
		t.Errorf("a pointer to a result object is rejected as a plain or named field (%v) but accepted as a group field", errNamed)
	}
	_ = plain{}
}
