package dig_test

// Defect 1 (C15): a soft value group receives different members depending on
// whether it is declared as a direct field of the function's parameter
// object, in a nested parameter object, or in a separate positional
// parameter object.

import (
	"testing"

	"go.uber.org/dig"
)

type hunt1Logger struct{}
type hunt1Handler struct{ name string }

// The constructor of the logger also feeds the "handlers" group, exactly as
// in the documentation of soft value groups.
type hunt1LoggerAndHandler struct {
	dig.Out

	Logger  *hunt1Logger
	Handler *hunt1Handler `group:"handlers"`
}

// Encoding 1: everything at depth 1.
type hunt1Flat struct {
	dig.In

	Handlers []*hunt1Handler `group:"handlers,soft"`
	Logger   *hunt1Logger
}

// Encoding 2: the group one level down.
type hunt1Groups struct {
	dig.In

	Handlers []*hunt1Handler `group:"handlers,soft"`
}

type hunt1Nested struct {
	dig.In

	Groups hunt1Groups
	Logger *hunt1Logger
}

func hunt1Container(t *testing.T) (*dig.Container, *int) {
	c := dig.New()
	runs := new(int)
	err := c.Provide(func() hunt1LoggerAndHandler {
		*runs++
		return hunt1LoggerAndHandler{Logger: &hunt1Logger{}, Handler: &hunt1Handler{"h"}}
	})
	if err != nil {
		t.Fatal(err)
	}
	return c, runs
}

func TestHunt1SoftGroupDependsOnNestingDepth(t *testing.T) {
	var flat, nested, positional = -1, -1, -1

	c, runs := hunt1Container(t)
	if err := c.Invoke(func(p hunt1Flat) { flat = len(p.Handlers) }); err != nil {
		t.Fatal(err)
	}
	if *runs != 1 {
		t.Fatalf("constructor ran %d times", *runs)
	}

	c, runs = hunt1Container(t)
	if err := c.Invoke(func(p hunt1Nested) { nested = len(p.Groups.Handlers) }); err != nil {
		t.Fatal(err)
	}
	if *runs != 1 {
		t.Fatalf("constructor ran %d times", *runs)
	}

	// Encoding 3: the logger as a positional parameter next to the
	// parameter object.
	c, runs = hunt1Container(t)
	if err := c.Invoke(func(g hunt1Groups, l *hunt1Logger) { positional = len(g.Handlers) }); err != nil {
		t.Fatal(err)
	}
	if *runs != 1 {
		t.Fatalf("constructor ran %d times", *runs)
	}

	if flat != 1 {
		t.Errorf("flat parameter object: got %d handlers, want 1 (documented behaviour of soft groups)", flat)
	}
	if nested != flat {
		t.Errorf("the same function with the group in a nested dig.In got %d handlers, the flat one %d", nested, flat)
	}
	if positional != flat {
		t.Errorf("the same function with the logger as a positional parameter got %d handlers, the flat one %d", positional, flat)
	}
}

// The same for the parameters of a constructor.
func TestHunt1SoftGroupInConstructor(t *testing.T) {
	type server struct{ handlers int }

	build := func(ctor interface{}) int {
		c, _ := hunt1Container(t)
		if err := c.Provide(ctor); err != nil {
			t.Fatal(err)
		}
		var got int
		if err := c.Invoke(func(s *server) { got = s.handlers }); err != nil {
			t.Fatal(err)
		}
		return got
	}

	flat := build(func(p hunt1Flat) *server { return &server{len(p.Handlers)} })
	nested := build(func(p hunt1Nested) *server { return &server{len(p.Groups.Handlers)} })
	if flat != nested {
		t.Errorf("flat dig.In: %d handlers, nested dig.In: %d handlers", flat, nested)
	}
}
