package dig_test

// Defect 2 (property C03, clause "Invoke executes ... constructors ...
// reachable ... through ... non-soft value groups ... when Invoke succeeds
// every not-yet-built constructor in that closure has run", "every choice of
// invoking scope").
//
// When an ancestor scope decorates a value group, a consumer in a descendant
// scope receives the ancestor's decorated slice and nothing else:
// paramGroupedSlice.Build returns as soon as getDecoratedValues finds a
// decorated group in ANY enclosing scope. The group's constructors that were
// provided to the scopes BELOW the decorating scope - which the decorator
// cannot see and therefore did not replace - are never run, although they feed
// a non-soft group parameter of the invoked function, and their values are
// silently dropped. Without the decorator, or with the decorator in the same
// scope as the constructors, they run.

import (
	"sort"
	"testing"

	"go.uber.org/dig"
)

type hunt2In struct {
	dig.In

	Routes []string `group:"routes"`
}

type hunt2Out struct {
	dig.Out

	Routes []string `group:"routes"`
}

func hunt2Decorator(in hunt2In) hunt2Out {
	var out []string
	for _, r := range in.Routes {
		out = append(out, "/v1"+r)
	}
	return hunt2Out{Routes: out}
}

// Control: no decorator. The child's constructor runs and its value arrives.
func TestHunt2ControlNoDecorator(t *testing.T) {
	root := dig.New()
	if err := root.Provide(func() string { return "/root" }, dig.Group("routes")); err != nil {
		t.Fatal(err)
	}
	child := root.Scope("child")
	childRan := false
	if err := child.Provide(func() string { childRan = true; return "/child" }, dig.Group("routes")); err != nil {
		t.Fatal(err)
	}
	var got []string
	if err := child.Invoke(func(in hunt2In) { got = in.Routes }); err != nil {
		t.Fatal(err)
	}
	sort.Strings(got)
	if !childRan || len(got) != 2 {
		t.Fatalf("childRan=%v routes=%v", childRan, got)
	}
}

func TestHunt2ParentDecoratedGroupSkipsChildConstructors(t *testing.T) {
	root := dig.New()
	if err := root.Provide(func() string { return "/root" }, dig.Group("routes")); err != nil {
		t.Fatal(err)
	}
	if err := root.Decorate(hunt2Decorator); err != nil {
		t.Fatal(err)
	}
	child := root.Scope("child")
	childRan := false
	if err := child.Provide(func() string { childRan = true; return "/child" }, dig.Group("routes")); err != nil {
		t.Fatal(err)
	}

	var got []string
	if err := child.Invoke(func(in hunt2In) { got = in.Routes }); err != nil {
		t.Fatal(err)
	}
	sort.Strings(got)
	if !childRan {
		t.Errorf("Invoke succeeded in the child scope with a non-soft group parameter, "+
			"but the child scope's constructor for that group never ran (routes = %v)", got)
	}
	found := false
	for _, r := range got {
		if r == "/child" {
			found = true
		}
	}
	if !found {
		t.Errorf("routes = %v: the member provided to the child scope is missing", got)
	}
}

// The same through a constructor of the child scope that consumes the group,
// two levels below the decorating scope, and with the decorator registered
// after the constructors.
func TestHunt2GrandchildConstructorConsumer(t *testing.T) {
	type router struct{ routes []string }

	root := dig.New()
	mid := root.Scope("mid")
	leaf := mid.Scope("leaf")

	ran := map[string]bool{}
	if err := root.Provide(func() string { ran["root"] = true; return "/root" }, dig.Group("routes")); err != nil {
		t.Fatal(err)
	}
	if err := mid.Provide(func() string { ran["mid"] = true; return "/mid" }, dig.Group("routes")); err != nil {
		t.Fatal(err)
	}
	if err := leaf.Provide(func() string { ran["leaf"] = true; return "/leaf" }, dig.Group("routes")); err != nil {
		t.Fatal(err)
	}
	if err := leaf.Provide(func(in hunt2In) *router { return &router{routes: in.Routes} }); err != nil {
		t.Fatal(err)
	}
	if err := root.Decorate(hunt2Decorator); err != nil {
		t.Fatal(err)
	}

	var got []string
	if err := leaf.Invoke(func(r *router) { got = r.routes }); err != nil {
		t.Fatal(err)
	}
	sort.Strings(got)
	if !ran["mid"] || !ran["leaf"] {
		t.Errorf("constructors run: %v; the group constructors of the scopes below the decorating scope "+
			"belong to the closure of the Invoke and must have run (routes = %v)", ran, got)
	}
}
