package dig_test

// Defect 3 (property C03, clause "Invoke executes only constructors and
// decorators reachable from the invoked function's parameters through required
// dependencies, optional dependencies THAT HAVE A CONSTRUCTOR, and non-soft
// value groups").
//
// paramSingle.Build asks the decorators of the enclosing scopes first and only
// afterwards looks for a constructor. For an optional parameter whose type
// nothing provides, a decorator registered for that type is therefore executed
// (user code runs through an optional dependency that has no constructor), and
// the parameter receives the decorator's result. The sibling path - the same
// parameter without `optional` - does not consider the decorator at all and
// reports "missing type". The outcome of later Invokes then depends on whether
// an optional consumer happened to run first.

import (
	"strings"
	"testing"

	"go.uber.org/dig"
)

type hunt3Logger struct{ name string }

type hunt3Optional struct {
	dig.In

	Logger *hunt3Logger `optional:"true"`
}

func TestHunt3OptionalWithoutConstructorRunsDecorator(t *testing.T) {
	c := dig.New()
	decoratorRan := 0
	// Nothing provides *hunt3Logger. (Decorate accepts the function.)
	if err := c.Decorate(func() *hunt3Logger { decoratorRan++; return &hunt3Logger{name: "decorated"} }); err != nil {
		t.Fatal(err)
	}

	// Control, required dependency: dig does not run the decorator, the
	// type is simply missing.
	err := c.Invoke(func(*hunt3Logger) {})
	if err == nil || !strings.Contains(err.Error(), "missing type") {
		t.Fatalf("required parameter: expected a missing type error, got %v", err)
	}
	if decoratorRan != 0 {
		t.Fatalf("required parameter: decorator ran %d times", decoratorRan)
	}

	// Optional dependency without a constructor: nothing may be executed
	// on its behalf and the parameter is the zero value.
	var got *hunt3Logger
	if err := c.Invoke(func(p hunt3Optional) { got = p.Logger }); err != nil {
		t.Fatal(err)
	}
	if decoratorRan != 0 {
		t.Errorf("Invoke executed a decorator through an optional dependency that has no constructor (ran %d times)", decoratorRan)
	}
	if got != nil {
		t.Errorf("optional parameter without a constructor = %+v, want nil", got)
	}

	// The required consumer is still unsatisfied: its outcome must not
	// depend on an optional consumer having been invoked before.
	if err := c.Invoke(func(*hunt3Logger) {}); err == nil {
		t.Errorf("the Invoke that failed with a missing type before now succeeds")
	}
}

// Same from a child scope, decorator in the parent, and through the parameter
// object of a constructor.
func TestHunt3ChildScopeConstructorParameter(t *testing.T) {
	type service struct{ logger *hunt3Logger }

	c := dig.New()
	decoratorRan := 0
	if err := c.Decorate(func() *hunt3Logger { decoratorRan++; return &hunt3Logger{} }); err != nil {
		t.Fatal(err)
	}
	child := c.Scope("child")
	if err := child.Provide(func(p hunt3Optional) *service { return &service{logger: p.Logger} }); err != nil {
		t.Fatal(err)
	}
	if err := child.Invoke(func(s *service) {
		if s.logger != nil {
			t.Errorf("optional dependency without a constructor = %+v, want nil", s.logger)
		}
	}); err != nil {
		t.Fatal(err)
	}
	if decoratorRan != 0 {
		t.Errorf("decorator ran %d times although no constructor provides the optional type", decoratorRan)
	}
}
