package dig_test

// Defect 5 (property C03: "for every finite history of Scope / Provide /
// Decorate / Invoke calls on one container tree, over every dependency-graph
// shape ... Invoke ... runs every dependency to completion before the function
// that consumes it"): Invoke never returns, the process dies with
// "fatal error: stack overflow" (not a panic: RecoverFromPanics and recover()
// do not help).
//
// A dependency cycle that no single scope's view of the graph contains (it
// runs through constructors exported from two sibling scopes and through their
// private constructors) is not seen by graph verification; it is caught when
// constructors are built, by constructorNode.Call:
//
//	if n.building && n.buildingSince == root.decoratorsStarted { cycle }
//
// i.e. re-entering a constructor that is being built is legitimate if any
// decorator was STARTED since. decoratorsStarted is never decremented and a
// decorator that fails goes back to decoratorReady, so it is started again on
// every lap. If one lap of the cycle contains an optional parameter whose
// constructor needs a value whose decorator lacks a dependency (the missing
// dependency is swallowed by `optional`), every lap increments the counter,
// every re-entry looks legitimate, and the recursion never ends.
//
// No user function is ever executed in this history.

import (
	"os"
	"os/exec"
	"runtime/debug"
	"strings"
	"testing"

	"go.uber.org/dig"
)

type (
	hunt5X struct{}
	hunt5Y struct{}
	hunt5T struct{}
	hunt5U struct{}
	hunt5P struct{}
	hunt5Q struct{}
	hunt5M struct{} // never provided
)

type hunt5XParams struct {
	dig.In

	P *hunt5P `optional:"true"`
	T *hunt5T
}

func hunt5Scenario() error {
	root := dig.New()
	c1 := root.Scope("c1")
	c2 := root.Scope("c2")

	for _, err := range []error{
		// An optional extra: P needs Q, Q's decorator needs M, nothing
		// provides M. Each attempt to build P starts the decorator, fails
		// with missing dependencies, and P is left nil.
		root.Provide(func() *hunt5Q { return &hunt5Q{} }),
		root.Provide(func(*hunt5Q) *hunt5P { return &hunt5P{} }),
		root.Decorate(func(q *hunt5Q, _ *hunt5M) *hunt5Q { return q }),

		// The cycle X -> T -> Y -> U -> X. T is private to c1 and U is
		// private to c2, so neither root, c1 nor c2 sees all four edges.
		c1.Provide(func(hunt5XParams) *hunt5X { return &hunt5X{} }, dig.Export(true)),
		c1.Provide(func(*hunt5Y) *hunt5T { return &hunt5T{} }),
		c2.Provide(func(*hunt5U) *hunt5Y { return &hunt5Y{} }, dig.Export(true)),
		c2.Provide(func(*hunt5X) *hunt5U { return &hunt5U{} }),
	} {
		if err != nil {
			return err // not expected: every registration is accepted
		}
	}
	return root.Invoke(func(*hunt5X) {})
}

const hunt5Env = "DIG_HUNT5_CHILD"

func TestHunt5CycleAcrossScopesWithFailingDecoratorOverflowsStack(t *testing.T) {
	if os.Getenv(hunt5Env) == "1" {
		// Child process: run the history. Keep the crash small and fast.
		debug.SetMaxStack(32 << 20)
		err := hunt5Scenario()
		if err == nil {
			os.Stdout.WriteString("HUNT5 RESULT: nil\n")
		} else {
			os.Stdout.WriteString("HUNT5 RESULT: " + strings.ReplaceAll(err.Error(), "\n", " ") + "\n")
		}
		return
	}

	cmd := exec.Command(os.Args[0], "-test.run=^TestHunt5CycleAcrossScopesWithFailingDecoratorOverflowsStack$")
	cmd.Env = append(os.Environ(), hunt5Env+"=1")
	out, err := cmd.CombinedOutput()
	text := string(out)
	if i := strings.Index(text, "HUNT5 RESULT: "); i >= 0 && err == nil {
		res := text[i:]
		if j := strings.IndexByte(res, '\n'); j >= 0 {
			res = res[:j]
		}
		if !strings.Contains(res, "cycle") {
			t.Errorf("Invoke returned, but did not report the dependency cycle: %s", res)
		}
		return
	}
	first := text
	if len(first) > 400 {
		first = first[:400] + "..."
	}
	t.Fatalf("Invoke did not return: the process running it died (%v):\n%s", err, first)
}

// Control: without the optional extra the very same cycle is reported as an
// error (this is what the earlier fix for cross-scope cycles achieves).
func TestHunt5ControlCycleIsReportedWithoutTheDecorator(t *testing.T) {
	root := dig.New()
	c1 := root.Scope("c1")
	c2 := root.Scope("c2")
	for _, err := range []error{
		c1.Provide(func(*hunt5T) *hunt5X { return &hunt5X{} }, dig.Export(true)),
		c1.Provide(func(*hunt5Y) *hunt5T { return &hunt5T{} }),
		c2.Provide(func(*hunt5U) *hunt5Y { return &hunt5Y{} }, dig.Export(true)),
		c2.Provide(func(*hunt5X) *hunt5U { return &hunt5U{} }),
	} {
		if err != nil {
			t.Fatal(err)
		}
	}
	err := root.Invoke(func(*hunt5X) {})
	if err == nil || !strings.Contains(err.Error(), "cycle") {
		t.Fatalf("expected a cycle error, got %v", err)
	}
}
