package dig_test

// Defect 1 (property C11, clause "it always contains all members ... from
// constructors required by the other fields of the same parameter object",
// "in every field order inside parameter objects").
//
// paramObject.Build postpones the soft value groups of ONE level of a
// parameter object only. A soft group that sits in a nested (or embedded)
// dig.In struct is built when that nested struct is reached, i.e. before the
// fields that follow it in the enclosing parameter object, so it misses the
// members contributed by the constructors those fields require.

import (
	"testing"

	"go.uber.org/dig"
)

type hunt1Server struct{ name string }

// hunt1Result is what one multi-result constructor provides: an ordinary
// value and a member of the value group "handlers".
type hunt1Result struct {
	dig.Out

	Server  *hunt1Server
	Handler string `group:"handlers"`
}

func hunt1Container(t *testing.T, ran *int) *dig.Container {
	c := dig.New()
	err := c.Provide(func() hunt1Result {
		*ran++
		return hunt1Result{Server: &hunt1Server{name: "srv"}, Handler: "h1"}
	})
	if err != nil {
		t.Fatal(err)
	}
	return c
}

// Control: soft group and the ordinary dependency are direct fields of the
// same dig.In struct, group declared first. This works.
func TestHunt1ControlFlatFieldOrder(t *testing.T) {
	type params struct {
		dig.In

		Handlers []string `group:"handlers,soft"`
		Server   *hunt1Server
	}
	ran := 0
	c := hunt1Container(t, &ran)
	err := c.Invoke(func(p params) {
		if len(p.Handlers) != 1 || p.Handlers[0] != "h1" {
			t.Errorf("soft group = %v, want [h1]", p.Handlers)
		}
	})
	if err != nil {
		t.Fatal(err)
	}
}

// The soft group lives in an embedded dig.In struct (a common way to share a
// set of parameters). For Go, Handlers and Server are both fields of params.
func TestHunt1SoftGroupInEmbeddedParameterObject(t *testing.T) {
	type Common struct {
		dig.In

		Handlers []string `group:"handlers,soft"`
	}
	type params struct {
		Common

		Server *hunt1Server
	}
	ran := 0
	c := hunt1Container(t, &ran)
	err := c.Invoke(func(p params) {
		if ran != 1 {
			t.Fatalf("constructor ran %d times, want 1 (required by the Server field)", ran)
		}
		if len(p.Handlers) != 1 || p.Handlers[0] != "h1" {
			t.Errorf("soft group = %v, want [h1]: the constructor required by the Server field "+
				"of the same parameter object has run and contributed h1", p.Handlers)
		}
	})
	if err != nil {
		t.Fatal(err)
	}
}

// Same with a named nested parameter object declared before the field that
// needs the constructor.
func TestHunt1SoftGroupInNestedParameterObject(t *testing.T) {
	type inner struct {
		dig.In

		Handlers []string `group:"handlers,soft"`
	}
	type params struct {
		dig.In

		Inner  inner
		Server *hunt1Server
	}
	ran := 0
	c := hunt1Container(t, &ran)
	err := c.Invoke(func(p params) {
		if len(p.Inner.Handlers) != 1 || p.Inner.Handlers[0] != "h1" {
			t.Errorf("soft group = %v, want [h1]", p.Inner.Handlers)
		}
	})
	if err != nil {
		t.Fatal(err)
	}
}

// The field order must not matter: with the nested object declared last the
// group is complete today, declared first it is not.
func TestHunt1FieldOrderChangesSoftGroup(t *testing.T) {
	type inner struct {
		dig.In

		Handlers []string `group:"handlers,soft"`
	}
	type first struct {
		dig.In

		Inner  inner
		Server *hunt1Server
	}
	type last struct {
		dig.In

		Server *hunt1Server
		Inner  inner
	}
	var gotFirst, gotLast []string
	ran := 0
	if err := hunt1Container(t, &ran).Invoke(func(p first) { gotFirst = p.Inner.Handlers }); err != nil {
		t.Fatal(err)
	}
	if err := hunt1Container(t, &ran).Invoke(func(p last) { gotLast = p.Inner.Handlers }); err != nil {
		t.Fatal(err)
	}
	if len(gotFirst) != len(gotLast) {
		t.Errorf("soft group depends on the field order: nested object first %v, nested object last %v", gotFirst, gotLast)
	}
}

// The same happens for a constructor's parameter object, not only for the
// invoked function.
func TestHunt1ConstructorParameterObject(t *testing.T) {
	type Common struct {
		dig.In

		Handlers []string `group:"handlers,soft"`
	}
	type params struct {
		Common

		Server *hunt1Server
	}
	type app struct{ handlers []string }
	ran := 0
	c := hunt1Container(t, &ran)
	if err := c.Provide(func(p params) *app { return &app{handlers: p.Handlers} }); err != nil {
		t.Fatal(err)
	}
	err := c.Invoke(func(a *app) {
		if len(a.handlers) != 1 {
			t.Errorf("soft group seen by the constructor = %v, want [h1]", a.handlers)
		}
	})
	if err != nil {
		t.Fatal(err)
	}
}
