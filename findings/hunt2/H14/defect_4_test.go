package dig_test

// Defect 4 (property C03, clauses "Invoke executes only constructors and
// decorators reachable from the invoked function's parameters through required
// dependencies", "when Invoke succeeds every not-yet-built constructor in that
// closure has run", quantified over "all constructors that are registered but
// NOT needed, in every scope", "every choice of invoking scope").
//
// A Scope may provide a type its parent provides as well; consumers in that
// Scope then depend on the Scope's own constructor (paramSingle.Build: "Starting
// at the given container and working our way up its parents, find one that
// provides this dependency"). As soon as an ancestor scope decorates the type,
// paramSingle.Build takes the ancestor's decorator first
// (buildWithDecorators walks ALL enclosing scopes before any provider is
// looked at): the ancestor's constructor - shadowed, not needed by this
// Invoke - and the ancestor's decorator are executed, the Scope's own
// constructor - the one the parameter depends on - never runs, and the
// consumer silently gets the other value. This is the single-value sibling
// of defect 2.

import (
	"testing"

	"go.uber.org/dig"
)

type hunt4Config struct{ from string }

// Control: no decorator anywhere. The child's constructor shadows the root's.
func TestHunt4ControlShadowing(t *testing.T) {
	root := dig.New()
	rootRan, childRan := 0, 0
	if err := root.Provide(func() *hunt4Config { rootRan++; return &hunt4Config{from: "root"} }); err != nil {
		t.Fatal(err)
	}
	child := root.Scope("child")
	if err := child.Provide(func() *hunt4Config { childRan++; return &hunt4Config{from: "child"} }); err != nil {
		t.Fatal(err)
	}
	var got string
	if err := child.Invoke(func(c *hunt4Config) { got = c.from }); err != nil {
		t.Fatal(err)
	}
	if got != "child" || childRan != 1 || rootRan != 0 {
		t.Fatalf("got %q, childRan=%d rootRan=%d", got, childRan, rootRan)
	}
}

func TestHunt4AncestorDecoratorRunsShadowedConstructor(t *testing.T) {
	root := dig.New()
	rootRan, childRan, decRan := 0, 0, 0
	if err := root.Provide(func() *hunt4Config { rootRan++; return &hunt4Config{from: "root"} }); err != nil {
		t.Fatal(err)
	}
	if err := root.Decorate(func(c *hunt4Config) *hunt4Config {
		decRan++
		return &hunt4Config{from: c.from + "+decorated"}
	}); err != nil {
		t.Fatal(err)
	}
	child := root.Scope("child")
	if err := child.Provide(func() *hunt4Config { childRan++; return &hunt4Config{from: "child"} }); err != nil {
		t.Fatal(err)
	}

	var got string
	if err := child.Invoke(func(c *hunt4Config) { got = c.from }); err != nil {
		t.Fatal(err)
	}
	if childRan != 1 {
		t.Errorf("Invoke succeeded in the child scope but the child scope's constructor of its "+
			"required dependency ran %d times (value received: %q)", childRan, got)
	}
	if rootRan != 0 {
		t.Errorf("the root's constructor, shadowed in the child scope and not needed by this Invoke, ran %d times", rootRan)
	}
	if got != "child" {
		t.Errorf("received %q, want the value of the child scope's own constructor", got)
	}
	_ = decRan
}

// Same when the consumer is a constructor of the child scope, invoked from a
// grandchild.
func TestHunt4ThroughConstructorOfTheShadowingScope(t *testing.T) {
	type service struct{ cfg string }

	root := dig.New()
	ran := map[string]int{}
	if err := root.Provide(func() *hunt4Config { ran["root"]++; return &hunt4Config{from: "root"} }); err != nil {
		t.Fatal(err)
	}
	child := root.Scope("child")
	if err := child.Provide(func() *hunt4Config { ran["child"]++; return &hunt4Config{from: "child"} }); err != nil {
		t.Fatal(err)
	}
	if err := child.Provide(func(c *hunt4Config) *service { return &service{cfg: c.from} }); err != nil {
		t.Fatal(err)
	}
	grandchild := child.Scope("grandchild")
	// decorator registered last
	if err := root.Decorate(func(c *hunt4Config) *hunt4Config {
		ran["decorator"]++
		return &hunt4Config{from: "decorated " + c.from}
	}); err != nil {
		t.Fatal(err)
	}

	var got string
	if err := grandchild.Invoke(func(s *service) { got = s.cfg }); err != nil {
		t.Fatal(err)
	}
	if ran["child"] != 1 || ran["root"] != 0 {
		t.Errorf("constructors run: %v (service built with %q); want the child scope's constructor and not the root's", ran, got)
	}
}
