package dig_test

// Defect 3 (C20, "a callback registered with WithProviderCallback or
// WithDecoratorCallback is called exactly once after each execution of its
// function") - borderline, see REPORT.md.
//
// Provide and Decorate accept any number of options. When two callbacks are
// registered for the same function, both registrations are accepted without
// an error, but only the last one is kept: the first callback is silently
// dropped and is never called although its function is executed.

import (
	"testing"

	"go.uber.org/dig"
)

type hunt3A struct{}

func TestHunt3SecondProviderCallbackReplacesFirst(t *testing.T) {
	c := dig.New()
	var first, second int
	err := c.Provide(
		func() *hunt3A { return &hunt3A{} },
		dig.WithProviderCallback(func(dig.CallbackInfo) { first++ }),
		dig.WithProviderCallback(func(dig.CallbackInfo) { second++ }),
	)
	if err != nil {
		t.Skipf("registration rejected (that would be fine too): %v", err)
	}
	if err := c.Invoke(func(*hunt3A) {}); err != nil {
		t.Fatal(err)
	}
	if first != 1 || second != 1 {
		t.Errorf("constructor executed once: first callback called %d times, second %d times; want 1 and 1", first, second)
	}
}

func TestHunt3SecondDecoratorCallbackReplacesFirst(t *testing.T) {
	c := dig.New()
	var first, second int
	if err := c.Provide(func() *hunt3A { return &hunt3A{} }); err != nil {
		t.Fatal(err)
	}
	err := c.Decorate(
		func(a *hunt3A) *hunt3A { return a },
		dig.WithDecoratorCallback(func(dig.CallbackInfo) { first++ }),
		dig.WithDecoratorCallback(func(dig.CallbackInfo) { second++ }),
	)
	if err != nil {
		t.Skipf("registration rejected (that would be fine too): %v", err)
	}
	if err := c.Invoke(func(*hunt3A) {}); err != nil {
		t.Fatal(err)
	}
	if first != 1 || second != 1 {
		t.Errorf("decorator executed once: first callback called %d times, second %d times; want 1 and 1", first, second)
	}
}
