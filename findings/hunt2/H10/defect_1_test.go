package dig_test

// Defect 1 (C20, "Callbacks fire once per execution with the true outcome").
//
// Without dig.RecoverFromPanics, a constructor or decorator that panics makes
// its callback fire with CallbackInfo.Error == nil: the callback is told that
// the function succeeded while the function in fact never returned and the
// panic is on its way to the caller of Invoke.

import (
	"testing"

	"go.uber.org/dig"
)

type hunt1A struct{}

func hunt1Invoke(c *dig.Container, f interface{}) (err error, panicked interface{}) {
	defer func() { panicked = recover() }()
	err = c.Invoke(f)
	return
}

func TestHunt1ConstructorPanicCallbackReportsSuccess(t *testing.T) {
	c := dig.New() // RecoverFromPanics is off
	var infos []dig.CallbackInfo
	err := c.Provide(
		func() *hunt1A { panic("boom") },
		dig.WithProviderCallback(func(ci dig.CallbackInfo) { infos = append(infos, ci) }),
	)
	if err != nil {
		t.Fatal(err)
	}

	_, p := hunt1Invoke(c, func(*hunt1A) {})
	if p != "boom" {
		t.Fatalf("the panic must reach the caller of Invoke when RecoverFromPanics is off, got %v", p)
	}
	if len(infos) != 1 {
		t.Fatalf("want exactly one callback for one execution, got %d", len(infos))
	}
	if infos[0].Error == nil {
		t.Errorf("the constructor panicked, but its callback was told it succeeded (Error == nil)")
	}
}

func TestHunt1DecoratorPanicCallbackReportsSuccess(t *testing.T) {
	c := dig.New() // RecoverFromPanics is off
	var infos []dig.CallbackInfo
	if err := c.Provide(func() *hunt1A { return &hunt1A{} }); err != nil {
		t.Fatal(err)
	}
	err := c.Decorate(
		func(*hunt1A) *hunt1A { panic("boom") },
		dig.WithDecoratorCallback(func(ci dig.CallbackInfo) { infos = append(infos, ci) }),
	)
	if err != nil {
		t.Fatal(err)
	}

	_, p := hunt1Invoke(c, func(*hunt1A) {})
	if p != "boom" {
		t.Fatalf("the panic must reach the caller of Invoke when RecoverFromPanics is off, got %v", p)
	}
	if len(infos) != 1 {
		t.Fatalf("want exactly one callback for one execution, got %d", len(infos))
	}
	if infos[0].Error == nil {
		t.Errorf("the decorator panicked, but its callback was told it succeeded (Error == nil)")
	}
}
