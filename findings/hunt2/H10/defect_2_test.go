package dig_test

// Defect 2 (C02, "a constructor ... is never executed again and is never
// entered while it is already being built").
//
// constructorNode.Call refuses to enter a constructor that is being built
// ("cycle detected") unless a decorator was started in the meantime; that
// exception exists for a decorator of one of the constructor's *arguments*
// that consumes the constructor's result, i.e. for the phase in which the
// arguments are being built. The same exception is applied while the
// constructor function itself is RUNNING. A constructor that demands, through
// a nested Invoke, a value whose decorator depends on the constructor's own
// result is therefore entered a second time while its first execution is
// still on the stack: it runs twice, and two different instances of its
// result are handed out.
//
// Without the decorator in the path the very same nested Invoke is answered
// with "cycle detected in dependency graph" and the constructor runs once.

import (
	"testing"

	"go.uber.org/dig"
)

type (
	hunt2A struct{ exec int }
	hunt2K struct{ a *hunt2A }
)

func TestHunt2ConstructorEnteredWhileRunning(t *testing.T) {
	c := dig.New()

	var (
		execs, depth, maxDepth int
		nestedErr              error
	)
	newA := func() *hunt2A {
		execs++
		me := execs
		depth++
		defer func() { depth-- }()
		if depth > maxDepth {
			maxDepth = depth
		}
		if me == 1 {
			// Lazily initialise something that needs K (legal: Invoke may be
			// called at any time). K's decorator needs A.
			nestedErr = c.Invoke(func(*hunt2K) {})
		}
		return &hunt2A{exec: me}
	}
	if err := c.Provide(newA); err != nil {
		t.Fatal(err)
	}
	if err := c.Provide(func() *hunt2K { return &hunt2K{} }); err != nil {
		t.Fatal(err)
	}
	// The decorator of K consumes A.
	if err := c.Decorate(func(k *hunt2K, a *hunt2A) *hunt2K { return &hunt2K{a: a} }); err != nil {
		t.Fatal(err)
	}

	var gotA *hunt2A
	var gotK *hunt2K
	errA := c.Invoke(func(a *hunt2A) { gotA = a })
	errK := c.Invoke(func(k *hunt2K) { gotK = k })
	t.Logf("Invoke(A): %v; nested Invoke(K): %v; Invoke(K): %v", errA, nestedErr, errK)

	if maxDepth > 1 {
		t.Errorf("the constructor of A was entered while it was already running (depth %d)", maxDepth)
	}
	if execs != 1 {
		t.Errorf("the constructor of A was executed %d times, want 1", execs)
	}
	if gotA != nil && gotK != nil && gotK.a != nil && gotK.a != gotA {
		t.Errorf("two instances of A are observable: Invoke got execution #%d, K's decorator got execution #%d",
			gotA.exec, gotK.a.exec)
	}
}

// Control: without a decorator in the path dig answers the nested demand with
// a cycle error and runs the constructor once. This test passes.
func TestHunt2ControlWithoutDecorator(t *testing.T) {
	c := dig.New()
	execs := 0
	var nestedErr error
	if err := c.Provide(func() *hunt2A {
		execs++
		if execs == 1 {
			nestedErr = c.Invoke(func(*hunt2K) {})
		}
		return &hunt2A{exec: execs}
	}); err != nil {
		t.Fatal(err)
	}
	if err := c.Provide(func(a *hunt2A) *hunt2K { return &hunt2K{a: a} }); err != nil {
		t.Fatal(err)
	}
	if err := c.Invoke(func(*hunt2A) {}); err != nil {
		t.Fatal(err)
	}
	if nestedErr == nil {
		t.Errorf("nested demand for the running constructor must fail")
	}
	if execs != 1 {
		t.Errorf("constructor executed %d times, want 1", execs)
	}
}
