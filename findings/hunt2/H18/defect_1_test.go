package dig_test

// Defect 1 (property C04): a key that has NO constructor visible from the
// consuming scope is nevertheless served from a decorator / a decorated value.
//
//   - an optional field receives a non-zero value although no constructor for
//     it is visible ("optional receives the zero value exactly when no
//     constructor for it is visible ...");
//   - once any decorator has left a decorated value behind, a REQUIRED
//     dependency without constructor no longer makes Invoke fail, and
//     constructors whose direct dependency has no constructor are executed;
//     the very same Invoke fails before and succeeds after an unrelated
//     Invoke, so the outcome depends on the history.

import (
	"testing"

	"go.uber.org/dig"
)

type hunt1A struct{ From string }
type hunt1B struct{ From string }
type hunt1C struct{ From string }

type hunt1OptA struct {
	dig.In

	A *hunt1A `optional:"true"`
}

// An optional field whose key has no constructor must be zero, whatever
// decorators are registered (the decorator has no dependencies, so it is not
// "a decorator with unavailable dependencies").
func TestHunt1OptionalWithoutConstructorIsZero(t *testing.T) {
	c := dig.New()
	if err := c.Decorate(func() *hunt1A { return &hunt1A{From: "decorator"} }); err != nil {
		t.Fatal(err)
	}

	// Reference point: as a required dependency the key is missing.
	if err := c.Invoke(func(*hunt1A) {}); err == nil {
		t.Fatal("required *hunt1A has no constructor: Invoke must fail")
	}

	called := false
	err := c.Invoke(func(in hunt1OptA) {
		called = true
		if in.A != nil {
			t.Errorf("optional field without visible constructor must be nil, got %+v", *in.A)
		}
	})
	if err != nil || !called {
		t.Fatalf("Invoke with an optional field must succeed, err=%v called=%v", err, called)
	}
}

// The same Invoke must not flip from "missing" to "ok" because some other
// Invoke ran in between: there still is no constructor for *hunt1A.
func TestHunt1RequiredWithoutConstructorStaysMissing(t *testing.T) {
	c := dig.New()
	if err := c.Decorate(func() *hunt1A { return &hunt1A{From: "decorator"} }); err != nil {
		t.Fatal(err)
	}
	need := func(*hunt1A) { t.Error("invoked although *hunt1A has no constructor") }

	if err := c.Invoke(need); err == nil {
		t.Fatal("first Invoke: expected a missing-dependency error")
	}
	_ = c.Invoke(func(hunt1OptA) {}) // unrelated Invoke; runs the decorator
	if err := c.Invoke(need); err == nil {
		t.Fatal("second Invoke: *hunt1A still has no constructor, expected a missing-dependency error")
	}
}

// A decorator with several results leaves decorated values behind for keys
// that nobody provides.  After that, required dependencies on such a key are
// satisfied and constructors whose direct dependency is unavailable are run.
func TestHunt1MultiResultDecoratorCreatesAvailability(t *testing.T) {
	c := dig.New()
	if err := c.Provide(func() *hunt1A { return &hunt1A{From: "ctor"} }); err != nil {
		t.Fatal(err)
	}
	ranC := false
	if err := c.Provide(func(b *hunt1B) *hunt1C { ranC = true; return &hunt1C{From: b.From} }); err != nil {
		t.Fatal(err)
	}
	// decorates *hunt1A and, on the side, emits a *hunt1B nobody provides.
	if err := c.Decorate(func(a *hunt1A) (*hunt1A, *hunt1B) {
		return &hunt1A{From: a.From + "'"}, &hunt1B{From: "decorator"}
	}); err != nil {
		t.Fatal(err)
	}

	if err := c.Invoke(func(*hunt1C) {}); err == nil {
		t.Fatal("*hunt1B has no constructor: Invoke(*hunt1C) must fail")
	}
	if ranC {
		t.Fatal("constructor of *hunt1C ran although its dependency *hunt1B is unavailable")
	}

	if err := c.Invoke(func(*hunt1A) {}); err != nil { // runs the decorator
		t.Fatal(err)
	}

	invoked := false
	err := c.Invoke(func(*hunt1C) { invoked = true })
	if err == nil || invoked {
		t.Errorf("*hunt1B still has no constructor: Invoke(*hunt1C) must fail, err=%v invoked=%v", err, invoked)
	}
	if ranC {
		t.Errorf("constructor of *hunt1C ran although its direct dependency *hunt1B has no constructor")
	}
}

// Scope placement: the only constructor lives in child scope c1, the
// decorator in the root.  From the sibling c2 no constructor is visible.
func TestHunt1SiblingScopeSeesDecoratedValueWithoutConstructor(t *testing.T) {
	c := dig.New()
	c1 := c.Scope("c1")
	c2 := c.Scope("c2")
	if err := c1.Provide(func() *hunt1A { return &hunt1A{From: "c1"} }); err != nil {
		t.Fatal(err)
	}
	if err := c.Decorate(func() *hunt1A { return &hunt1A{From: "root decorator"} }); err != nil {
		t.Fatal(err)
	}

	if err := c2.Invoke(func(*hunt1A) {}); err == nil {
		t.Fatal("c2 sees no constructor for *hunt1A: Invoke must fail")
	}
	if err := c1.Invoke(func(*hunt1A) {}); err != nil { // legitimate: c1 has the constructor
		t.Fatal(err)
	}
	if err := c2.Invoke(func(a *hunt1A) {
		t.Errorf("c2 still sees no constructor for *hunt1A but was invoked with %+v", *a)
	}); err == nil {
		t.Errorf("c2 still sees no constructor for *hunt1A: Invoke must fail")
	}
	if err := c2.Invoke(func(in hunt1OptA) {
		if in.A != nil {
			t.Errorf("optional *hunt1A without visible constructor in c2 must be nil, got %+v", *in.A)
		}
	}); err != nil {
		t.Fatal(err)
	}
}
