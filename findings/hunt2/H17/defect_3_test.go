package dig_test

import (
	"bytes"
	"errors"
	"regexp"
	"testing"

	"go.uber.org/dig"
)

// C19: the error graph keeps the constructors that failed (and the missing
// types), and "one edge per declared dependency" between what is kept.
//
// When some OTHER scope holds a healthy constructor for the same key, pruning
// that healthy constructor also deletes the edges that the failed
// constructors have to that key - although the node they point to stays in
// the graph (as the missing type, or as the result of the constructor that
// failed). The picture then shows the root cause and the transitive failure
// as unrelated islands.

type h3Conn struct{}
type h3Repo struct{}

func newH3Repo(*h3Conn) *h3Repo { return &h3Repo{} }

func newH3ConnBroken() (*h3Conn, error) { return nil, errors.New("connection refused") }

func newH3ConnElsewhere() *h3Conn { return &h3Conn{} }

var h3Edge = regexp.MustCompile(`constructor_\d+ -> "\*dig_test\.h3Conn" \[ltail=cluster_\d+\]`)

func h3ErrorGraph(t *testing.T, c *dig.Container, err error) string {
	t.Helper()
	if err == nil {
		t.Fatal("Invoke must fail")
	}
	if !dig.CanVisualizeError(err) {
		t.Fatalf("CanVisualizeError = false for %v", err)
	}
	var b bytes.Buffer
	if verr := dig.Visualize(c, &b, dig.VisualizeError(err)); verr != nil {
		t.Fatal(verr)
	}
	return b.String()
}

// The dependency of newH3Repo is missing in the scope it lives in.
func TestHunt3EdgeToMissingTypeLostWhenSiblingScopeProvidesIt(t *testing.T) {
	build := func(withSibling bool) string {
		c := dig.New()
		app := c.Scope("app")
		other := c.Scope("other")
		if err := app.Provide(newH3Repo); err != nil {
			t.Fatal(err)
		}
		if withSibling {
			// Not visible from "app": sibling scopes do not share.
			if err := other.Provide(newH3ConnElsewhere); err != nil {
				t.Fatal(err)
			}
		}
		return h3ErrorGraph(t, c, app.Invoke(func(*h3Repo) {}))
	}

	if out := build(false); !h3Edge.MatchString(out) {
		t.Fatalf("baseline: edge from newH3Repo to the missing *h3Conn expected:\n%s", out)
	}
	if out := build(true); !h3Edge.MatchString(out) {
		t.Errorf("newH3Repo depends on *h3Conn, which is missing and marked as root cause, "+
			"but the edge between them is gone because an unrelated scope provides *h3Conn:\n%s", out)
	}
}

// The dependency of newH3Repo is provided by a constructor that fails.
func TestHunt3EdgeToFailedConstructorLostWhenSiblingScopeProvidesSameType(t *testing.T) {
	build := func(withSibling bool) string {
		c := dig.New()
		app := c.Scope("app")
		other := c.Scope("other")
		if err := app.Provide(newH3ConnBroken); err != nil {
			t.Fatal(err)
		}
		if err := app.Provide(newH3Repo); err != nil {
			t.Fatal(err)
		}
		if withSibling {
			if err := other.Provide(newH3ConnElsewhere); err != nil {
				t.Fatal(err)
			}
		}
		return h3ErrorGraph(t, c, app.Invoke(func(*h3Repo) {}))
	}

	if out := build(false); !h3Edge.MatchString(out) {
		t.Fatalf("baseline: edge from newH3Repo to the result of newH3ConnBroken expected:\n%s", out)
	}
	if out := build(true); !h3Edge.MatchString(out) {
		t.Errorf("newH3Repo (transitive failure) depends on *h3Conn of newH3ConnBroken (root cause); "+
			"both are in the graph but the edge between them is gone because an unrelated scope provides *h3Conn:\n%s", out)
	}
}

// No scopes needed: *h3Conn is decorated, and the decorator needs *h3Cfg whose
// constructor fails. *h3Conn is reported as a transitive failure (its node is
// in the graph, orange), newH3Repo which consumes it is a transitive failure
// too, but the edge newH3Repo -> *h3Conn is deleted together with the healthy
// constructor of *h3Conn.

type h3Cfg struct{}

func newH3CfgBroken() (*h3Cfg, error) { return nil, errors.New("no config") }

func decorateH3Conn(c *h3Conn, _ *h3Cfg) *h3Conn { return c }

func TestHunt3EdgeToTransitivelyFailedValueLostWhenItsConstructorIsPruned(t *testing.T) {
	c := dig.New()
	for _, ctor := range []interface{}{newH3ConnElsewhere, newH3CfgBroken, newH3Repo} {
		if err := c.Provide(ctor); err != nil {
			t.Fatal(err)
		}
	}
	if err := c.Decorate(decorateH3Conn); err != nil {
		t.Fatal(err)
	}
	out := h3ErrorGraph(t, c, c.Invoke(func(*h3Repo) {}))

	for _, want := range []string{
		`label="newH3CfgBroken"`,            // root cause
		`label="newH3Repo"`,                 // transitive failure
		`"*dig_test.h3Conn" [color=orange]`, // the value that could not be built
	} {
		if !regexp.MustCompile(regexp.QuoteMeta(want)).MatchString(out) {
			t.Fatalf("expected %s in the error graph:\n%s", want, out)
		}
	}
	if !h3Edge.MatchString(out) {
		t.Errorf("newH3Repo failed because *h3Conn could not be built; both are in the graph "+
			"but the edge between them is gone:\n%s", out)
	}
}
