package dig_test

import (
	"bytes"
	"errors"
	"regexp"
	"strings"
	"testing"

	"go.uber.org/dig"
)

// C19: "the failing constructor [is] marked as root cause, every constructor
// that failed because of it is marked as a transitive failure".
//
// newH2X consumes *h2A; a decorator of *h2A consumes *h2X. dig supports this
// shape: while the decorator collects its arguments, newH2X is entered a
// second time and runs there. When newH2X returns an error, the error unwinds
// through both activations of newH2X, and the error graph ends up painting
// the failing constructor as a *transitive* failure (orange) although it is
// the root cause (red). The failure is a plain constructor error; nothing
// fails inside the decorator.

type h2A struct{}
type h2X struct{}

func newH2A() *h2A { return &h2A{} }

func newH2X(*h2A) (*h2X, error) { return nil, errors.New("great sadness") }

func decorateH2A(a *h2A, _ *h2X) *h2A { return a }

func TestHunt2FailingConstructorShownAsTransitiveFailure(t *testing.T) {
	c := dig.New()
	if err := c.Provide(newH2A); err != nil {
		t.Fatal(err)
	}
	if err := c.Provide(newH2X); err != nil {
		t.Fatal(err)
	}
	if err := c.Decorate(decorateH2A); err != nil {
		t.Fatal(err)
	}

	err := c.Invoke(func(*h2X) {})
	if err == nil {
		t.Fatal("Invoke must fail: newH2X returns an error")
	}
	if got := dig.RootCause(err); got == nil || got.Error() != "great sadness" {
		t.Fatalf("unexpected root cause %v (error: %v)", got, err)
	}
	if !dig.CanVisualizeError(err) {
		t.Fatalf("CanVisualizeError = false for %v", err)
	}

	var b bytes.Buffer
	if err := dig.Visualize(c, &b, dig.VisualizeError(err)); err != nil {
		t.Fatal(err)
	}
	out := b.String()

	// Find the cluster of newH2X and look at its colour.
	re := regexp.MustCompile(`(?s)subgraph cluster_\d+ \{[^}]*label="newH2X"[^}]*\}`)
	cluster := re.FindString(out)
	if cluster == "" {
		t.Fatalf("the failing constructor newH2X has no cluster in the error graph:\n%s", out)
	}
	if !strings.Contains(cluster, "color=red;") {
		t.Errorf("the failing constructor newH2X is not marked as root cause (red):\n%s", out)
	}
	if strings.Contains(cluster, "color=orange;") {
		t.Errorf("the failing constructor newH2X is marked as a transitive failure (orange) instead of the root cause:\n%s", out)
	}
}

// The same through a value group: newH2Plugin feeds the group "plugins" and
// consumes *h2A, whose decorator consumes the group.

type h2Plugin struct{}

type h2PluginOut struct {
	dig.Out

	P *h2Plugin `group:"plugins"`
}

type h2Plugins struct {
	dig.In

	All []*h2Plugin `group:"plugins"`
}

func newH2Plugin(*h2A) (h2PluginOut, error) {
	return h2PluginOut{}, errors.New("great sadness")
}

func decorateH2AWithPlugins(a *h2A, _ h2Plugins) *h2A { return a }

func TestHunt2FailingGroupConstructorShownAsTransitiveFailure(t *testing.T) {
	c := dig.New()
	if err := c.Provide(newH2A); err != nil {
		t.Fatal(err)
	}
	if err := c.Provide(newH2Plugin); err != nil {
		t.Fatal(err)
	}
	if err := c.Decorate(decorateH2AWithPlugins); err != nil {
		t.Fatal(err)
	}

	err := c.Invoke(func(h2Plugins) {})
	if err == nil {
		t.Fatal("Invoke must fail: newH2Plugin returns an error")
	}
	if got := dig.RootCause(err); got == nil || got.Error() != "great sadness" {
		t.Fatalf("unexpected root cause %v (error: %v)", got, err)
	}

	var b bytes.Buffer
	if err := dig.Visualize(c, &b, dig.VisualizeError(err)); err != nil {
		t.Fatal(err)
	}
	out := b.String()

	re := regexp.MustCompile(`(?s)subgraph cluster_\d+ \{[^}]*label="newH2Plugin"[^}]*\}`)
	cluster := re.FindString(out)
	if cluster == "" {
		t.Fatalf("the failing constructor newH2Plugin has no cluster in the error graph:\n%s", out)
	}
	if !strings.Contains(cluster, "color=red;") {
		t.Errorf("the failing constructor newH2Plugin is not marked as root cause (red):\n%s", out)
	}
	groupNode := regexp.MustCompile(`(?m)^\s*"\[type=\*dig_test\.h2Plugin group=plugins\]" \[.*$`).FindString(out)
	if groupNode == "" {
		t.Fatalf("the failed value group has no node in the error graph:\n%s", out)
	}
	if !strings.Contains(groupNode, "color=red") {
		t.Errorf("the value group fed by the failing constructor is not marked as root cause (red): %s\n%s", groupNode, out)
	}
}
