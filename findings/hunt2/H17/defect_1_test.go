package dig_test

import (
	"bytes"
	"fmt"
	"regexp"
	"strings"
	"testing"

	"go.uber.org/dig"
)

// C19: "When given the error of a failed Invoke, the missing types or the
// failing constructor are marked as root cause ... constructors that did not
// fail are pruned".
//
// The constructor newH1Service fails with an error of its own. That error
// happens to wrap (%w) an error which a *different* container produced. dig
// itself treats the error a constructor returns as opaque (RootCause stops at
// it, and so does the optional-parameter logic), but the error graph does not:
// updateGraph keeps unwrapping into the constructor's error, finds the foreign
// errMissingTypes there, declares the foreign type the root cause, and demotes
// the constructor that actually failed to a "transitive failure".

type h1Service struct{}
type h1Plugin struct{}

var h1Plugins = dig.New() // an unrelated container that knows nothing

func newH1Service() (*h1Service, error) {
	if err := h1Plugins.Invoke(func(*h1Plugin) {}); err != nil {
		return nil, fmt.Errorf("loading plugins: %w", err)
	}
	return &h1Service{}, nil
}

func TestHunt1ConstructorErrorWrappingForeignDigError(t *testing.T) {
	c := dig.New()
	if err := c.Provide(newH1Service); err != nil {
		t.Fatal(err)
	}

	err := c.Invoke(func(*h1Service) {})
	if err == nil {
		t.Fatal("Invoke must fail: newH1Service returns an error")
	}
	// dig agrees that the constructor's error is the root cause.
	if rc := dig.RootCause(err); rc == nil || !strings.HasPrefix(rc.Error(), "loading plugins: ") {
		t.Fatalf("unexpected root cause %v", rc)
	}

	var b bytes.Buffer
	if err := dig.Visualize(c, &b, dig.VisualizeError(err)); err != nil {
		t.Fatal(err)
	}
	out := b.String()

	re := regexp.MustCompile(`(?s)subgraph cluster_\d+ \{[^}]*label="newH1Service"[^}]*\}`)
	cluster := re.FindString(out)
	if cluster == "" {
		t.Fatalf("the failing constructor has no cluster in the error graph:\n%s", out)
	}
	if !strings.Contains(cluster, "color=red;") {
		t.Errorf("the failing constructor newH1Service is not marked as root cause (red):\n%s", out)
	}
	if !strings.Contains(out, `"*dig_test.h1Service" [color=red];`) {
		t.Errorf("the result of the failing constructor is not marked as root cause:\n%s", out)
	}
	// *h1Plugin is neither requested by anything in c nor missing from c.
	if strings.Contains(out, "h1Plugin") {
		t.Errorf("a type that only appears inside the constructor's own error shows up in the graph of c:\n%s", out)
	}
}
