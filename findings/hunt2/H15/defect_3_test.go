package dig_test

// Defect 3 (C13): IsCycleDetected searches the whole error tree with
// errors.As, including the error a constructor returned. A constructor
// failure whose error wraps a cycle rejection of ANOTHER container is
// reported as a cycle in this container, although this container's graph is
// acyclic and the failure is a constructor failure (RootCause says so).
// IsCycleDetected is therefore not true "exactly for cycle rejections".
//
// Same family as the already repaired RootCause/%w and optional/%w defects:
// the classification helpers must follow only the links dig created.

import (
	"fmt"
	"testing"

	"go.uber.org/dig"
)

type h3Plugin struct{}
type h3A struct{}
type h3B struct{}

func TestHunt3ConstructorFailureIsNotACycle(t *testing.T) {
	for _, recoverPanics := range []bool{false, true} {
		t.Run(fmt.Sprintf("RecoverFromPanics=%v", recoverPanics), func(t *testing.T) {
			var opts []dig.Option
			if recoverPanics {
				opts = append(opts, dig.RecoverFromPanics())
			}
			var returned error
			c := dig.New(opts...)
			if err := c.Provide(func() (h3Plugin, error) {
				nested := dig.New()
				if err := nested.Provide(func(h3A) h3B { return h3B{} }); err != nil {
					return h3Plugin{}, err
				}
				if err := nested.Provide(func(h3B) h3A { return h3A{} }); err != nil {
					returned = fmt.Errorf("plugin setup failed: %w", err)
					return h3Plugin{}, returned
				}
				return h3Plugin{}, nil
			}); err != nil {
				t.Fatal(err)
			}
			err := c.Scope("child").Invoke(func(h3Plugin) {})
			if err == nil || returned == nil {
				t.Fatalf("expected failures, got %v / %v", err, returned)
			}
			// The failure is classified as a constructor failure ...
			if rc := dig.RootCause(err); rc != returned {
				t.Fatalf("RootCause = %v, want the constructor's error", rc)
			}
			// ... so it is not a cycle rejection of c.
			if dig.IsCycleDetected(err) {
				t.Errorf("IsCycleDetected(err) = true for a constructor failure in an acyclic container\nerr: %v", err)
			}
		})
	}
}

// Control: genuine cycle rejections are still recognised, also when the
// caller wraps them.
func TestHunt3GenuineCyclesStillDetected(t *testing.T) {
	c := dig.New()
	if err := c.Provide(func(h3A) h3B { return h3B{} }); err != nil {
		t.Fatal(err)
	}
	err := c.Provide(func(h3B) h3A { return h3A{} })
	if !dig.IsCycleDetected(err) {
		t.Errorf("IsCycleDetected = false for %v", err)
	}
	if !dig.IsCycleDetected(fmt.Errorf("startup: %w", err)) {
		t.Errorf("IsCycleDetected = false for a wrapped cycle rejection")
	}

	d := dig.New(dig.DeferAcyclicVerification())
	if err := d.Provide(func(h3A) h3B { return h3B{} }); err != nil {
		t.Fatal(err)
	}
	if err := d.Provide(func(h3B) h3A { return h3A{} }); err != nil {
		t.Fatal(err)
	}
	if err := d.Invoke(func(h3A) {}); !dig.IsCycleDetected(err) {
		t.Errorf("IsCycleDetected = false for %v", err)
	}
}
