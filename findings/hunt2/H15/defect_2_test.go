package dig_test

// Defect 2 (C13): RootCause looks through errConstructorFailed into the error
// the constructor returned. If that error is a dig.Error (the constructor
// built a nested container - a plugin, a per-request scope ... - and returned
// the error it got), RootCause does not return the constructor's error but
// some link deep inside it: the constructor's error is not recoverable by
// identity through RootCause.
//
// The sibling walk missingDependencies() (param.go) already stops at
// errConstructorFailed ("the error a constructor returned is never searched,
// whatever it wraps"); RootCause forgets to.

import (
	"fmt"
	"testing"

	"go.uber.org/dig"
)

type h2Plugin struct{}
type h2User struct{}

func TestHunt2RootCauseOfConstructorErrorThatIsADigError(t *testing.T) {
	for _, recoverPanics := range []bool{false, true} {
		for _, depth := range []int{0, 1} {
			t.Run(fmt.Sprintf("RecoverFromPanics=%v/depth=%d", recoverPanics, depth), func(t *testing.T) {
				var opts []dig.Option
				if recoverPanics {
					opts = append(opts, dig.RecoverFromPanics())
				}
				var returned error
				c := dig.New(opts...)
				s := c.Scope("child")
				if err := c.Provide(func() (h2Plugin, error) {
					// The plugin registers a bad constructor with its own
					// container: Provide rejects it (errProvide wrapping an
					// errInvalidInput) and the constructor gives up.
					nested := dig.New()
					returned = nested.Provide(func() {})
					return h2Plugin{}, returned
				}); err != nil {
					t.Fatal(err)
				}
				if err := s.Provide(func(h2Plugin) h2User { return h2User{} }); err != nil {
					t.Fatal(err)
				}
				var err error
				if depth == 0 {
					err = c.Invoke(func(h2Plugin) {})
				} else {
					err = s.Invoke(func(h2User) {})
				}
				if err == nil || returned == nil {
					t.Fatalf("expected failures, got %v / %v", err, returned)
				}
				rc := dig.RootCause(err)
				if rc != returned {
					t.Errorf("RootCause(err) is not the error the constructor returned\n got: %T %v\nwant: %T %v", rc, rc, returned, returned)
				}
			})
		}
	}
}
