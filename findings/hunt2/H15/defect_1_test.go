package dig_test

// Defect 1 (C13): dig's own error values cannot be handed to errors.Is.
//
// errMissingDependencies, errParamSingleFailed, errInvalidInput ... are
// struct types whose Reason/Cause field is an interface. Their Go type is
// "comparable", so errors.Is compares them with ==, but the dynamic value of
// the field is an errMissingTypes (a slice) or an errCycleDetected (a struct
// holding a slice): the comparison panics with "comparing uncomparable type".
//
// Consequence for C13: an error returned by a constructor / decorator is NOT
// recoverable by identity through errors.Is when that error happens to be a
// dig error (the constructor built a nested container and returned its
// error) - errors.Is panics instead of answering true. Even
// errors.Is(err, err) panics for every missing-type and cycle rejection.

import (
	"errors"
	"fmt"
	"testing"

	"go.uber.org/dig"
)

type h1Plugin struct{}
type h1Dep struct{}
type h1A struct{}
type h1B struct{}

func h1Is(t *testing.T, err, target error) (is bool) {
	t.Helper()
	defer func() {
		if p := recover(); p != nil {
			t.Errorf("errors.Is panicked: %v", p)
		}
	}()
	return errors.Is(err, target)
}

// A constructor sets up a nested container; the nested Invoke fails because a
// type is missing and the constructor returns that error as it is.
func TestHunt1ConstructorErrorFromNestedContainer(t *testing.T) {
	for _, recoverPanics := range []bool{false, true} {
		t.Run(fmt.Sprintf("RecoverFromPanics=%v", recoverPanics), func(t *testing.T) {
			var opts []dig.Option
			if recoverPanics {
				opts = append(opts, dig.RecoverFromPanics())
			}
			var returned error
			c := dig.New(opts...)
			if err := c.Provide(func() (h1Plugin, error) {
				nested := dig.New()
				returned = nested.Invoke(func(h1Dep) {})
				return h1Plugin{}, returned
			}); err != nil {
				t.Fatal(err)
			}
			err := c.Invoke(func(h1Plugin) {})
			if err == nil || returned == nil {
				t.Fatalf("expected failures, got %v / %v", err, returned)
			}
			if !h1Is(t, err, returned) {
				t.Errorf("errors.Is(err, <error returned by the constructor>) = false, want true\nerr: %v", err)
			}
		})
	}
}

// Same for a decorator.
func TestHunt1DecoratorErrorFromNestedContainer(t *testing.T) {
	var returned error
	c := dig.New()
	if err := c.Provide(func() h1Plugin { return h1Plugin{} }); err != nil {
		t.Fatal(err)
	}
	if err := c.Decorate(func(p h1Plugin) (h1Plugin, error) {
		nested := dig.New()
		returned = nested.Invoke(func(h1Dep) {})
		return p, returned
	}); err != nil {
		t.Fatal(err)
	}
	err := c.Invoke(func(h1Plugin) {})
	if err == nil || returned == nil {
		t.Fatalf("expected failures, got %v / %v", err, returned)
	}
	if !h1Is(t, err, returned) {
		t.Errorf("errors.Is(err, <error returned by the decorator>) = false, want true\nerr: %v", err)
	}
}

// The smallest form: errors.Is is not even reflexive on dig's rejections.
func TestHunt1ErrorsIsReflexive(t *testing.T) {
	t.Run("missing type at Invoke", func(t *testing.T) {
		c := dig.New()
		err := c.Invoke(func(h1Dep) {})
		if err == nil {
			t.Fatal("expected an error")
		}
		if !h1Is(t, err, err) {
			t.Errorf("errors.Is(err, err) = false")
		}
	})
	t.Run("missing type below a constructor", func(t *testing.T) {
		c := dig.New()
		if err := c.Provide(func(h1Dep) h1Plugin { return h1Plugin{} }); err != nil {
			t.Fatal(err)
		}
		err := c.Scope("child").Invoke(func(h1Plugin) {})
		if err == nil {
			t.Fatal("expected an error")
		}
		if !h1Is(t, err, err) {
			t.Errorf("errors.Is(err, err) = false")
		}
	})
	t.Run("cycle at Provide", func(t *testing.T) {
		c := dig.New()
		if err := c.Provide(func(h1A) h1B { return h1B{} }); err != nil {
			t.Fatal(err)
		}
		err := c.Provide(func(h1B) h1A { return h1A{} })
		if !dig.IsCycleDetected(err) {
			t.Fatalf("expected a cycle, got %v", err)
		}
		if !h1Is(t, err, err) {
			t.Errorf("errors.Is(err, err) = false")
		}
	})
}
