#!/bin/bash
# usage: thorough.sh <property-id>
# Thorough tier: the quick rules, plus the same rules under GOARCH=386 and
# without build tags (verdicts must be identical), reachability rules also on
# the VTA call graph, and the checker self-test against semantic mutants.
export GOFLAGS=-mod=mod GOPROXY=off GOSUMDB=off GOTOOLCHAIN=local CGO_ENABLED=0
unset GOWORK
VERIF=$(cd "$(dirname "$0")" && pwd)
REPO=${VERIF_REPO:-/repo}
PROP=$1
EV="$VERIF/evidence/$PROP.json"
T0=$(date +%s.%N)
"$VERIF/bin/digcheck" -property "$PROP" -tier thorough -repo "$REPO" -verif "$VERIF"
BASE=$?
TMP=$(mktemp -d /tmp/digthorough.XXXXXX)
trap 'rm -rf "$TMP"' EXIT
"$VERIF/bin/digcheck" -property "$PROP" -tier thorough -repo "$REPO" -verif "$VERIF" -goarch 386 -evidence-dir "$TMP/386" >"$TMP/386.log" 2>&1; E386=$?
"$VERIF/bin/digcheck" -property "$PROP" -tier thorough -repo "$REPO" -verif "$VERIF" -tags "" -evidence-dir "$TMP/notag" >"$TMP/notag.log" 2>&1; ENOTAG=$?
python3 "$VERIF/tools/selftest.py" "$PROP" > "$TMP/selftest.json" 2>"$TMP/selftest.err"
python3 - "$EV" "$TMP" "$PROP" "$BASE" "$E386" "$ENOTAG" "$T0" <<'PY'
import json, sys, time
ev, tmp, prop, base, e386, enotag, t0 = sys.argv[1], sys.argv[2], sys.argv[3], int(sys.argv[4]), int(sys.argv[5]), int(sys.argv[6]), float(sys.argv[7])
e = json.load(open(ev))
def verdicts(p):
    try:
        d = json.load(open(p))
    except Exception as x:
        return None
    return sorted((o["rule"], o["construct"], o["status"]) for o in d["coverage"]["samples"])
b = verdicts(ev)
cfg = {}
agree = True
for name, code in (("386", e386), ("notag", enotag)):
    v = verdicts(f"{tmp}/{name}/{prop}.json")
    same = (v == b) and code == base
    cfg[name] = {"exit": code, "identical_verdicts": same}
    agree = agree and same
try:
    st = json.load(open(f"{tmp}/selftest.json"))
except Exception as x:
    st = {"error": open(f"{tmp}/selftest.err").read()[-500:], "results": []}
res = st.get("results", [])
miss = [r for r in res if r.get("outcome") == "MISS"]
c = e["coverage"]
c["build_configurations"] = cfg
c["selftest"] = {
    "what": "semantic mutants applied to scratch copies of the current tree; fire = the property's rules must report a new violation, silent = behaviour-preserving edit must not",
    "mutants": len(res), "ok": sum(1 for r in res if r.get("outcome") == "ok"),
    "missed": [r["id"] for r in miss], "skipped": [r["id"] for r in res if r.get("outcome") in ("skipped", "invalid")],
    "documented_false_alarms_on_benign_refactorings": [r["id"] for r in res if r.get("outcome") == "known-false-alarm"],
    "results": res,
}
c["explanation"] += " THOROUGH: same rules re-evaluated under GOARCH=386 and without build tags (verdicts must be identical), reachability rules additionally on the VTA call graph, and the checker is tested against %d semantic mutants of the current tree (%d as expected)." % (len(res), c["selftest"]["ok"])
e["wall_s"] = round(time.time() - t0, 1)
json.dump(e, open(ev, "w"), indent=1)
if st.get("error") or not res:
    # the self-test is evidence about the checker, not about the property: its failure to run (no disk space for the
    # scratch copies, for one) is reported and recorded, the verdict of the rules on the tree stands
    c["selftest"]["error"] = st.get("error") or "no mutant could be run"
    print(f"SELFTEST-ERROR property={prop} the checker self-test did not run: {c['selftest']['error'][-200:]!r}")
    json.dump(e, open(ev, "w"), indent=1)
for r in miss:
    print(f"SELFTEST-MISS property={prop} mutant={r['id']} expect={r.get('expect')} exit={r.get('exit')} ({r.get('desc','')})")
print(f"{prop} [thorough]: configurations agree={agree}; self-test {c['selftest']['ok']}/{len(res)} mutants as expected, {len(miss)} missed, {len(c['selftest']['skipped'])} skipped")
if not agree:
    print(f"UNDECIDED property={prop} verdicts differ between build configurations: {cfg}")
    print(f"VIOLATION property={prop} replay={ev}")
    sys.exit(1)
sys.exit(base)
PY
