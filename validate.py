#!/opt/veriftools/pyvenv/bin/python
import json, jsonschema, sys, glob
jsonschema.validate(json.load(open('/verif/MANIFEST.json')), json.load(open('/root/.vp/MANIFEST.schema.json')))
sch = json.load(open('/root/.vp/EVIDENCE.schema.json'))
m = json.load(open('/verif/MANIFEST.json'))
for c in m['checks']:
    try:
        jsonschema.validate(json.load(open(c['evidence_file'])), sch)
    except Exception as e:
        print('INVALID', c['evidence_file'], str(e)[:200]); sys.exit(1)
print('manifest + %d evidence files valid' % len(m['checks']))
