#!/bin/sh
# usage: verify.sh <property-id> [quick|thorough]
# Decides the static part of one dig property from /repo's current source.
export GOFLAGS=-mod=mod GOPROXY=off GOSUMDB=off GOTOOLCHAIN=local CGO_ENABLED=0
unset GOWORK
VERIF=$(cd "$(dirname "$0")" && pwd)
REPO=${VERIF_REPO:-/repo}
PROP=$1
TIER=${2:-${VERIF_TIER:-quick}}
if [ -z "$PROP" ]; then echo "usage: $0 <property> [quick|thorough]"; exit 2; fi
( cd "$VERIF/checker" && go build -o "$VERIF/bin/digcheck" ./cmd/digcheck ) || {
  mkdir -p "$VERIF/evidence/violations"
  echo "{\"property\": \"$PROP\", \"status\": \"undecided\", \"detail\": \"the checker itself does not build (go build in /verif/checker failed); nothing was analysed\"}" > "$VERIF/evidence/violations/$PROP-build.json"
  echo "UNDECIDED property=$PROP checker does not build"
  echo "VIOLATION property=$PROP replay=$VERIF/evidence/violations/$PROP-build.json"
  exit 1
}
if [ "$TIER" = thorough ] && [ -x "$VERIF/thorough.sh" ]; then
  exec "$VERIF/thorough.sh" "$PROP"
fi
exec "$VERIF/bin/digcheck" -property "$PROP" -tier "$TIER" -repo "$REPO" -verif "$VERIF"
