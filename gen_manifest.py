#!/usr/bin/env python3
"""Regenerates MANIFEST.json from the table below (kept in one place so the
manifest stays valid while checks are added)."""
import json, sys

BASE_NOTE = ("Trusted base: go/types, go/ssa, CHA/VTA call graphs of golang.org/x/tools v0.29.0; Go reflect semantics as documented; "
             "dig uses no unsafe/MakeFunc/cgo/linkname (checked); single-goroutine use. The check decides structural necessary "
             "conditions of the property for all inputs/histories at once; it does not decide the behavioural statement whole.")

# id -> (technique, level text, design_ref)
CLAIMS = {
 "C03": ("call-graph must-not-reach (CHA, sound) + sealed-interface check + SSA guard dominance",
         "Static analysis, level 'other': decides for every history that no public entry point except Invoke can reach user code (whole-program CHA call graph, sound for interface and func-value calls), that option interfaces are sealed, and the structural ordering/guard clauses listed in DESIGN.md 4/C03. The liveness clause (everything in the closure has run) is not decided.",
         "DESIGN.md section 4, C03"),
 "C17": ("ownership (who-may-call / who-may-write) over SSA + call graph",
         "Static analysis, level 'other': decides that user code is entered only through an invokerFn read from the scope, that the only reflective call sits in defaultInvoker, and that invokerFn has exactly the three legitimate writers and no mode-branch readers, so a DryRun container cannot execute user functions in any scope and shares all validation code. Equality of verdicts between a dry and a normal run is a relation between executions and is not decided.",
         "DESIGN.md section 4, C17"),
}

NOT_YET = "check not built yet in this revision of /verif (static rules designed in DESIGN.md section 4; will be claimed when the rule pack lands)"

def main():
    props = [json.loads(l)["id"] for l in open("/verif/properties.jsonl")]
    checks, na = [], []
    for pid in props:
        if pid in CLAIMS:
            tech, text, ref = CLAIMS[pid]
            checks.append({
                "property_id": pid,
                "quick_cmd": f"./verify.sh {pid} quick",
                "thorough_cmd": f"./verify.sh {pid} thorough",
                "evidence_file": f"/verif/evidence/{pid}.json",
                "replay_cmd_template": "cat {path}",
                "engine": "digcheck",
                "level_claimed": {"category": "other", "text": text, "design_ref": ref},
                "level_note": BASE_NOTE,
                "technique": "static analysis: " + tech,
            })
        else:
            na.append({"property_id": pid, "reason": NOT_YET})
    m = {
        "version": 1,
        "setup_cmd": "cd /verif/checker && GOFLAGS=-mod=mod GOPROXY=off GOSUMDB=off GOTOOLCHAIN=local GOWORK=off go build -o /verif/bin/digcheck ./cmd/digcheck",
        "hooks": {
            "guard": "verif",
            "enable": "no hooks: the analysis reads /repo's source (loaded with -tags verif so that guarded files would be covered if any existed)",
            "baseline_off_cmd": "cd /repo && go test -mod=mod -vet=off -count=1 ./...",
            "source_commits": [],
            "add_only": True,
        },
        "engines": [{
            "name": "digcheck",
            "path": "/verif/checker",
            "serves_properties": sorted(CLAIMS),
            "kind_free_text": "repository-specific static analyser over go/packages + go/ssa + CHA/VTA call graphs (x/tools v0.29.0): must-pass-through / guard dominance by gate deletion on the instruction-level CFG, call-graph reachability, ownership (who writes/reads/constructs), typestate of done-flags, atomicity of registration transactions, key-shape agreement, sibling agreement, taint, reflect preconditions",
        }],
        "checks": checks,
        "not_applicable": na,
        "notes": "Every check rebuilds the checker from /verif/checker and analyses /repo's current working tree; nothing executes dig. Exit 0 = all obligations discharged (known findings printed as KNOWN-FINDING), exit 1 = VIOLATION, exit 2 = UNDECIDED (anchor unresolvable / load failure).",
    }
    json.dump(m, open("/verif/MANIFEST.json", "w"), indent=1)
    print("claimed", len(checks), "not_applicable", len(na))

main()
