#!/usr/bin/env python3
"""Regenerates MANIFEST.json from the table below (kept in one place so the
manifest stays valid while checks are added)."""
import json, sys

BASE_NOTE = ("Trusted base: go/types, go/ssa, CHA/VTA call graphs of golang.org/x/tools v0.29.0, and - only when the tree contains functions the rules "
             "do not know (new helpers) - the source-level inliner of x/tools (copy under checker/internal/xt) plus the checker's own unwrapping of "
             "function literals, through which such helpers are analysed inline; Go reflect semantics as documented; "
             "dig uses no unsafe/MakeFunc/cgo/linkname (checked); single-goroutine use. The check decides structural necessary "
             "conditions of the property for all inputs/histories at once; it does not decide the behavioural statement whole.")

# id -> (technique, level text, design_ref)
def lv(decided, notdec):
    return ("Static analysis, level 'other': structural necessary conditions of the property are decided from /repo's current "
            "source for every input, history and fault sequence at once (which the example-based suite cannot do): " + decided +
            " NOT decided by this check: " + notdec)

CLAIMS = {
 "C01": ("key-shape agreement tables + SSA dataflow provenance + guard dominance (gate deletion on the instruction CFG)",
   lv("reader/writer key agreement over every accessor call site (K1, K2, X-visit-extract); each executor calls the node's own function once with BuildList's result in its own view (M-args, M-once); zero values only for optional parameters without provider (G-optzero); home/view scopes (HOME-VIEW); provider and decorator executions triggered only by the parameter's own key (T-provenance); delivered values read from scope stores (T-same-instance).",
      "that the delivered values are right for every history (cache staleness across scopes, nearest-decorator selection at run time)."), "DESIGN.md 4/C01"),
 "C02": ("typestate analysis of done-flags + path-sensitive guard check (phi/branch-fact explorer) + call-graph re-entrancy",
   lv("done-flag typestate of constructorNode.called and decoratorNode.state incl. re-entrancy through BuildList (E-TS), decorator.Call guarded by State()!=OnStack on the same decorator, path-sensitively (G-onstack), same-instance delivery (T-same-instance).",
      "pointer identity as observed by arbitrary consumers."), "DESIGN.md 4/C02"),
 "C03": ("call-graph must-not-reach (CHA, sound) + sealed-interface check + SSA guard dominance",
   lv("no public entry point except Invoke can reach user code in the whole-program CHA call graph (W-reach, decided completely modulo the trusted base), option interfaces sealed (X-sealed), executions triggered only by the parameter's own key (T-provenance), soft groups call no provider (G-soft), consumer runs only after its arguments were built (M-args).",
      "that every not-yet-built constructor of the closure has run when Invoke succeeds (liveness)."), "DESIGN.md 4/C03"),
 "C04": ("guard dominance / must-pass-through on SSA + construction-site ownership",
   lv("M-args for all executors, M-shallow + W-missingdeps, T-rootcause (a failing constructor is always errConstructorFailed carrying its own error), G-optzero, the missing-predicate and its recursion (G-missing).",
      "the verdict as a function of depth and of optional edges above the gap; the 'everything available implies success' direction."), "DESIGN.md 4/C04"),
 "C05": ("typestate (verified-view) + flag soundness + sibling agreement over node kinds + guard dominance",
   lv("build only in a verified view (M-acyclic-view), soundness of isVerifiedAcyclic (G-flag), every scope of the subtree checked and failures reported as cycle errors (M-acyclic-provide, W-cycleerr), orders invariant for every node kind (X-orders), DFS marks before exploring (G-dfs), dispatchers cover all parameter kinds (X-switch, K2), decorator re-entry guarded (G-onstack).",
      "correctness of the reported path; exhaustiveness over digraphs (an enumeration, a different technique family); stack-depth bounds."), "DESIGN.md 4/C05"),
 "C06": ("atomicity analysis (persistent-write summaries over the call tree, compensation structures) + ownership",
   lv("E-ATOM on the whole call trees of Provide and Decorate for all error exits, W-owners, G-decorate-dup, W-reach.",
      "equality of all later behaviour with the history without the rejected call (a relation between runs)."), "DESIGN.md 4/C06"),
 "C07": ("atomicity of executions (staging, errors-first extraction, transient marker) + typestate",
   lv("E-stage, E-TS(c), HOME-VIEW commit after success, T-rootcause, G-recover.",
      "that the retry happens in every continuation (needs resolution to reach the function again, a run-time fact)."), "DESIGN.md 4/C07"),
 "C08": ("who-may-read over the module call graph + guard dominance + sibling agreement",
   lv("resolution never reads childScopes, navigation only through parentScope nearest-first, Export re-targeting, propagation over the subtree (W-scopes), HOME-VIEW, X-orders, X-inherit, K2.",
      "'nearest wins' as an outcome beyond the first-hit loop structure; value caching across scopes."), "DESIGN.md 4/C08"),
 "C09": ("key-shape agreement (reader/writer tables) + guard dominance",
   lv("K1, K2, K3 (group names non-empty), G-dupkey incl. name/group exclusion at all entry points, X-visit-extract.",
      "the As-replaces-concrete-type convention as an outcome; pointer sharing among As keys."), "DESIGN.md 4/C09"),
 "C10": ("loop-exit analysis + key agreement + ownership + typestate",
   lv("K2 for group accessors, L-no-early-exit for both loops over the enclosing scopes, once-only feeders (E-TS, E-stage, HOME-VIEW), single writers and copy-out (W-owners), members only from getValueGroup of the parameter's key (T-same-instance, T-provenance).",
      "the multiset itself; that the shuffle is a permutation."), "DESIGN.md 4/C10"),
 "C11": ("call-graph-assisted guard dominance",
   lv("G-soft (every constructor-executing call in paramGroupedSlice.Build under !Soft; Soft only from the \"soft\" option), X-group-parse.",
      "the 'contains all members of earlier executions and of sibling fields' clause (run-time ordering effect of the field reordering)."), "DESIGN.md 4/C11"),
 "C12": ("must-pass-through ordering + atomicity + typestate + key agreement",
   lv("M-dec-first for both Build functions, G-decorate-dup + E-ATOM(Decorate), decorator view and marker (M-args, E-TS, G-onstack, E-stage), K2, W-scopes.",
      "nearest-decorator selection as an outcome for every history."), "DESIGN.md 4/C12"),
 "C13": ("taint/provenance dataflow (path-sensitive on phi values) + type-level checks + guard dominance",
   lv("T-usererr, X-unwrap + closed error family, T-foreign-cause, T-rootcause, G-recover + PanicError shape, W-cycleerr/X-iscycle.",
      "chain shapes at depth (follow from X-unwrap by induction)."), "DESIGN.md 4/C13"),
 "C14": ("precondition discipline for partial reflect operations (contracts, field invariants, path-sensitive kind facts) + entry validation",
   lv("P1 entry validation, E-REFL over every partial reflect call site with contracts re-checked at call sites and field invariants at construction sites, K3, K2/X-visit-extract for the discarded-ok lookups, E-ATOM for 'rejected input changes nothing'.",
      "panics from indexing, nil maps, reflect.Value.Set assignability, user String() methods; nil option values; a handful of sites is listed as assumed with reasons in the evidence."), "DESIGN.md 4/C14"),
 "C15": ("sibling agreement / exhaustiveness over computed value sets + guard dominance",
   lv("X-switch (value sets of param/result, every dispatcher exhaustive or reasoned, same child slices iterated), X-encodings (variadic drop, error results, option == tag, X-group-parse).",
      "the equivalence of the two encodings itself (a relation between two programs' behaviours)."), "DESIGN.md 4/C15"),
 "C16": ("who-may-read over the module call graph + sibling agreement + flag soundness",
   lv("X-orders, W-orderfree (deferral flag controls only the IsAcyclic block; registration never reads decorators / Decorate never reads providers), G-flag.",
      "equality of wiring under permutation of registrations (relational)."), "DESIGN.md 4/C16"),
 "C17": ("ownership (who-may-call / who-may-write) over SSA + call graph",
   lv("W-sink (single reflective call site, invoker read from the scope, three writers, no mode branch, dryInvoker reaches no sink), X-inherit.",
      "equality of verdicts between a dry and a normal run (a relation between executions)."), "DESIGN.md 4/C17"),
 "C18": ("sibling agreement of parallel literals + atomicity + dataflow provenance",
   lv("X-info (attribute-wise copies at matching indices, sizes, sources, ID provenance, leaf cardinalities), E-ATOM (Info untouched on rejection), X-switch and X-encodings for flattening and omissions.",
      "uniqueness of code pointers for closures (a Go runtime fact)."), "DESIGN.md 4/C18"),
 "C19": ("taint (escaping/quoting discipline) + loop coverage + sibling agreement",
   lv("X-viz (cluster coverage over all scopes, quoting of every Fprintf argument, html escaping of every label argument, dashed iff optional, errVisualizer agreement), s.nodes grows only at provide's commit point (E-ATOM, W-owners).",
      "failure colouring and pruning (run-time graph algorithm); exact node and edge sets."), "DESIGN.md 4/C19"),
 "C20": ("must-pass-through / dominance on defer placement + dataflow into the callback literal + call-graph checks",
   lv("M-cb (defer placement, order relative to recover, captured result, clock placement, name, plumbing), G-recover, T-rootcause, W-reach.",
      "the duration value; behaviour for unrecovered panics."), "DESIGN.md 4/C20"),
}

NOT_YET = "check not built yet in this revision of /verif (static rules designed in DESIGN.md section 4; will be claimed when the rule pack lands)"

def main():
    import subprocess
    props = [json.loads(l)["id"] for l in open("/verif/properties.jsonl")]
    # the level text is the explanation the checker itself prints into the evidence (kept in one place: checker/internal/rules/props.go)
    expl = json.loads(subprocess.run(["/verif/bin/digcheck", "-explain"], capture_output=True, text=True, check=True).stdout)
    checks, na = [], []
    for pid in props:
        if pid in CLAIMS:
            tech, text, ref = CLAIMS[pid]
            text = ("Static analysis, level 'other': structural necessary conditions of the property are decided from /repo's current "
                    "source for every input, history and fault sequence at once (which the example-based suite cannot do); the behavioural "
                    "statement as a whole is not decided. " + expl[pid]["explanation"])
            checks.append({
                "property_id": pid,
                "quick_cmd": f"./verify.sh {pid} quick",
                "thorough_cmd": f"./verify.sh {pid} thorough",
                "evidence_file": f"/verif/evidence/{pid}.json",
                "replay_cmd_template": "cat {path}",
                "engine": "digcheck",
                "level_claimed": {"category": "other", "text": text, "design_ref": ref},
                "level_note": BASE_NOTE,
                "technique": "static analysis: " + tech,
            })
        else:
            na.append({"property_id": pid, "reason": NOT_YET})
    m = {
        "version": 1,
        "setup_cmd": "cd /verif/checker && GOFLAGS=-mod=mod GOPROXY=off GOSUMDB=off GOTOOLCHAIN=local GOWORK=off go build -o /verif/bin/digcheck ./cmd/digcheck",
        "hooks": {
            "guard": "verif",
            "enable": "no hooks: the analysis reads /repo's source (loaded with -tags verif so that guarded files would be covered if any existed)",
            "baseline_off_cmd": "cd /repo && go test -mod=mod -vet=off -count=1 ./...",
            "source_commits": [],
            "add_only": True,
        },
        "engines": [{
            "name": "digcheck",
            "path": "/verif/checker",
            "serves_properties": sorted(CLAIMS),
            "kind_free_text": "repository-specific static analyser over go/packages + go/ssa + CHA/VTA call graphs (x/tools v0.29.0): must-pass-through / guard dominance by gate deletion on the instruction-level CFG, call-graph reachability, ownership (who writes/reads/constructs), typestate of done-flags, atomicity of registration transactions, key-shape agreement, sibling agreement, taint, reflect preconditions",
        }],
        "checks": checks,
        "not_applicable": na,
        "notes": "Every check rebuilds the checker from /verif/checker and analyses /repo's current working tree; nothing executes dig. Exit 0 = all obligations discharged (known findings printed as KNOWN-FINDING), exit 1 = a line 'VIOLATION property=<id> replay=<path>' for every new violation and for every UNDECIDED obligation (an anchor that does not resolve even after canonicalisation, an instance floor not met, a tree that does not load or type-check: the replay file then says 'undecided' and why).",
    }
    json.dump(m, open("/verif/MANIFEST.json", "w"), indent=1)
    print("claimed", len(checks), "not_applicable", len(na))

main()
