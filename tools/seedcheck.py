#!/usr/bin/env python3
"""seedcheck.py [--all | seed-id ...] [--no-confirm]

Confirms seeded changes under /verif/seeded/<id>/ and records which checks report them.

Phase A (parallel, one scratch git worktree of /repo per seed under /tmp/seedwt, removed afterwards):
  the patch applies and builds; the existing suite is unchanged (766 pass, TestProvideLocation
  always fails); the demonstration (seeded_test.go, TestSeeded*) fails with the change and passes
  without it.
Phase B (sequential): git -C /repo apply <patch>; the twenty quick checks (in parallel, evidence
  to a temp dir); git -C /repo checkout -- . straight afterwards.
Writes <seed>/meta.json. Default: seeds without meta.json.
"""
import json, os, re, subprocess, sys, shutil, tempfile
from concurrent.futures import ThreadPoolExecutor

ENV = dict(os.environ, GOFLAGS="-mod=mod", GOPROXY="off", GOSUMDB="off", GOTOOLCHAIN="local", CGO_ENABLED="0")
ENV.pop("GOWORK", None)
# every scratch copy has its own directory, so its packages get build-cache entries of their own: a private cache,
# removed at exit, keeps a sweep from filling the disk
import atexit as _atexit, tempfile as _tempfile, shutil as _shutil
ENV["GOCACHE"] = _tempfile.mkdtemp(prefix="digtool-cache.")
_atexit.register(lambda: _shutil.rmtree(ENV["GOCACHE"], ignore_errors=True))
SEEDED = "/verif/seeded"
WT = "/tmp/seedwt"


def sh(cmd, cwd=None, timeout=1800):
    return subprocess.run(cmd, shell=True, cwd=cwd, env=ENV, capture_output=True, text=True, timeout=timeout)


def needs(seed):
    p = os.path.join(SEEDED, seed, "NOTES.md")
    if not os.path.exists(p):
        return "see patch"
    t = open(p).read()
    m = re.search(r"(?:\*\*)?(?:What is )?[Nn]eeded to manifest(?:\*\*)?[:\s]*(.*?)(?:\n\s*\n|\n- \*?\*?Commands|\n\*?\*?Commands|\Z)", t, re.S)
    if not m:
        return "see NOTES.md"
    s = " ".join(m.group(1).split())
    return s[:600]


def suite(cwd):
    r = sh("go test -vet=off -count=1 -json ./...", cwd=cwd)
    f, p = set(), 0
    for l in r.stdout.splitlines():
        try:
            e = json.loads(l)
        except Exception:
            continue
        if e.get("Test") and e["Action"] == "fail":
            f.add(e["Test"])
        if e.get("Test") and e["Action"] == "pass":
            p += 1
    return p, sorted(f)


def confirm(seed):
    d = os.path.join(SEEDED, seed)
    wt = os.path.join(WT, seed)
    sh(f"git -C /repo worktree remove --force {wt}")
    shutil.rmtree(wt, ignore_errors=True)
    r = sh(f"git -C /repo worktree add --detach {wt} HEAD")
    if r.returncode != 0:
        return {"error": "worktree: " + r.stderr}
    try:
        r = sh(f"git apply {d}/patch.diff", cwd=wt)
        if r.returncode != 0:
            return {"error": "patch does not apply: " + r.stderr[:300]}
        b = sh("go build ./...", cwd=wt)
        p, f = suite(wt)
        shutil.copy(os.path.join(d, "seeded_test.go"), os.path.join(wt, "zz_seeded_test.go"))
        w = sh("go test -vet=off -count=1 -run 'TestSeeded' .", cwd=wt)
        sh("git checkout -q -- .", cwd=wt)
        wo = sh("go test -vet=off -count=1 -run 'TestSeeded' .", cwd=wt)
        last = lambda r: (r.stdout.strip().splitlines() or [r.stderr.strip()[-80:]])[-1][:70]
        return {
            "builds": "ok" if b.returncode == 0 else "FAIL",
            "existing_suite_with_change": "pass=%d fail=%s (baseline: pass=766, TestProvideLocation always fails)" % (p, f),
            "demo_with_change": "FAIL" if w.returncode != 0 else "ok (NOT failing)",
            "demo_without_change": last(wo),
            "_ok": b.returncode == 0 and p == 766 and f == ["TestProvideLocation"] and w.returncode != 0 and wo.returncode == 0,
        }
    finally:
        sh(f"git -C /repo worktree remove --force {wt}")
        shutil.rmtree(wt, ignore_errors=True)


def fire(seed):
    d = os.path.join(SEEDED, seed)
    st = sh("git -C /repo status --porcelain").stdout.strip()
    if st:
        raise SystemExit("/repo is not clean: " + st)
    ev = tempfile.mkdtemp(prefix="seedev.")
    r = sh(f"git -C /repo apply {d}/patch.diff")
    if r.returncode != 0:
        return None, "cannot apply to /repo: " + r.stderr
    try:
        def one(i):
            pid = "C%02d" % i
            r = sh(f"/verif/bin/digcheck -property {pid} -repo /repo -verif /verif -evidence-dir {ev}")
            return pid, r.returncode, r.stdout
        with ThreadPoolExecutor(10) as ex:
            res = list(ex.map(one, range(1, 21)))
    finally:
        sh("git -C /repo checkout -- .")
        shutil.rmtree(ev, ignore_errors=True)
    fired, first = [], ""
    own = seed.split("-")[0]
    for pid, rc, out in res:
        if rc != 0:
            v = len(re.findall(r"^violated:", out, re.M))
            u = len(re.findall(r"^UNDECIDED", out, re.M))
            fired.append("%s(%dv/%du)" % (pid, v, u))
        if pid == own:
            vs = [l for l in out.splitlines() if l.startswith("violated")]
            first = vs[0][:260] if vs else ""
            allv = sorted(set(re.sub(r" at .*", "", l)[:200] for l in vs))
    return fired, first, allv


def main():
    args = [a for a in sys.argv[1:] if not a.startswith("--")]
    noconf = "--no-confirm" in sys.argv
    allseeds = sorted(d for d in os.listdir(SEEDED) if os.path.exists(os.path.join(SEEDED, d, "patch.diff")))
    if "--all" in sys.argv:
        seeds = allseeds
    elif args:
        seeds = args
    else:
        seeds = [s for s in allseeds if not os.path.exists(os.path.join(SEEDED, s, "meta.json"))]
    r = sh("cd /verif/checker && go build -o /verif/bin/digcheck ./cmd/digcheck")
    if r.returncode != 0:
        raise SystemExit("digcheck does not build\n" + r.stderr)
    os.makedirs(WT, exist_ok=True)
    conf = {}
    if not noconf:
        with ThreadPoolExecutor(5) as ex:
            for s, c in zip(seeds, ex.map(confirm, seeds)):
                conf[s] = c
                print("CONFIRM", s, c, flush=True)
    sh("git -C /repo worktree prune")
    for s in seeds:
        fired, first, allv = fire(s)
        own = s.split("-")[0]
        mp = os.path.join(SEEDED, s, "meta.json")
        old = json.load(open(mp)) if os.path.exists(mp) else {}
        c = conf.get(s) or old.get("confirmed") or {}
        c.pop("_ok", None)
        meta = {
            "seed": s, "breaks_property": own,
            "needs_to_manifest": old.get("needs_to_manifest") or needs(s),
            "origin": "independent sub-agent given only the property text and a scratch worktree of /repo",
            "confirmed": c,
            "ran": ["tools/seedcheck.py %s (scratch worktree: git apply, go build, go test ./..., go test -run TestSeeded with and without the change; then git -C /repo apply, bin/digcheck for C01..C20, git -C /repo checkout -- .)" % s],
            "checks_fired_on_repo_with_patch": fired,
            "own_property_check_fired": len(allv) > 0,
            "first_report": first,
            "rules_reporting_for_own_property": allv,
        }
        json.dump(meta, open(mp, "w"), indent=1)
        print("FIRED", s, "own=%s" % meta["own_property_check_fired"], fired, "|", first[:150], flush=True)


if __name__ == "__main__":
    main()
