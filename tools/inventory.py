#!/usr/bin/env python3
"""inventory.py - prints the inventory table of DESIGN.md (section 9.x) from the evidence files of the last run,
the seeded corpus and known_findings.json. Development aid, not a registered check."""
import json, glob, os
V = os.path.dirname(os.path.dirname(os.path.abspath(__file__)))
kf = json.load(open(os.path.join(V, "known_findings.json")))["findings"]
tot = 0
print("| property | rules | obligations on the unchanged tree | known findings | seeds | rule ids |")
print("|---|---|---|---|---|---|")
for i in range(1, 21):
    p = "C%02d" % i
    ev = json.load(open(os.path.join(V, "evidence", p + ".json")))
    cov = ev["coverage"]
    per = cov.get("per_rule", {})
    n = sum(sum(v.values()) if isinstance(v, dict) else v for v in per.values())
    tot += n
    known = len({(f["rule"], f["construct"]) for f in kf if f["status"] == "known" and f["property"] == p})
    seeds = len(glob.glob(os.path.join(V, "seeded", p + "-*")))
    print("| %s | %d | %d | %d | %d | %s |" % (p, len(per), n, known, seeds, ", ".join(sorted(per))))
nb = len(glob.glob(os.path.join(V, "benign", "*.diff")))
fa = len(json.load(open(os.path.join(V, "benign", "KNOWN_FALSE_ALARMS.json")))["patches"])
nm = sum(len(json.load(open(os.path.join(V, "mutants", f))).get("mutants", json.load(open(os.path.join(V, "mutants", f))).get("reversals", []))) if isinstance(json.load(open(os.path.join(V, "mutants", f))), dict) else len(json.load(open(os.path.join(V, "mutants", f)))) for f in ("mutants.json", "reversals.json", "sweep.json"))
print()
print("Total obligations: %d. Seeds: %d. Benign: %d (%d documented false alarms). Self-test mutants: %d. Repairs: %d, known findings: %d." % (
    tot, len(glob.glob(os.path.join(V, "seeded", "C*-*"))), nb, fa, nm,
    len({f.get("id") for f in kf if f["status"] == "fixed"}), len({f.get("id") for f in kf if f["status"] == "known"})))
