#!/bin/bash
# usage: try_benign.sh <dir-with-benign_*.diff>
for p in "$1"/benign_*.diff; do
  out=$(COLS=200 /verif/tools/try_patch.sh "$p" all 2>&1)
  n=$(echo "$out" | grep -c '^VIOLATION')
  u=$(echo "$out" | grep -c '^UNDECIDED')
  echo "$(basename $(dirname $p))/$(basename $p): violations=$n undecided=$u $(echo "$out" | grep -E 'PATCH|BUILD' )"
  echo "$out" | grep '^violated' | sed 's/ at .*//' | sort -u | head -6 | sed 's/^/    /'
  echo "$out" | grep '^UNDECIDED' | cut -c1-200 | sort -u | head -3 | sed 's/^/    /'
done
