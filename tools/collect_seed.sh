#!/bin/bash
# usage: collect_seed.sh <round-dir e.g. /tmp/seed4> <suffix e.g. d> <Cnn>...
# Copies a sub-agent's deliverables into /verif/seeded/<Cnn>-<suffix>/ and removes its scratch worktree.
R=$1; SUF=$2; shift 2
for P in "$@"; do
  O=$R/$P/_out
  if [ ! -f $O/patch.diff ] || [ ! -f $O/seeded_test.go ]; then echo "$P: deliverables missing"; continue; fi
  D=/verif/seeded/$P-$SUF
  mkdir -p $D && cp $O/patch.diff $O/seeded_test.go $D/ && cp $O/NOTES.md $D/ 2>/dev/null
  git -C /repo worktree remove --force $R/$P && echo "$P: collected into $D, worktree removed"
done
git -C /repo worktree prune
