#!/usr/bin/env python3
"""Runs tools/confirm_seed.sh for every seeded change under /verif/seeded and
writes meta.json (what was confirmed, which checks fired when the patch was
applied to /repo itself and undone)."""
import json, os, re, subprocess, sys
NEEDS = {
 "C01-a": "two cooperating sites (decorator builds in the store parameter + buildWithDecorators passes the requesting scope): a decorator in an ancestor scope with another dependency that a descendant shadows, first demanded from the descendant",
 "C02-a": "a constructor whose dependency is decorated by a decorator consuming that constructor's own result (re-entrancy the cycle detector does not see)",
 "C03-a": "providers of one value group at two levels of one scope branch, first Invoke from the lower scope",
 "C04-a": "Export(true) from a non-root scope with a dependency private to that subtree",
 "C05-a": "a value-group edge whose producer sits in a strict ancestor scope of the consumer and depends back on it",
 "C06-a": "a Provide with Export(true) on a non-root scope rejected for a cycle, then any later use of the keys",
 "C07-a": "a decorator that panics in a container without RecoverFromPanics, the caller recovers and invokes again",
 "C08-a": "Export(true) from a non-root scope with a dependency private to that subtree",
 "C09-a": "Export(true) from a child scope of a key the root already provides",
 "C10-a": "a group constructor with two or more As interfaces, the group first requested under the second interface",
 "C11-a": "a dig.In of shape [soft group, ordinary field, soft group] where the ordinary field's constructor feeds the trailing soft group",
 "C12-a": "decorators for one key at two scope levels, the inner one already run, the outer one not yet",
 "C13-a": "a constructor/decorator with a callback that panics in a container without RecoverFromPanics",
 "C14-a": "Invoke/Decorate with a group tag on a non-slice field (rejected), then any later Provide or unverified Invoke in that scope subtree",
 "C15-a": "a dig.In nested in a dig.In with an unprovided type in the inner struct, consumed through an optional field",
 "C16-a": "a child scope created after a group-consuming constructor was provided, with node 0 depending on that consumer",
 "C17-a": "DryRun(true) and Invoke called on a child scope (two cooperating sites: child no longer copies the invoker, invoker() reads the root's)",
 "C18-a": "FillInvokeInfo with a dig.In whose soft group field is declared before another field",
 "C19-a": "an Invoke failure whose root cause is a missing type reached through a value-group member",
 "C20-a": "a provider callback on a constructor that is re-entered through a decorator of its dependency",
 "C01-b": "Export(true) from a child scope, a dependency private to the child, consumed through an optional field (zero value stands in for an available dependency)",
 "C02-b": "two cooperating sites (Commit returns whether anything was staged; called = Commit(...)): a constructor whose only results are flattened groups returning an empty slice, demanded twice",
 "C03-b": "two cooperating sites (decorator builds in the store parameter + requesting scope passed to d.Call): ancestor decorator with a second dependency that a descendant shadows/decorates, first demand from the descendant",
 "C04-b": "optional field whose constructor exists, missing type two or more constructors below (errors.As replaced by a shallow type assertion)",
 "C05-b": "child scope created while the parent's node slice has spare capacity, then Provide to the child, then Provide to the parent (shared backing array)",
 "C06-b": "a Provide rejected for a cycle for a key without previous provider, then a later legitimate Provide of the same key (comma-ok presence test sees the restored nil entry)",
 "C07-b": "a decorator returning a value together with an error and consuming the key it decorates; a later Invoke of the same key",
 "C08-b": "key provided in an ancestor, resolved once from a descendant, then provided to a nearer scope, then resolved again (stale cached copy)",
 "C09-b": "dig.As on a constructor returning a dig.Out with a name-tagged field",
 "C10-b": "RecoverFromPanics container, a group feeder that panics on first execution, the group requested again",
 "C11-b": "soft consumer in a child scope with members of the group held in two enclosing scopes",
 "C12-b": "ancestor decorator consuming a second key that a descendant decorates, first resolution from the descendant (two cooperating sites)",
 "C13-b": "RecoverFromPanics and a caller classifying RootCause with errors.As(dig.Error) (PanicError gains writeMessage)",
 "C14-b": "VisualizeError with a value-group failure whose constructor id is not in the visualised graph (group decorator failure, or error of another container)",
 "C15-b": "a decorator whose results are a dig.Out nested in a dig.Out; consumer of the nested key first, or a second Decorate of it",
 "C16-b": "grandchild scope created before a registration two levels up, then a Provide into the grandchild consuming that type",
 "C17-b": "DryRun(true) and a variadic constructor/decorator/function actually reached by Invoke",
 "C18-b": "FillProvideInfo on a well-formed Provide that is rejected because it closes a cycle (no DeferAcyclicVerification)",
 "C19-b": "a Provide rejected by cycle detection followed by Visualize",
 "C20-b": "decorator with WithDecoratorCallback whose dependency fails to build or takes measurable time",
}
out = {}
for d in sorted(os.listdir("/verif/seeded")):
    p = os.path.join("/verif/seeded", d)
    if not os.path.isdir(p) or not os.path.exists(os.path.join(p, "patch.diff")):
        continue
    prop = d.split("-")[0]
    r = subprocess.run(["/verif/tools/confirm_seed.sh", d, prop, p, "/tmp/seed2/" + prop], capture_output=True, text=True)
    res = re.search(r"RESULT \S+ build=(\S+) suite: pass=(\d+) fail=(\[.*?\]) \| demo with change: (.*?) \| demo without: (.*)", r.stdout)
    fired = re.search(r"FIRED \S+:(.*)", r.stdout)
    firstv = [l for l in r.stdout.splitlines() if l.startswith("violated:")]
    fl = fired.group(1).split() if fired else []
    meta = {
        "seed": d, "breaks_property": prop, "needs_to_manifest": NEEDS.get(d, "see NOTES.md"),
        "origin": "independent sub-agent given only the property text and a scratch worktree of /repo",
        "confirmed": {
            "builds": res.group(1) if res else None,
            "existing_suite_with_change": f"pass={res.group(2)} fail={res.group(3)} (baseline: pass=766, TestProvideLocation always fails)" if res else None,
            "demo_with_change": res.group(4).strip() if res else None,
            "demo_without_change": res.group(5).strip() if res else None,
        },
        "ran": ["tools/confirm_seed.sh %s %s seeded/%s (applies patch in scratch worktree: go build, go test ./..., go test -run TestSeeded with and without the change; then git -C /repo apply, bin/digcheck for C01..C20, git -C /repo checkout -- .)" % (d, prop, d)],
        "checks_fired_on_repo_with_patch": fl,
        "own_property_check_fired": any(x.startswith(prop + "(") and not x.startswith(prop + "(0v") for x in fl),
        "first_report": firstv[0][:300] if firstv else "",
    }
    json.dump(meta, open(os.path.join(p, "meta.json"), "w"), indent=1)
    out[d] = (meta["own_property_check_fired"], fl)
    print(d, meta["own_property_check_fired"], " ".join(fl))
