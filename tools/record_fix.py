#!/usr/bin/env python3
"""record_fix.py ID PROP RULE "CONSTRUCT" "COMMIT MESSAGE (starts with fix:)" "WHAT FAILED" TESTFILE [more props for the reversal]
Protocol for a genuine defect whose rule already reports the unrepaired tree and whose repair is in /repo's working tree
(uncommitted): (1) the failing input (TESTFILE, package dig_test, TestHunt*/TestDefect*) FAILS on /repo HEAD and PASSES with
the working-tree change; (2) the suite is unchanged; (3) commit in /repo; (4) known_findings.json 'fixed' entry;
(5) reversal mutant for the thorough tier."""
import json, os, subprocess, sys, tempfile, shutil
ENV = dict(os.environ, GOFLAGS="-mod=mod", GOPROXY="off", GOSUMDB="off", GOTOOLCHAIN="local", CGO_ENABLED="0"); ENV.pop("GOWORK", None)
def sh(c, cwd=None): return subprocess.run(c, shell=True, cwd=cwd, env=ENV, capture_output=True, text=True)
ID, PROP, RULE, CONS, MSG, WHAT, TEST = sys.argv[1:8]
extra = sys.argv[8:]
assert MSG.startswith("fix:")
diff = sh("git -C /repo diff").stdout
assert diff.strip(), "no working-tree change in /repo"
d = tempfile.mkdtemp(prefix="fix.")
try:
    sh(f"git -C /repo archive HEAD | tar xf - -C {d}")
    shutil.copy(TEST, os.path.join(d, "zz_fix_test.go"))
    before = sh("go test -vet=off -count=1 -run 'TestHunt|TestDefect|TestAudit' .", cwd=d)
    open(os.path.join(d, "fix.diff"), "w").write(diff)
    a = sh("patch -p1 -s < fix.diff", cwd=d); assert a.returncode == 0, a.stderr
    after = sh("go test -vet=off -count=1 -run 'TestHunt|TestDefect|TestAudit' .", cwd=d)
    os.remove(os.path.join(d, "zz_fix_test.go"))
    suite = sh("go test -vet=off -count=1 ./... 2>&1 | grep -E '^--- FAIL' | grep -v TestProvideLocation", cwd=d)
finally:
    shutil.rmtree(d, ignore_errors=True)
print("before:", "FAIL" if before.returncode else "pass(!)", "| after:", "pass" if after.returncode == 0 else "FAIL(!)", "| extra suite failures:", suite.stdout.strip() or "none")
if before.returncode == 0 or after.returncode != 0 or suite.stdout.strip():
    print(before.stdout[-600:], after.stdout[-800:]); sys.exit(1)
r = sh(f"git -C /repo commit -qam {json.dumps(MSG)}"); assert r.returncode == 0, r.stderr
h = sh("git -C /repo log --format=%h -1").stdout.strip()
open(f"/verif/mutants/rev-{h}.patch", "w").write(sh("git -C /repo diff HEAD HEAD~1").stdout)
kf = json.load(open("/verif/known_findings.json"))
kf["findings"].append({"status": "fixed", "id": ID, "property": PROP, "rule": RULE, "construct": CONS, "commit": h,
                       "what": f"fixed: property={PROP} {h} {WHAT} (failing input: {os.path.relpath(TEST, '/verif')})"})
json.dump(kf, open("/verif/known_findings.json", "w"), indent=1)
rv = json.load(open("/verif/mutants/reversals.json"))
rv["mutants"].append({"id": "R-" + h, "props": [PROP] + extra, "expect": "fire", "patch": f"mutants/rev-{h}.patch", "desc": f"{ID} reverted: {WHAT[:90]}"})
json.dump(rv, open("/verif/mutants/reversals.json", "w"), indent=1)
print("committed", h)
# corpus patches that no longer apply
for root in ("/verif/seeded", "/verif/benign"):
    for dp, dn, fn in os.walk(root):
        for f in fn:
            if f.endswith(".diff"):
                p = os.path.join(dp, f)
                if sh(f"git -C /repo apply --check {p}").returncode != 0:
                    print("NOAPPLY", p)
