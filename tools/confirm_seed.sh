#!/bin/bash
# usage: confirm_seed.sh <seed-id> <property> <outdir-with-patch.diff+seeded_test.go> [worktree]
# Confirms a seeded change independently: (1) builds, (2) existing suite unchanged,
# (3) demo fails with the change, (4) demo passes without it, (5) which checks fire
# when the patch is applied to /repo itself (undone straight afterwards).
export GOFLAGS=-mod=mod GOPROXY=off GOSUMDB=off GOTOOLCHAIN=local CGO_ENABLED=0
unset GOWORK
ID=$1; PROP=$2; OUT=$3; WT=${4:-/tmp/seed3/$PROP}
set -u
cd "$WT" || exit 3
git checkout -q -- . ; rm -f zz_seeded_test.go
git apply "$OUT/patch.diff" || { echo "RESULT $ID patch does not apply"; exit 3; }
BUILD=ok; go build ./... >/dev/null 2>&1 || BUILD=fail
SUITE=$(go test -vet=off -count=1 -json ./... 2>/dev/null | python3 -c "
import sys,json
f=set();p=0
for l in sys.stdin:
    try:e=json.loads(l)
    except:continue
    if e.get('Test') and e['Action']=='fail': f.add(e['Test'])
    if e.get('Test') and e['Action']=='pass': p+=1
print('pass=%d fail=%s'%(p,sorted(f)))")
cp "$OUT/seeded_test.go" zz_seeded_test.go
WITH=$(go test -vet=off -count=1 -run 'TestSeeded' . 2>&1 | tail -1 | cut -c1-60)
git checkout -q -- .
WITHOUT=$(go test -vet=off -count=1 -run 'TestSeeded' . 2>&1 | tail -1 | cut -c1-60)
rm -f zz_seeded_test.go
echo "RESULT $ID build=$BUILD suite: $SUITE | demo with change: $WITH | demo without: $WITHOUT"
# checks against /repo itself
git -C /repo apply "$OUT/patch.diff" || { echo "cannot apply to /repo"; exit 3; }
FIRED=""
for i in $(seq -w 1 20); do
  if ! /verif/bin/digcheck -property C$i -repo /repo -verif /verif -evidence-dir /tmp/seedev >/tmp/seedev.$i.log 2>&1; then
    FIRED="$FIRED C$i($(grep -c '^VIOLATION' /tmp/seedev.$i.log)v/$(grep -c '^UNDECIDED' /tmp/seedev.$i.log)u)"
  fi
done
git -C /repo checkout -- .
echo "FIRED $ID:$FIRED"
grep -h '^violated' /tmp/seedev.${PROP#C}.log 2>/dev/null | cut -c1-220 | head -5
rm -rf /tmp/seedev /tmp/seedev.*.log
