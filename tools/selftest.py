#!/usr/bin/env python3
"""Checker self-test for the thorough tier: applies semantic mutants to scratch
copies of /repo's CURRENT tree (never to /repo) and checks that the property's
rules fire on property-breaking mutants and stay silent on behaviour-preserving
ones. Results are evidence about the checker only."""
import json, os, shutil, subprocess, sys, tempfile
from concurrent.futures import ThreadPoolExecutor

VERIF = os.path.dirname(os.path.dirname(os.path.abspath(__file__)))
REPO = os.environ.get("VERIF_REPO", "/repo")
ENV = dict(os.environ, GOFLAGS="-mod=mod", GOPROXY="off", GOSUMDB="off", GOTOOLCHAIN="local", CGO_ENABLED="0")
ENV.pop("GOWORK", None)

def scratch():
    d = tempfile.mkdtemp(prefix="digmut.")
    files = subprocess.run(["git", "-C", REPO, "ls-files", "-z"], capture_output=True).stdout.split(b"\0")
    for f in files:
        if not f:
            continue
        f = f.decode()
        if f.endswith("_test.go") or f.startswith("testdata/") or f.startswith("docs/") or f.startswith(".github"):
            continue
        src = os.path.join(REPO, f)
        if not os.path.isfile(src):
            continue
        dst = os.path.join(d, f)
        os.makedirs(os.path.dirname(dst), exist_ok=True)
        shutil.copyfile(src, dst)
    return d

def run_one(m, prop):
    d = scratch()
    try:
        if "patch" in m:
            r = subprocess.run(["patch", "-p1", "-s", "-f", "-i", os.path.join(VERIF, m["patch"])], cwd=d, capture_output=True, text=True)
            if r.returncode != 0:
                return dict(id=m["id"], outcome="skipped", why="patch does not apply to the current tree")
        else:
            p = os.path.join(d, m["file"])
            s = open(p).read()
            if m["old"] not in s:
                return dict(id=m["id"], outcome="skipped", why="anchor text no longer present")
            open(p, "w").write(s.replace(m["old"], m["new"], 1))
        b = subprocess.run(["go", "build", "./..."], cwd=d, env=ENV, capture_output=True, text=True)
        if b.returncode != 0:
            return dict(id=m["id"], outcome="invalid", why="mutant does not compile: " + b.stderr[-200:])
        r = subprocess.run([os.path.join(VERIF, "bin/digcheck"), "-property", prop, "-repo", d, "-verif", VERIF,
                            "-evidence-dir", os.path.join(d, ".ev")], env=ENV, capture_output=True, text=True)
        fired = [l for l in r.stdout.splitlines() if l.startswith("violated:")]
        rules = sorted({l.split("]")[0].split("[")[1] for l in fired})
        if m["expect"] == "fire":
            # a real "violated:" obligation is required; a merely undecided rule does not count as catching the mutant
            ok = r.returncode == 1 and len(fired) > 0
        else:
            ok = r.returncode == 0
        return dict(id=m["id"], expect=m["expect"], exit=r.returncode, rules=rules, outcome="ok" if ok else "MISS",
                    desc=m.get("desc", ""), first=(fired[0][:200] if fired else ""))
    finally:
        shutil.rmtree(d, ignore_errors=True)

def main():
    prop = sys.argv[1]
    ms = []
    for f in ("mutants/mutants.json", "mutants/reversals.json", "mutants/sweep.json"):
        p = os.path.join(VERIF, f)
        if os.path.exists(p):
            ms += [m for m in json.load(open(p))["mutants"] if prop in m["props"]]
    # independently seeded changes for this property must be reported by it
    sd = os.path.join(VERIF, "seeded")
    for d in sorted(os.listdir(sd)) if os.path.isdir(sd) else []:
        if d.split("-")[0] == prop and os.path.exists(os.path.join(sd, d, "patch.diff")):
            ms.append(dict(id="seed-" + d, patch=os.path.join("seeded", d, "patch.diff"), expect="fire", props=[prop],
                           desc="independently seeded property-breaking change (see seeded/%s/NOTES.md)" % d))
    # behaviour-preserving refactorings written by independent sub-agents must stay silent
    bd = os.path.join(VERIF, "benign")
    known_fa = {}
    if os.path.exists(os.path.join(bd, "KNOWN_FALSE_ALARMS.json")):
        known_fa = json.load(open(os.path.join(bd, "KNOWN_FALSE_ALARMS.json")))["patches"]
    for f in sorted(os.listdir(bd)) if os.path.isdir(bd) else []:
        if f.endswith(".diff"):
            ms.append(dict(id="benign-" + f[:-5], patch=os.path.join("benign", f), expect="silent", props=[prop],
                           desc="behaviour-preserving refactoring (see benign/*_NOTES.md)"))
    with ThreadPoolExecutor(max_workers=int(os.environ.get("VERIF_JOBS", "8"))) as ex:
        res = list(ex.map(lambda m: run_one(m, prop), ms))
    # documented limitations of the checker: an alarm on one of these refactorings is expected (DESIGN 9.10)
    for r in res:
        k = r["id"][len("benign-"):] if r["id"].startswith("benign-") else None
        if k in known_fa and r.get("outcome") == "MISS":
            r["outcome"] = "known-false-alarm"
            r["desc"] = "documented checker limitation: " + known_fa[k]
    json.dump(dict(property=prop, mutants=len(ms), results=res), sys.stdout, indent=1)

main()
