#!/bin/sh
# usage: try_patch.sh <patch-file> [property|all]
# Development aid: applies a patch to a scratch copy of /repo's current tree
# and runs the rules on it. Never touches /repo. Prints the verdict lines.
export GOFLAGS=-mod=mod GOPROXY=off GOSUMDB=off GOTOOLCHAIN=local CGO_ENABLED=0
unset GOWORK
P=$1; PROP=${2:-all}
D=$(mktemp -d /tmp/trypatch.XXXXXX)
trap 'rm -rf "$D"' EXIT
( cd /repo && git ls-files -z | xargs -0 tar cf - ) | tar xf - -C "$D"
( cd "$D" && git init -q . 2>/dev/null; patch -p1 -s < "$P" ) || { echo "PATCH DOES NOT APPLY"; exit 3; }
( cd "$D" && go build ./... ) || { echo "DOES NOT BUILD"; exit 3; }
/verif/bin/digcheck -property "$PROP" -repo "$D" -evidence-dir "$D/.ev" 2>&1 | grep -E '^(violated|VIOLATION|UNDECIDED|canonicalised)' | sed "s#$D/##g" | cut -c1-${COLS:-260}
