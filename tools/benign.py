#!/usr/bin/env python3
"""benign.py [pattern] [--prop Cnn]

Behaviour-preserving refactorings (written by independent sub-agents who saw nothing of /verif;
each builds and leaves the suite unchanged) must stay SILENT. Applies every /verif/benign/*.diff
to a scratch copy of /repo's current tree (temp dir, removed afterwards) and runs the rules.
A patch that no longer applies is skipped. Exit 1 if any applied patch raises a violation or
an undecided verdict (that is a false alarm of the checker, never a finding about /repo)."""
import glob, os, shutil, subprocess, sys, tempfile
from concurrent.futures import ThreadPoolExecutor

VERIF = os.path.dirname(os.path.dirname(os.path.abspath(__file__)))
REPO = os.environ.get("VERIF_REPO", "/repo")
ENV = dict(os.environ, GOFLAGS="-mod=mod", GOPROXY="off", GOSUMDB="off", GOTOOLCHAIN="local", CGO_ENABLED="0")
ENV.pop("GOWORK", None)


def scratch():
    d = tempfile.mkdtemp(prefix="digbenign.")
    files = subprocess.run(["git", "-C", REPO, "ls-files", "-z"], capture_output=True).stdout.split(b"\0")
    for f in files:
        f = f.decode()
        if not f or f.endswith("_test.go") or f.startswith(("testdata/", "docs/", ".github")):
            continue
        src = os.path.join(REPO, f)
        if os.path.isfile(src):
            dst = os.path.join(d, f)
            os.makedirs(os.path.dirname(dst), exist_ok=True)
            shutil.copyfile(src, dst)
    return d


def run(args):
    p, prop = args
    d = scratch()
    try:
        r = subprocess.run(["patch", "-p1", "-s", "-f", "-i", p], cwd=d, capture_output=True, text=True)
        if r.returncode != 0:
            return dict(p=p, status="skipped (does not apply)")
        b = subprocess.run(["go", "build", "./..."], cwd=d, env=ENV, capture_output=True, text=True)
        if b.returncode != 0:
            return dict(p=p, status="skipped (does not build): " + b.stderr[-150:])
        r = subprocess.run([os.path.join(VERIF, "bin/digcheck"), "-property", prop, "-repo", d, "-verif", VERIF,
                            "-evidence-dir", os.path.join(d, ".ev")], env=ENV, capture_output=True, text=True)
        v = sorted({l.split(" at ")[0][:230] for l in r.stdout.splitlines() if l.startswith("violated:")})
        u = sorted({l[:230] for l in r.stdout.splitlines() if l.startswith(("undecided:", "UNDECIDED"))})
        props = sorted({l.split("property=")[1].split()[0] for l in r.stdout.splitlines() if l.startswith(("VIOLATION", "UNDECIDED"))})
        return dict(p=p, status="silent" if r.returncode == 0 else "ALARM", v=v, u=u, props=props, rc=r.returncode)
    finally:
        shutil.rmtree(d, ignore_errors=True)


def main():
    args = [a for a in sys.argv[1:] if not a.startswith("--")]
    prop = "all"
    if "--prop" in sys.argv:
        prop = sys.argv[sys.argv.index("--prop") + 1]
        args = [a for a in args if a != prop]
    pat = args[0] if args else "*"
    ps = sorted(glob.glob(os.path.join(VERIF, "benign", pat + ".diff")))
    bad = known = 0
    import json
    kf = {}
    if os.path.exists(os.path.join(VERIF, "benign", "KNOWN_FALSE_ALARMS.json")):
        kf = json.load(open(os.path.join(VERIF, "benign", "KNOWN_FALSE_ALARMS.json")))["patches"]
    with ThreadPoolExecutor(6) as ex:
        for r in ex.map(run, [(p, prop) for p in ps]):
            name = os.path.basename(r["p"])
            if r["status"] == "ALARM" and name[:-5] in kf:
                known += 1
                print("%-22s known false alarm props=%s (%s)" % (name, ",".join(r["props"]), kf[name[:-5]]))
            elif r["status"] == "ALARM":
                bad += 1
                print("%-22s ALARM props=%s" % (name, ",".join(r["props"])))
                for l in r["v"][:8]:
                    print("      " + l)
                for l in r["u"][:4]:
                    print("      " + l)
            else:
                print("%-22s %s" % (name, r["status"]))
            sys.stdout.flush()
    print("benign patches: %d, unexpected alarms: %d, documented false alarms: %d" % (len(ps), bad, known))
    sys.exit(1 if bad else 0)


if __name__ == "__main__":
    main()
