#!/bin/sh
# usage: scratch.sh <patch> -> prints a scratch dir with the patch applied (caller removes it)
D=$(mktemp -d /tmp/scr.XXXXXX)
( cd /repo && git ls-files -z | xargs -0 tar cf - ) | tar xf - -C "$D"
( cd "$D" && patch -p1 -s < "$1" ) || { echo "PATCH DOES NOT APPLY" >&2; exit 3; }
echo $D
