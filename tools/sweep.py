#!/usr/bin/env python3
"""sweep.py <candidates.json> [id-prefix]

Development aid (not a registered check): tries single-edit candidate mutants of /repo's CURRENT
tree in scratch copies under a temp dir (removed afterwards). For each candidate:
  compiles?  survives the existing suite?  which properties' checks report it?
Candidates: [{"id":..., "file":..., "old":..., "new":..., "props":[...], "desc":...}, ...]
Prints one line per candidate; survivors that their own properties do not report are gaps
(or equivalent mutants - to be decided by reading)."""
import json, os, shutil, subprocess, sys, tempfile
from concurrent.futures import ThreadPoolExecutor

VERIF = "/verif"
REPO = "/repo"
ENV = dict(os.environ, GOFLAGS="-mod=mod", GOPROXY="off", GOSUMDB="off", GOTOOLCHAIN="local", CGO_ENABLED="0")
ENV.pop("GOWORK", None)


def scratch():
    d = tempfile.mkdtemp(prefix="digsweep.")
    files = subprocess.run(["git", "-C", REPO, "ls-files", "-z"], capture_output=True).stdout.split(b"\0")
    for f in files:
        if not f:
            continue
        f = f.decode()
        if f.startswith("docs/") or f.startswith(".github"):
            continue
        src = os.path.join(REPO, f)
        if not os.path.isfile(src):
            continue
        dst = os.path.join(d, f)
        os.makedirs(os.path.dirname(dst), exist_ok=True)
        shutil.copyfile(src, dst)
    return d


def run(m):
    d = scratch()
    try:
        edits = m.get("edits") or [m]
        for e in edits:
            p = os.path.join(d, e["file"])
            s = open(p).read()
            if e["old"] not in s:
                return dict(id=m["id"], status="ANCHOR-MISSING")
            open(p, "w").write(s.replace(e["old"], e["new"], 1))
        b = subprocess.run(["go", "build", "./..."], cwd=d, env=ENV, capture_output=True, text=True)
        if b.returncode != 0:
            return dict(id=m["id"], status="NOCOMPILE", why=b.stderr[-300:])
        t = subprocess.run("go test -vet=off -count=1 ./... 2>&1 | grep -E '^(--- FAIL|FAIL|panic)' | grep -v TestProvideLocation | head -5",
                           shell=True, cwd=d, env=ENV, capture_output=True, text=True)
        fails = [l for l in t.stdout.splitlines() if l.startswith("--- FAIL") or l.startswith("panic")]
        survived = len(fails) == 0
        # digcheck needs a tree without stray dirs; run all properties in one process
        r = subprocess.run([os.path.join(VERIF, "bin/digcheck"), "-property", "all", "-repo", d, "-verif", VERIF,
                            "-evidence-dir", os.path.join(d, ".ev")], env=ENV, capture_output=True, text=True)
        fired = {}
        und = set()
        for l in r.stdout.splitlines():
            if l.startswith("VIOLATION property="):
                pid = l.split("property=")[1].split()[0]
                base = l.split("replay=")[-1].split("/")[-1]
                import re as _re
                if _re.search(r"-(u\d+|load)\.json$", base):
                    continue  # an undecided obligation, listed separately
                fired[pid] = fired.get(pid, 0) + 1
            if l.startswith("UNDECIDED property="):
                und.add(l.split("property=")[1].split()[0])
        rules = sorted({l.split("]")[0].split("[")[1] for l in r.stdout.splitlines() if l.startswith("violated:")})
        own = [p for p in m.get("props", []) if p in fired]
        return dict(id=m["id"], status="SURVIVES" if survived else "killed", fired=sorted(fired), und=sorted(und), rules=rules,
                    own_ok=bool(own) if m.get("props") else None, props=m.get("props"), desc=m.get("desc", ""), killed_by=fails[:2])
    finally:
        shutil.rmtree(d, ignore_errors=True)


def main():
    cands = json.load(open(sys.argv[1]))
    if len(sys.argv) > 2:
        cands = [c for c in cands if c["id"].startswith(sys.argv[2])]
    subprocess.run("cd /verif/checker && go build -o /verif/bin/digcheck ./cmd/digcheck", shell=True, env=ENV, check=True)
    with ThreadPoolExecutor(6) as ex:
        for r in ex.map(run, cands):
            if r["status"] in ("ANCHOR-MISSING", "NOCOMPILE"):
                print("%-28s %s %s" % (r["id"], r["status"], r.get("why", "")[-160:].replace("\n", " ")), flush=True)
                continue
            tag = "GAP " if (r["own_ok"] is False) else "    "
            print("%s%-28s %-8s props=%s fired=%s und=%s rules=%s | %s" % (tag, r["id"], r["status"], ",".join(r["props"] or []), ",".join(r["fired"]) or "-", ",".join(r["und"]) or "-", ",".join(r["rules"]) or "-", r["desc"]), flush=True)


if __name__ == "__main__":
    main()
