#!/usr/bin/env python3
"""automut.py [--files a.go,b.go] [--out notes/automut.jsonl] [--jobs N]

Development aid (not a registered check): MECHANICAL single-edit mutants of /repo's current non-test source
(condition negation, statement deletion, break<->continue, &&<->||, true<->false returns, comparator flips in
compound conditions). Each mutant is applied to a scratch copy under a temp dir (removed afterwards), compiled,
run against the existing suite and - only if it SURVIVES the suite - run against all twenty checks.
Survivors that no check reports are candidates for a missing rule or equivalent mutants; to be decided by reading.
Never touches /repo."""
import json, os, re, shutil, subprocess, sys, tempfile
from concurrent.futures import ThreadPoolExecutor

VERIF = "/verif"
REPO = os.environ.get("VERIF_REPO", "/repo")
ENV = dict(os.environ, GOFLAGS="-mod=mod", GOPROXY="off", GOSUMDB="off", GOTOOLCHAIN="local", CGO_ENABLED="0")
ENV.pop("GOWORK", None)
# every scratch copy has its own directory, so its packages get build-cache entries of their own: a private cache,
# removed at exit, keeps a sweep from filling the disk
import atexit as _atexit, tempfile as _tempfile, shutil as _shutil
ENV["GOCACHE"] = _tempfile.mkdtemp(prefix="digtool-cache.")
_atexit.register(lambda: _shutil.rmtree(ENV["GOCACHE"], ignore_errors=True))


def files():
    out = subprocess.run(["git", "-C", REPO, "ls-files"], capture_output=True, text=True).stdout.split()
    return [f for f in out if f.endswith(".go") and not f.endswith("_test.go") and not f.startswith(("docs/", "internal/digtest", "internal/digclock"))
            and f not in ("doc.go", "version.go")]


def func_at(lines, i):
    for j in range(i, -1, -1):
        m = re.match(r"^func (\([^)]*\) )?([A-Za-z_0-9]+)", lines[j])
        if m:
            recv = m.group(1) or ""
            r = re.search(r"\*?([A-Za-z_0-9]+)\)", recv)
            return (r.group(1) + "." if r else "") + m.group(2)
    return "?"


def gen(f):
    src = open(os.path.join(REPO, f)).read()
    lines = src.split("\n")
    ms = []
    in_block_comment = False
    depth_func = False
    for i, ln in enumerate(lines):
        st = ln.strip()
        if st.startswith("/*"):
            in_block_comment = True
        if in_block_comment:
            if "*/" in st:
                in_block_comment = False
            continue
        if not st or st.startswith("//"):
            continue
        if re.match(r"^func ", ln):
            depth_func = True
        if not ln.startswith("\t"):
            continue
        fn = func_at(lines, i)
        ind = ln[:len(ln) - len(ln.lstrip("\t"))]

        def add(op, new):
            if new != ln:
                ms.append(dict(id="%s:%d:%s" % (f, i + 1, op), file=f, line=i + 1, op=op, old=ln, new=new, func=fn))

        m = re.match(r"^(\t+)(if|} else if) (.*) \{$", ln)
        if m:
            cond = m.group(3)
            init = ""
            if "; " in cond and not cond.startswith("func"):
                k = cond.rindex("; ")
                init, cond = cond[:k + 2], cond[k + 2:]
            add("neg", "%s%s %s!(%s) {" % (m.group(1), m.group(2), init, cond))
            add("iffalse", "%s%s %sfalse && (%s) {" % (m.group(1), m.group(2), init, cond))
            add("iftrue", "%s%s %strue || (%s) {" % (m.group(1), m.group(2), init, cond))
            if " && " in cond:
                add("and2or", "%s%s %s%s {" % (m.group(1), m.group(2), init, cond.replace(" && ", " || ", 1)))
            if " || " in cond:
                add("or2and", "%s%s %s%s {" % (m.group(1), m.group(2), init, cond.replace(" || ", " && ", 1)))
            if " && " in cond or " || " in cond:
                parts = re.split(r"( && | \|\| )", cond)
                for pi in range(0, len(parts), 2):
                    q = list(parts)
                    if q[pi].startswith("!") and not q[pi].startswith("!("):
                        q[pi] = q[pi][1:]
                    elif " == " in q[pi]:
                        q[pi] = q[pi].replace(" == ", " != ", 1)
                    elif " != " in q[pi]:
                        q[pi] = q[pi].replace(" != ", " == ", 1)
                    elif re.match(r"^[A-Za-z_.()]+$", q[pi]):
                        q[pi] = "!" + q[pi]
                    else:
                        continue
                    add("flip%d" % (pi // 2), "%s%s %s%s {" % (m.group(1), m.group(2), init, "".join(q)))
            continue
        m = re.match(r"^(\t+)for (.*) := range (.+) \{$", ln)
        if m and not m.group(3).endswith(")") or (m and re.match(r"^[\w.\[\]()]+$", m.group(3))):
            add("skipfirst", "%sfor %s := range (%s)[1:] {" % (m.group(1), m.group(2), m.group(3)))
            add("skiplast", "%sfor %s := range (%s)[:len(%s)-1] {" % (m.group(1), m.group(2), m.group(3), m.group(3)))
            continue
        m = re.match(r"^(\t+)for (\w+) := 0; (\w+) < (.+); (\w+)\+\+ \{$", ln)
        if m:
            add("from1", "%sfor %s := 1; %s < %s; %s++ {" % (m.group(1), m.group(2), m.group(3), m.group(4), m.group(5)))
            add("tolast", "%sfor %s := 0; %s < %s-1; %s++ {" % (m.group(1), m.group(2), m.group(3), m.group(4), m.group(5)))
            continue
        if st == "defer func() {":
            # delete the whole deferred closure: find its end
            j = i + 1
            while j < len(lines) and not (lines[j].startswith(ind + "}(") and lines[j].strip().startswith("}(")):
                j += 1
            if j < len(lines):
                ms.append(dict(id="%s:%d:deldefer" % (f, i + 1), file=f, line=i + 1, op="deldefer", old=ln, new=ind + "_ = func() {", func=fn,
                               extra={"line": j + 1, "old": lines[j], "new": ind + "}"}))
            continue
        if st == "break":
            add("brk2cont", ind + "continue")
            continue
        if st == "continue":
            add("cont2brk", ind + "break")
            continue
        if st == "return true":
            add("ret", ind + "return false")
            continue
        if st == "return false":
            add("ret", ind + "return true")
            continue
        # single-line statements that can be deleted
        if st.endswith(("{", "(", ",", "}", ")}", "})")) and not re.match(r"^[\w.\[\]*]+(\(.*\))$", st):
            continue
        if st.startswith(("return", "case ", "default:", "var ", "go ", "goto ", "fallthrough", "type ", "const ", "}", ")", "\"", "`", "fmt.Sprintf", "func")):
            continue
        if ln.count("(") != ln.count(")") or ln.count("{") != ln.count("}"):
            continue
        # only inside function bodies: previous non-blank context is hard to know; accept lines that look like statements
        if re.match(r"^[\w.\[\]*()]+(, [\w.\[\]*()]+)* (=|\+=|-=|\|=) .+$", st) or re.match(r"^[\w.\[\]*()]+(\+\+|--)$", st) \
                or re.match(r"^(defer )?[\w.\[\]()]+\(.*\)$", st) or re.match(r"^delete\(.*\)$", st):
            add("del", ind + "_ = 0 // deleted")
    return ms


def scratch():
    d = tempfile.mkdtemp(prefix="digauto.")
    fl = subprocess.run(["git", "-C", REPO, "ls-files", "-z"], capture_output=True).stdout.split(b"\0")
    for f in fl:
        if not f:
            continue
        f = f.decode()
        if f.startswith(("docs/", ".github")):
            continue
        src = os.path.join(REPO, f)
        if os.path.isfile(src):
            dst = os.path.join(d, f)
            os.makedirs(os.path.dirname(dst), exist_ok=True)
            shutil.copyfile(src, dst)
    return d


def run(m):
    d = scratch()
    try:
        p = os.path.join(d, m["file"])
        lines = open(p).read().split("\n")
        assert lines[m["line"] - 1] == m["old"]
        lines[m["line"] - 1] = m["new"]
        if m.get("extra"):
            assert lines[m["extra"]["line"] - 1] == m["extra"]["old"]
            lines[m["extra"]["line"] - 1] = m["extra"]["new"]
        open(p, "w").write("\n".join(lines))
        b = subprocess.run(["go", "build", "./..."], cwd=d, env=ENV, capture_output=True, text=True)
        if b.returncode != 0:
            return dict(m, status="nocompile")
        v = subprocess.run(["go", "vet", "./..."], cwd=d, env=ENV, capture_output=True, text=True)
        t = subprocess.run("timeout 120 go test -vet=off -count=1 ./... 2>&1 | grep -E '^(--- FAIL|FAIL|panic|ok )' | grep -v TestProvideLocation | head -8",
                           shell=True, cwd=d, env=ENV, capture_output=True, text=True)
        fails = [l for l in t.stdout.splitlines() if l.startswith("--- FAIL") or l.startswith("panic")]
        pk_fail = [l for l in t.stdout.splitlines() if l.startswith("FAIL") and "go.uber.org/dig\t" not in l and l.strip() != "FAIL"]
        oks = [l for l in t.stdout.splitlines() if l.startswith("ok ")]
        if fails or pk_fail or len(oks) < 3:
            return dict(m, status="killed", by=(fails + pk_fail)[:1])
        r = subprocess.run([os.path.join(VERIF, "bin/digcheck"), "-property", "all", "-repo", d, "-verif", VERIF,
                            "-evidence-dir", os.path.join(d, ".ev")], env=ENV, capture_output=True, text=True)
        fired, und = set(), set()
        for l in r.stdout.splitlines():
            if l.startswith("VIOLATION property="):
                pid = l.split("property=")[1].split()[0]
                base = l.split("replay=")[-1].split("/")[-1]
                if re.search(r"-(u\d+|load)\.json$", base):
                    und.add(pid)
                else:
                    fired.add(pid)
        rules = sorted({l.split("]")[0].split("[")[1] for l in r.stdout.splitlines() if l.startswith("violated:")})
        return dict(m, status="survives", fired=sorted(fired), und=sorted(und), rules=rules, vet=(v.returncode != 0))
    except Exception as x:
        return dict(m, status="error", why=str(x)[:200])
    finally:
        shutil.rmtree(d, ignore_errors=True)


def main():
    fs = files()
    out = os.path.join(VERIF, "notes/automut.jsonl")
    jobs = 10
    only = None
    ops = None
    a = sys.argv[1:]
    while a:
        if a[0] == "--files":
            fs = a[1].split(","); a = a[2:]
        elif a[0] == "--out":
            out = a[1]; a = a[2:]
        elif a[0] == "--jobs":
            jobs = int(a[1]); a = a[2:]
        elif a[0] == "--ops":
            ops = set(a[1].split(",")); a = a[2:]
        elif a[0] == "--only":
            only = a[1]; a = a[2:]
        elif a[0] == "--list":
            ms = [m for f in fs for m in gen(f)]
            if ops:
                ms = [m for m in ms if m["op"] in ops]
            for m in ms:
                print(m["id"], "|", m["new"].strip())
            print(len(ms))
            return
        else:
            a = a[1:]
    subprocess.run("cd /verif/checker && go build -o /verif/bin/digcheck ./cmd/digcheck", shell=True, env=ENV, check=True)
    ms = [m for f in fs for m in gen(f)]
    if ops:
        ms = [m for m in ms if m["op"] in ops]
    if only:
        ids = set(open(only).read().split())
        ms = [m for m in ms if m["id"] in ids]
    print("mutants:", len(ms), flush=True)
    n = dict(nocompile=0, killed=0, survives=0, error=0)
    gaps = 0
    with open(out, "w") as o, ThreadPoolExecutor(jobs) as ex:
        for r in ex.map(run, ms):
            n[r["status"]] += 1
            o.write(json.dumps(r) + "\n"); o.flush()
            if r["status"] == "survives":
                caught = bool(r["fired"])
                if not caught:
                    gaps += 1
                print("%s %-34s %-22s fired=%s und=%s | %s" % ("    " if caught else "GAP ", r["id"], r["func"], ",".join(r["fired"]) or "-", ",".join(r["und"]) or "-", r["new"].strip()[:110]), flush=True)
    print(n, "uncaught survivors:", gaps)


if __name__ == "__main__":
    main()
