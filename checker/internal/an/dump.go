package an

import (
	"fmt"
	"strings"

	"golang.org/x/tools/go/ssa"
)

// Dump prints the SSA of functions whose short name contains pat, with
// normalised values; a development aid.
func Dump(p *Prog, pat string) {
	for _, fn := range p.Funcs {
		if !strings.Contains(ShortName(fn), pat) {
			continue
		}
		fmt.Printf("== %s\n", ShortName(fn))
		for _, b := range fn.Blocks {
			fmt.Printf(" b%d (%s) preds=%d\n", b.Index, b.Comment, len(b.Preds))
			for _, in := range b.Instrs {
				s := ""
				if v, ok := in.(ssa.Value); ok {
					s = v.Name() + " = " + Norm(v)
				} else {
					s = in.String()
				}
				if iff, ok := in.(*ssa.If); ok {
					s = "if " + CondString(iff.Cond, false) + " -> b" + fmt.Sprint(b.Succs[0].Index) + " else b" + fmt.Sprint(b.Succs[1].Index)
				}
				if st, ok := in.(*ssa.Store); ok {
					s = "store " + Norm(st.Addr) + " <- " + Norm(st.Val)
				}
				if c, ok := in.(ssa.CallInstruction); ok {
					if _, isv := in.(ssa.Value); !isv {
						s = in.String() + "   // " + CalleeName(c)
					}
				}
				fmt.Printf("    %-60s  %s\n", s, p.InstrPos(in))
			}
		}
	}
}
