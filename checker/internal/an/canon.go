package an

// Canonicalisation pre-pass: rules are anchored on the functions that exist in
// the tree they were written against (knownFuncs). A behaviour-preserving
// refactoring may (a) rename or move such a function, or (b) extract part of
// it into a NEW helper. Neither changes behaviour, so neither may change a
// verdict:
//
//   (a) a known function that is missing from the current source is matched
//       with the unique new function that has the same flattened signature
//       (receiver counted as first parameter); rules then resolve the known
//       name to it (an alias), parameters being referred to by position.
//   (b) every other new function of the analysed packages is inlined into its
//       static callers at source level with golang.org/x/tools' inliner
//       (a copy of internal/refactor/inline v0.29.0 under internal/xt), and
//       its declaration is dropped once unreferenced. The analysis then runs
//       on this equivalent program (go/packages overlay). Call sites the
//       inliner cannot reduce are left alone: the rules see an opaque call,
//       exactly as without the pre-pass.
//
// On a tree without new functions the pre-pass does nothing.

import (
	"bytes"
	"fmt"
	"go/ast"
	"go/format"
	"go/parser"
	"go/token"
	"go/types"
	"os"
	"path/filepath"
	"sort"
	"strings"

	"golang.org/x/tools/go/packages"
	"golang.org/x/tools/go/ssa"
	"golang.org/x/tools/go/types/typeutil"

	"verif/checker/internal/xt/inline"
)

// Canon describes what the pre-pass did.
type Canon struct {
	Overlay map[string][]byte // file name -> rewritten content
	Aliases map[string]string // current short name -> known short name
	Notes   []string
}

var aliasByCurrent = map[string]string{} // set by Load; consulted by ShortName

func shortFuncName(f *types.Func) string {
	return strings.ReplaceAll(f.FullName(), ModPath, "dig")
}

// SigKey renders the flattened signature of a function: receiver (if any)
// first, then parameters, then results.
func SigKey(f *types.Func) string {
	sig := f.Type().(*types.Signature)
	q := func(p *types.Package) string { return p.Path() }
	var parts []string
	if r := sig.Recv(); r != nil {
		parts = append(parts, types.TypeString(r.Type(), q))
	}
	for i := 0; i < sig.Params().Len(); i++ {
		parts = append(parts, types.TypeString(sig.Params().At(i).Type(), q))
	}
	s := "(" + strings.Join(parts, ", ") + ")"
	if sig.Variadic() {
		s += "..."
	}
	var rs []string
	for i := 0; i < sig.Results().Len(); i++ {
		rs = append(rs, types.TypeString(sig.Results().At(i).Type(), q))
	}
	return s + " -> (" + strings.Join(rs, ", ") + ")"
}

func analysedPkg(path string) bool {
	return strings.HasPrefix(path, ModPath) && !strings.Contains(path, "/internal/digtest")
}

type mapImporter map[string]*types.Package

func (m mapImporter) Import(path string) (*types.Package, error) {
	if p, ok := m[path]; ok {
		return p, nil
	}
	return nil, fmt.Errorf("package %q not loaded", path)
}

type checked struct {
	fset  *token.FileSet
	files []*ast.File
	names []string
	pkg   *types.Package
	info  *types.Info
}

func recheck(path string, names []string, content map[string][]byte, imp types.Importer, goVersion string) (*checked, error) {
	c := &checked{fset: token.NewFileSet(), names: names}
	for _, n := range names {
		f, err := parser.ParseFile(c.fset, n, content[n], parser.ParseComments|parser.SkipObjectResolution)
		if err != nil {
			return nil, err
		}
		c.files = append(c.files, f)
	}
	c.info = &types.Info{
		Types:        map[ast.Expr]types.TypeAndValue{},
		Defs:         map[*ast.Ident]types.Object{},
		Uses:         map[*ast.Ident]types.Object{},
		Implicits:    map[ast.Node]types.Object{},
		Instances:    map[*ast.Ident]types.Instance{},
		Scopes:       map[ast.Node]*types.Scope{},
		Selections:   map[*ast.SelectorExpr]*types.Selection{},
		FileVersions: map[*ast.File]string{},
	}
	var firstErr error
	conf := types.Config{Importer: imp, GoVersion: goVersion, Error: func(err error) {
		if firstErr == nil {
			firstErr = err
		}
	}}
	pkg, _ := conf.Check(path, c.fset, c.files, c.info)
	if firstErr != nil {
		return nil, firstErr
	}
	c.pkg = pkg
	return c, nil
}

// Canonicalize computes the overlay and alias table for the loaded packages.
// reload type-checks the module again under an overlay (used after renaming back).
func Canonicalize(pkgs []*packages.Package, reload func(map[string][]byte) ([]*packages.Package, error)) (*Canon, error) {
	cn := &Canon{Overlay: map[string][]byte{}, Aliases: map[string]string{}}
	if edits, notes := computeRenames(pkgs); len(edits) > 0 && reload != nil {
		ov := map[string][]byte{}
		for f, es := range edits {
			src, err := os.ReadFile(f)
			if err != nil {
				return nil, err
			}
			ov[f] = applyEdits(src, es)
		}
		if np, err := reload(ov); err == nil {
			pkgs = np
			for f, b := range ov {
				cn.Overlay[f] = b
			}
			cn.Notes = append(cn.Notes, notes...)
		} else {
			cn.Notes = append(cn.Notes, fmt.Sprintf("renaming back was abandoned (the renamed program does not type-check: %v)", err))
		}
	}
	// second stage: a known function that came back under its own name but as a method (or the other way round),
	// or with its parameters in another order, is given its known signature again
	currentOverlay = cn.Overlay
	if edits, notes := computeSignatureBacks(pkgs); len(edits) > 0 && reload != nil {
		ov := map[string][]byte{}
		for f, b := range cn.Overlay {
			ov[f] = b
		}
		okRead := true
		for f, es := range edits {
			src, have := cn.Overlay[f]
			if !have {
				var err error
				if src, err = os.ReadFile(f); err != nil {
					okRead = false
					break
				}
			}
			ov[f] = applyEdits(src, es)
		}
		if okRead {
			if np, err := reload(ov); err == nil {
				pkgs = np
				for f, b := range ov {
					cn.Overlay[f] = b
				}
				cn.Notes = append(cn.Notes, notes...)
			} else {
				cn.Notes = append(cn.Notes, fmt.Sprintf("restoring known signatures was abandoned (the rewritten program does not type-check: %v)", err))
			}
		}
	}
	// stage 2b: a known one-parameter function that became a parameterless method reading that argument from a field
	// of its receiver (`findResultKeys(dn.results)` -> `dn.resultKeys()`) is given its known form again
	currentOverlay = cn.Overlay
	for _, compute := range []func([]*packages.Package) (map[string][]renameEdit, []string){computeReceiverFieldBacks, computeFieldsToReceiverBacks, computeStructParamBacks, computeReceiverOwnerBacks} {
		edits, notes := compute(pkgs)
		if len(edits) == 0 || reload == nil {
			continue
		}
		currentOverlay = cn.Overlay
		ov := map[string][]byte{}
		for f, b := range cn.Overlay {
			ov[f] = b
		}
		okRead := true
		for f, es := range edits {
			src, have := cn.Overlay[f]
			if !have {
				var err error
				if src, err = os.ReadFile(f); err != nil {
					okRead = false
					break
				}
			}
			ov[f] = applyEdits(src, es)
		}
		if okRead {
			if np, err := reload(ov); err == nil {
				pkgs = np
				for f, b := range ov {
					cn.Overlay[f] = b
				}
				cn.Notes = append(cn.Notes, notes...)
			} else {
				cn.Notes = append(cn.Notes, fmt.Sprintf("moving arguments between the receiver and the parameter list was abandoned (the rewritten program does not type-check: %v)", err))
			}
		}
	}
	// third stage: a local closure that is only ever called (`f := func(..){..}` ... `f(x)`) is what a helper
	// function looks like when it is kept inside its only user: its calls are replaced by the literal itself,
	// which the unwrapping step then turns into plain statements
	if reload != nil {
		for _, pk := range pkgs {
			if !analysedPkg(pk.PkgPath) {
				continue
			}
			for _, name := range pk.CompiledGoFiles {
				src, have := cn.Overlay[name]
				if !have {
					b, err := os.ReadFile(name)
					if err != nil {
						continue
					}
					src = b
				}
				if !bytes.Contains(src, []byte(":= func(")) {
					continue
				}
				out, n := inlineLocalClosures(name, src)
				if n == 0 {
					continue
				}
				ov := map[string][]byte{}
				for f, b := range cn.Overlay {
					ov[f] = b
				}
				ov[name] = out
				np, err := reload(ov)
				if err != nil {
					cn.Notes = append(cn.Notes, fmt.Sprintf("local closures in %s were left alone (the rewritten program does not type-check: %v)", filepath.Base(name), err))
					continue
				}
				pkgs = np
				cn.Overlay[name] = out
				cn.Notes = append(cn.Notes, fmt.Sprintf("%d call(s) of local closures in %s replaced by the closure's literal", n, filepath.Base(name)))
				content := map[string][]byte{name: out}
				if k := flattenFile(name, content, func() error {
					ov2 := map[string][]byte{}
					for f, b := range cn.Overlay {
						ov2[f] = b
					}
					ov2[name] = content[name]
					_, err := reload(ov2)
					return err
				}); k > 0 {
					cn.Overlay[name] = content[name]
					ov3 := map[string][]byte{}
					for f, b := range cn.Overlay {
						ov3[f] = b
					}
					if np, err := reload(ov3); err == nil {
						pkgs = np
					}
					cn.Notes = append(cn.Notes, fmt.Sprintf("%d closure literal(s) in %s unwrapped into blocks", k, filepath.Base(name)))
				}
			}
		}
	}
	for _, pk := range pkgs {
		if !analysedPkg(pk.PkgPath) {
			continue
		}
		if err := canonPkg(cn, pk); err != nil {
			return nil, fmt.Errorf("canonicalising %s: %w", pk.PkgPath, err)
		}
	}
	return cn, nil
}

func declaredFuncs(c *checked) map[string]*ast.FuncDecl {
	out := map[string]*ast.FuncDecl{}
	for _, f := range c.files {
		for _, d := range f.Decls {
			if fd, ok := d.(*ast.FuncDecl); ok {
				if o, ok := c.info.Defs[fd.Name].(*types.Func); ok {
					out[shortFuncName(o)] = fd
				}
			}
		}
	}
	return out
}

func canonPkg(cn *Canon, pk *packages.Package) error {
	// quick exit: every declared function is known and no known one is missing
	prefix := strings.ReplaceAll(pk.PkgPath, ModPath, "dig")
	decl := map[string]*types.Func{}
	for _, f := range pk.Syntax {
		for _, d := range f.Decls {
			if fd, ok := d.(*ast.FuncDecl); ok {
				if o, ok := pk.TypesInfo.Defs[fd.Name].(*types.Func); ok {
					decl[shortFuncName(o)] = o
				}
			}
		}
	}
	var unknown []string
	for n := range decl {
		if _, ok := knownFuncs[n]; !ok && !strings.HasSuffix(n, ".init") {
			unknown = append(unknown, n)
		}
	}
	if len(unknown) == 0 {
		return nil
	}
	sort.Strings(unknown)
	// (a) renames / moves
	var missing []string
	for n := range knownFuncs {
		if knownPkgOf(n) == prefix {
			if _, ok := decl[n]; !ok {
				missing = append(missing, n)
			}
		}
	}
	sort.Strings(missing)
	isAlias := map[string]bool{}
	for _, m := range missing {
		var cands []string
		for _, u := range unknown {
			if !isAlias[u] && SigKey(decl[u]) == knownFuncs[m] {
				cands = append(cands, u)
			}
		}
		// the signature must single out one new function, and that function must not fit a second missing one
		if len(cands) == 1 {
			others := 0
			for _, m2 := range missing {
				if knownFuncs[m2] == knownFuncs[m] {
					others++
				}
			}
			if others == 1 {
				cn.Aliases[cands[0]] = m
				isAlias[cands[0]] = true
				cn.Notes = append(cn.Notes, fmt.Sprintf("%s is treated as the renamed/moved %s (same flattened signature)", cands[0], m))
			}
		}
	}
	// a method whose receiver was unused may have become a plain function of the same name (or a function may have
	// been hung onto a receiver it does not need): same name, same signature once the receiver is set aside
	dropFirst := func(sig string) string {
		i := strings.Index(sig, " -> ")
		if i < 2 {
			return sig
		}
		ps := splitTop(sig[1 : i-1])
		if len(ps) == 0 {
			return sig
		}
		return "(" + strings.Join(ps[1:], ", ") + ")" + sig[i:]
	}
	baseOf := func(n string) string { return n[strings.LastIndex(n, ".")+1:] }
	for _, m := range missing {
		already := false
		for _, k := range cn.Aliases {
			if k == m {
				already = true
			}
		}
		if already {
			continue
		}
		var cands []string
		for _, u := range unknown {
			if isAlias[u] || baseOf(u) != baseOf(m) {
				continue
			}
			mIsMethod, uIsMethod := strings.HasPrefix(m, "("), strings.HasPrefix(u, "(")
			if mIsMethod && !uIsMethod && dropFirst(knownFuncs[m]) == SigKey(decl[u]) {
				cands = append(cands, u)
			}
			if !mIsMethod && uIsMethod && knownFuncs[m] == dropFirst(SigKey(decl[u])) {
				cands = append(cands, u)
			}
		}
		if len(cands) == 1 {
			cn.Aliases[cands[0]] = m
			isAlias[cands[0]] = true
			cn.Notes = append(cn.Notes, fmt.Sprintf("%s is treated as %s (same name, same signature apart from the receiver)", cands[0], m))
		}
	}
	helpers := map[string]bool{}
	for _, u := range unknown {
		if !isAlias[u] {
			helpers[u] = true
		}
	}
	if len(helpers) == 0 {
		return nil
	}
	// (b) inline the new helpers
	imp := mapImporter{}
	for path, ip := range pk.Imports {
		imp[path] = ip.Types
	}
	names := append([]string{}, pk.CompiledGoFiles...)
	content := map[string][]byte{}
	for _, n := range names {
		if ob, ok := cn.Overlay[n]; ok {
			content[n] = ob
			continue
		}
		b, err := os.ReadFile(n)
		if err != nil {
			return err
		}
		content[n] = b
	}
	goVersion := ""
	if pk.Module != nil && pk.Module.GoVersion != "" {
		goVersion = "go" + pk.Module.GoVersion
	}
	failed := map[string]bool{}
	changed := false
	// helpers that (directly or through other helpers) call themselves cannot be inlined away: every round would
	// bring a new call of the helper into the caller. They stay as they are (opaque calls for the rules).
	if c0, err := recheck(pk.PkgPath, names, content, imp, goVersion); err == nil {
		decls0 := declaredFuncs(c0)
		callees := map[string]map[string]bool{}
		for h := range helpers {
			callees[h] = map[string]bool{}
			if fd := decls0[h]; fd != nil && fd.Body != nil {
				ast.Inspect(fd.Body, func(n ast.Node) bool {
					if call, ok := n.(*ast.CallExpr); ok {
						if f := typeutil.StaticCallee(c0.info, call); f != nil && helpers[shortFuncName(f)] {
							callees[h][shortFuncName(f)] = true
						}
					}
					return true
				})
			}
		}
		var rec []string
		for h := range helpers {
			seen := map[string]bool{}
			stack := []string{}
			for k := range callees[h] {
				stack = append(stack, k)
			}
			for len(stack) > 0 {
				x := stack[len(stack)-1]
				stack = stack[:len(stack)-1]
				if seen[x] {
					continue
				}
				seen[x] = true
				for k := range callees[x] {
					stack = append(stack, k)
				}
			}
			if seen[h] {
				rec = append(rec, h)
			}
		}
		sort.Strings(rec)
		for _, h := range rec {
			delete(helpers, h)
			cn.Notes = append(cn.Notes, fmt.Sprintf("new helper %s is recursive: not inlined, its calls stay opaque", h))
		}
	}
	for round := 0; round < 200; round++ {
		c, err := recheck(pk.PkgPath, names, content, imp, goVersion)
		if err != nil {
			return fmt.Errorf("re-check after inlining: %w", err)
		}
		decls := declaredFuncs(c)
		// pick a call site: prefer callees that call no other helper (innermost first)
		callsHelper := map[string]bool{}
		for h := range helpers {
			if fd := decls[h]; fd != nil && fd.Body != nil {
				ast.Inspect(fd.Body, func(n ast.Node) bool {
					if call, ok := n.(*ast.CallExpr); ok {
						if f := typeutil.StaticCallee(c.info, call); f != nil && helpers[shortFuncName(f)] && shortFuncName(f) != h {
							callsHelper[h] = true
						}
					}
					return true
				})
			}
		}
		type site struct {
			file   *ast.File
			fname  string
			call   *ast.CallExpr
			callee string
			key    string
		}
		var best *site
		for i, f := range c.files {
			for _, d := range f.Decls {
				fd, ok := d.(*ast.FuncDecl)
				if !ok || fd.Body == nil {
					continue
				}
				encl := ""
				if o, ok := c.info.Defs[fd.Name].(*types.Func); ok {
					encl = shortFuncName(o)
				}
				ord := 0
				ast.Inspect(fd.Body, func(n ast.Node) bool {
					call, ok := n.(*ast.CallExpr)
					if !ok {
						return true
					}
					fn := typeutil.StaticCallee(c.info, call)
					if fn == nil || fn.Pkg() != c.pkg {
						return true
					}
					h := shortFuncName(fn)
					if !helpers[h] || h == encl {
						return true
					}
					ord++
					key := fmt.Sprintf("%s>%s#%d", encl, h, ord)
					if failed[key] {
						return true
					}
					s := &site{file: f, fname: names[i], call: call, callee: h, key: key}
					if best == nil || (callsHelper[best.callee] && !callsHelper[h]) {
						best = s
					}
					return true
				})
			}
		}
		if best == nil {
			break
		}
		cd := decls[best.callee]
		var calleeFile string
		for i, f := range c.files {
			if f.Pos() <= cd.Pos() && cd.End() <= f.End() {
				calleeFile = names[i]
			}
		}
		logf := func(string, ...any) {}
		callee, err := inline.AnalyzeCallee(logf, c.fset, c.pkg, c.info, cd, content[calleeFile])
		if err != nil {
			failed[best.key] = true
			cn.Notes = append(cn.Notes, fmt.Sprintf("helper %s cannot be inlined (%v); its call in %s stays opaque", best.callee, err, best.key))
			continue
		}
		res, err := inline.Inline(&inline.Caller{Fset: c.fset, Types: c.pkg, Info: c.info, File: best.file, Call: best.call, Content: content[best.fname]}, callee, &inline.Options{Logf: logf})
		if err != nil {
			failed[best.key] = true
			cn.Notes = append(cn.Notes, fmt.Sprintf("call %s cannot be inlined (%v); it stays opaque", best.key, err))
			continue
		}
		// the result must still type-check; otherwise keep the call
		old := content[best.fname]
		content[best.fname] = res.Content
		if _, err := recheck(pk.PkgPath, names, content, imp, goVersion); err != nil {
			content[best.fname] = old
			failed[best.key] = true
			cn.Notes = append(cn.Notes, fmt.Sprintf("call %s: inlined form does not type-check (%v); it stays opaque", best.key, err))
			continue
		}
		changed = true
		lit := ""
		if res.Literalized {
			lit = " (as a function literal)"
			if n := flattenFile(best.fname, content, func() error {
				_, err := recheck(pk.PkgPath, names, content, imp, goVersion)
				return err
			}); n > 0 {
				lit = " (as a function literal, unwrapped into a block)"
			}
		}
		cn.Notes = append(cn.Notes, fmt.Sprintf("new helper %s inlined into %s%s", best.callee, strings.Split(best.key, ">")[0], lit))
	}
	if !changed {
		return nil
	}
	// drop helper declarations that are no longer referenced
	for h := range helpers {
		c, err := recheck(pk.PkgPath, names, content, imp, goVersion)
		if err != nil {
			return err
		}
		fd := declaredFuncs(c)[h]
		if fd == nil {
			continue
		}
		obj := c.info.Defs[fd.Name]
		used := false
		for _, o := range c.info.Uses {
			if o == obj {
				used = true
				break
			}
		}
		if used || ast.IsExported(fd.Name.Name) {
			continue
		}
		for i, f := range c.files {
			if !(f.Pos() <= fd.Pos() && fd.End() <= f.End()) {
				continue
			}
			var keep []ast.Decl
			for _, d := range f.Decls {
				if d != ast.Decl(fd) {
					keep = append(keep, d)
				}
			}
			f.Decls = keep
			// drop the doc comment group too
			if fd.Doc != nil {
				var cs []*ast.CommentGroup
				for _, g := range f.Comments {
					if g != fd.Doc {
						cs = append(cs, g)
					}
				}
				f.Comments = cs
			}
			var buf bytes.Buffer
			if err := format.Node(&buf, c.fset, f); err != nil {
				break
			}
			old := content[names[i]]
			content[names[i]] = buf.Bytes()
			if _, err := recheck(pk.PkgPath, names, content, imp, goVersion); err != nil {
				content[names[i]] = old // e.g. an import became unused: keep the declaration
			} else {
				cn.Notes = append(cn.Notes, fmt.Sprintf("declaration of inlined helper %s dropped", h))
			}
		}
	}
	for _, n := range names {
		orig, _ := os.ReadFile(n)
		if ob, ok := cn.Overlay[n]; ok {
			orig = ob
		}
		if !bytes.Equal(orig, content[n]) {
			cn.Overlay[n] = content[n]
		}
	}
	return nil
}

// knownPkgOf extracts the package prefix ("dig", "dig/internal/dot") of a known short name.
func knownPkgOf(n string) string {
	s := strings.TrimLeft(n, "(*")
	// s = dig/internal/dot.Graph).AddCtor  or dig.newParam
	i := strings.LastIndex(s, "/")
	j := strings.Index(s[i+1:], ".")
	if j < 0 {
		return s
	}
	return s[:i+1+j]
}

// aliasShort maps the String() of an SSA function through the alias table
// (closures of an aliased function included).
func aliasShort(fn *ssa.Function, s string) string {
	if len(aliasByCurrent) == 0 {
		return s
	}
	root := fn
	for root.Parent() != nil {
		root = root.Parent()
	}
	rs := strings.ReplaceAll(root.String(), ModPath, "dig")
	if k, ok := aliasByCurrent[rs]; ok && strings.HasPrefix(s, rs) {
		return k + s[len(rs):]
	}
	return s
}

// ---------------------------------------------------------------------------
// Flattening of immediately-invoked function literals.
//
// Where the inliner cannot reduce a call it emits `func(..) R { body }(args)`.
// For the statement forms below the literal is unwrapped into a block placed
// before the statement (a function literal's body and a block resolve names in
// exactly the same way, so no renaming is needed):
//
//	x := func() T { S; return e }()      =>  var r T; L: switch { default: S; r = e; break L }; x := r
//
// `return` inside the body becomes assignment + labelled break. Not flattened:
// bodies with defer, recover, goto or labels, named results, variadic literals,
// and statements whose other operands are not plain (calls, receives, index
// expressions), so that evaluation order is preserved.

type flattener struct {
	n int
}

func (fl *flattener) fresh(prefix string) string {
	fl.n++
	return fmt.Sprintf("inl%s%d", prefix, fl.n)
}

func plainExpr(e ast.Expr) bool {
	ok := true
	ast.Inspect(e, func(n ast.Node) bool {
		switch n.(type) {
		case *ast.CallExpr, *ast.IndexExpr, *ast.IndexListExpr, *ast.SliceExpr, *ast.TypeAssertExpr, *ast.FuncLit, *ast.StarExpr:
			ok = false
		case *ast.UnaryExpr:
			if n.(*ast.UnaryExpr).Op == token.ARROW {
				ok = false
			}
		case *ast.BinaryExpr:
			if op := n.(*ast.BinaryExpr).Op; op == token.QUO || op == token.REM {
				ok = false
			}
		}
		return ok
	})
	return ok
}

func iife(e ast.Expr) (*ast.CallExpr, *ast.FuncLit) {
	for {
		p, ok := e.(*ast.ParenExpr)
		if !ok {
			break
		}
		e = p.X
	}
	call, ok := e.(*ast.CallExpr)
	if !ok {
		return nil, nil
	}
	fun := call.Fun
	for {
		p, ok := fun.(*ast.ParenExpr)
		if !ok {
			break
		}
		fun = p.X
	}
	lit, ok := fun.(*ast.FuncLit)
	if !ok || call.Ellipsis.IsValid() {
		return nil, nil
	}
	return call, lit
}

func flattenable(lit *ast.FuncLit) bool {
	if lit.Type.TypeParams != nil {
		return false
	}
	for _, f := range lit.Type.Params.List {
		if _, ok := f.Type.(*ast.Ellipsis); ok {
			return false
		}
	}
	ok := true
	ast.Inspect(lit.Body, func(n ast.Node) bool {
		switch x := n.(type) {
		case *ast.FuncLit:
			return false // nested literals keep their own returns/defers
		case *ast.DeferStmt, *ast.LabeledStmt:
			ok = false
		case *ast.BranchStmt:
			if x.Tok == token.GOTO || x.Label != nil {
				ok = false
			}
		case *ast.CallExpr:
			if id, isID := x.Fun.(*ast.Ident); isID && id.Name == "recover" {
				ok = false
			}
		}
		return ok
	})
	return ok
}

// rewriteReturns replaces every return of the literal's own body by
// assignments to the result temporaries followed by `break label`.
func rewriteReturns(list []ast.Stmt, temps []string, named []string, label string) []ast.Stmt {
	var rw func(s ast.Stmt) ast.Stmt
	rwList := func(l []ast.Stmt) []ast.Stmt {
		out := make([]ast.Stmt, 0, len(l))
		for _, s := range l {
			out = append(out, rw(s))
		}
		return out
	}
	rwBlock := func(b *ast.BlockStmt) {
		if b != nil {
			b.List = rwList(b.List)
		}
	}
	rw = func(s ast.Stmt) ast.Stmt {
		switch x := s.(type) {
		case *ast.ReturnStmt:
			brk := &ast.BranchStmt{Tok: token.BREAK, Label: ast.NewIdent(label)}
			if len(temps) > 0 && len(x.Results) == 0 && len(named) == len(temps) {
				var lhs, rhs []ast.Expr
				for i, t := range temps {
					lhs = append(lhs, ast.NewIdent(t))
					rhs = append(rhs, ast.NewIdent(named[i]))
				}
				return &ast.BlockStmt{List: []ast.Stmt{&ast.AssignStmt{Lhs: lhs, Tok: token.ASSIGN, Rhs: rhs}, brk}}
			}
			if len(temps) == 0 || len(x.Results) == 0 {
				return brk
			}
			var lhs []ast.Expr
			for _, t := range temps {
				lhs = append(lhs, ast.NewIdent(t))
			}
			return &ast.BlockStmt{List: []ast.Stmt{&ast.AssignStmt{Lhs: lhs, Tok: token.ASSIGN, Rhs: x.Results}, brk}}
		case *ast.BlockStmt:
			rwBlock(x)
		case *ast.IfStmt:
			rwBlock(x.Body)
			if x.Else != nil {
				x.Else = rw(x.Else)
			}
		case *ast.ForStmt:
			rwBlock(x.Body)
		case *ast.RangeStmt:
			rwBlock(x.Body)
		case *ast.SwitchStmt:
			rwBlock(x.Body)
		case *ast.TypeSwitchStmt:
			rwBlock(x.Body)
		case *ast.SelectStmt:
			rwBlock(x.Body)
		case *ast.CaseClause:
			x.Body = rwList(x.Body)
		case *ast.CommClause:
			x.Body = rwList(x.Body)
		}
		return s
	}
	return rwList(list)
}

// flattenOnce unwraps one immediately-invoked literal in f; it reports whether it changed anything.
func (fl *flattener) flattenOnce(f *ast.File, skip map[*ast.FuncLit]bool) (changed bool, tried *ast.FuncLit) {
	var visitList func(list *[]ast.Stmt) bool
	// operand finds a directly flattenable operand of statement s and returns a setter for it.
	operand := func(s ast.Stmt) (call *ast.CallExpr, lit *ast.FuncLit, set func(ast.Expr)) {
		try := func(ops []ast.Expr, others ...[]ast.Expr) (*ast.CallExpr, *ast.FuncLit, func(ast.Expr)) {
			for i := range ops {
				c, l := iife(ops[i])
				if c == nil || skip[l] || !flattenable(l) {
					continue
				}
				plain := true
				for j := range ops {
					if j != i && !plainExpr(ops[j]) {
						plain = false
					}
				}
				for _, o := range others {
					for _, e := range o {
						if !plainExpr(e) {
							plain = false
						}
					}
				}
				for _, a := range c.Args {
					if !plainExpr(a) {
						plain = false
					}
				}
				if !plain {
					continue
				}
				idx := i
				return c, l, func(e ast.Expr) { ops[idx] = e }
			}
			return nil, nil, nil
		}
		switch x := s.(type) {
		case *ast.ReturnStmt:
			return try(x.Results)
		case *ast.AssignStmt:
			return try(x.Rhs, x.Lhs)
		case *ast.ExprStmt:
			ops := []ast.Expr{x.X}
			c, l, _ := try(ops)
			if c != nil {
				return c, l, func(e ast.Expr) { x.X = e }
			}
		}
		return nil, nil, nil
	}
	// argOperand: the statement is a call (possibly assigned or returned) one of whose ARGUMENTS is a flattenable
	// literal call. The arguments before it that are not plain are evaluated into temporaries first, in order, so
	// that the order of all calls is preserved; then the literal is unwrapped; later arguments stay where they are.
	argOperand := func(s ast.Stmt) (outer *ast.CallExpr, j int) {
		var e ast.Expr
		switch x := s.(type) {
		case *ast.ExprStmt:
			e = x.X
		case *ast.AssignStmt:
			if len(x.Rhs) == 1 {
				e = x.Rhs[0]
				for _, l := range x.Lhs {
					if !plainExpr(l) {
						return nil, -1
					}
				}
			}
		case *ast.ReturnStmt:
			if len(x.Results) == 1 {
				e = x.Results[0]
			}
		}
		c, ok := e.(*ast.CallExpr)
		if !ok || !plainExpr(c.Fun) {
			return nil, -1
		}
		if _, isLit := c.Fun.(*ast.FuncLit); isLit {
			return nil, -1
		}
		for i, a := range c.Args {
			ic, il := iife(a)
			if ic == nil {
				hasLit := false
				ast.Inspect(a, func(n ast.Node) bool {
					if _, ok := n.(*ast.FuncLit); ok {
						hasLit = true
					}
					return !hasLit
				})
				if hasLit {
					return nil, -1
				}
				continue
			}
			if !flattenable(il) {
				return nil, -1
			}
			for _, ia := range ic.Args {
				if !plainExpr(ia) {
					return nil, -1
				}
			}
			return c, i
		}
		return nil, -1
	}
	build := func(call *ast.CallExpr, lit *ast.FuncLit) (pre []ast.Stmt, repl ast.Expr) {
		var temps, named []string
		var inner []ast.Stmt
		if lit.Type.Results != nil {
			for _, fld := range lit.Type.Results.List {
				k := len(fld.Names)
				if k == 0 {
					k = 1
				}
				for j := 0; j < k; j++ {
					t := fl.fresh("R")
					temps = append(temps, t)
					pre = append(pre, &ast.DeclStmt{Decl: &ast.GenDecl{Tok: token.VAR, Specs: []ast.Spec{&ast.ValueSpec{Names: []*ast.Ident{ast.NewIdent(t)}, Type: fld.Type}}}})
					if len(fld.Names) > 0 {
						nm := fld.Names[j].Name
						if nm == "_" {
							nm = fl.fresh("N")
						}
						named = append(named, nm)
						// named results are ordinary variables of the block
						inner = append(inner, &ast.DeclStmt{Decl: &ast.GenDecl{Tok: token.VAR, Specs: []ast.Spec{&ast.ValueSpec{Names: []*ast.Ident{ast.NewIdent(nm)}, Type: fld.Type}}}})
						inner = append(inner, &ast.AssignStmt{Lhs: []ast.Expr{ast.NewIdent("_")}, Tok: token.ASSIGN, Rhs: []ast.Expr{ast.NewIdent(nm)}})
					}
				}
			}
		}
		// arguments into fresh temporaries (evaluated in the caller's scope), then bound to the parameter names inside the block
		ai := 0
		for _, fld := range lit.Type.Params.List {
			names := fld.Names
			if len(names) == 0 {
				names = []*ast.Ident{ast.NewIdent("_")}
			}
			for _, nm := range names {
				if ai >= len(call.Args) {
					return nil, nil
				}
				a := fl.fresh("A")
				pre = append(pre, &ast.DeclStmt{Decl: &ast.GenDecl{Tok: token.VAR, Specs: []ast.Spec{&ast.ValueSpec{Names: []*ast.Ident{ast.NewIdent(a)}, Type: fld.Type, Values: []ast.Expr{call.Args[ai]}}}}})
				pre = append(pre, &ast.AssignStmt{Lhs: []ast.Expr{ast.NewIdent("_")}, Tok: token.ASSIGN, Rhs: []ast.Expr{ast.NewIdent(a)}})
				if nm.Name != "_" {
					inner = append(inner, &ast.DeclStmt{Decl: &ast.GenDecl{Tok: token.VAR, Specs: []ast.Spec{&ast.ValueSpec{Names: []*ast.Ident{ast.NewIdent(nm.Name)}, Type: fld.Type, Values: []ast.Expr{ast.NewIdent(a)}}}}})
					inner = append(inner, &ast.AssignStmt{Lhs: []ast.Expr{ast.NewIdent("_")}, Tok: token.ASSIGN, Rhs: []ast.Expr{ast.NewIdent(nm.Name)}})
				}
				ai++
			}
		}
		if ai != len(call.Args) {
			return nil, nil
		}
		label := fl.fresh("L")
		body := rewriteReturns(lit.Body.List, temps, named, label)
		inner = append(inner, body...)
		// the label must be used: a body without any return still needs a break
		inner = append(inner, &ast.BranchStmt{Tok: token.BREAK, Label: ast.NewIdent(label)})
		sw := &ast.LabeledStmt{Label: ast.NewIdent(label), Stmt: &ast.SwitchStmt{Body: &ast.BlockStmt{List: []ast.Stmt{&ast.CaseClause{Body: inner}}}}}
		pre = append(pre, sw)
		switch len(temps) {
		case 0:
			repl = nil
		case 1:
			repl = ast.NewIdent(temps[0])
		default:
			repl = nil // multi-value: handled by the caller through temps
		}
		if len(temps) > 1 {
			// encode as a marker: caller replaces the operand with the list of temps
			repl = &ast.CompositeLit{Elts: func() []ast.Expr {
				var es []ast.Expr
				for _, t := range temps {
					es = append(es, ast.NewIdent(t))
				}
				return es
			}()}
		}
		return pre, repl
	}
	// condOperand: the call that is evaluated FIRST and unconditionally in a condition: the condition itself, or the
	// leftmost operand under !, parentheses, && and ||. If that is a flattenable literal call with plain arguments it can
	// be evaluated into a temporary in front of the if statement without changing the order of evaluation.
	var condOperand func(e *ast.Expr) *ast.Expr
	condOperand = func(e *ast.Expr) *ast.Expr {
		switch x := (*e).(type) {
		case *ast.ParenExpr:
			return condOperand(&x.X)
		case *ast.UnaryExpr:
			if x.Op == token.NOT {
				return condOperand(&x.X)
			}
		case *ast.BinaryExpr:
			if x.Op == token.LAND || x.Op == token.LOR {
				return condOperand(&x.X)
			}
		case *ast.CallExpr:
			c, l := iife(x)
			if c == nil || skip[l] || !flattenable(l) {
				return nil
			}
			for _, a := range c.Args {
				if !plainExpr(a) {
					return nil
				}
			}
			return e
		}
		return nil
	}
	visitList = func(list *[]ast.Stmt) bool {
		for i, s := range *list {
			if ifs, ok := s.(*ast.IfStmt); ok {
				if op := condOperand(&ifs.Cond); op != nil {
					t := fl.fresh("C")
					assign := &ast.AssignStmt{Lhs: []ast.Expr{ast.NewIdent(t)}, Tok: token.DEFINE, Rhs: []ast.Expr{*op}}
					*op = ast.NewIdent(t)
					var repl []ast.Stmt
					if ifs.Init == nil {
						repl = []ast.Stmt{assign, ifs}
					} else {
						// the init statement runs first and its names stay visible to the if: wrap all three in a block
						init := ifs.Init
						ifs.Init = nil
						repl = []ast.Stmt{&ast.BlockStmt{List: []ast.Stmt{init, assign, ifs}}}
					}
					out := append([]ast.Stmt{}, (*list)[:i]...)
					out = append(out, repl...)
					out = append(out, (*list)[i+1:]...)
					*list = out
					changed = true
					return true
				}
			}
			var initOf ast.Stmt
			switch x := s.(type) {
			case *ast.IfStmt:
				initOf = x.Init
			case *ast.SwitchStmt:
				initOf = x.Init
			}
			target := s
			if initOf != nil {
				if c, _, _ := operand(initOf); c != nil {
					target = initOf
				}
			}
			call, lit, set := operand(target)
			var hoisted []ast.Stmt
			if call == nil && target == s {
				if outer, j := argOperand(s); outer != nil {
					for i := 0; i < j; i++ {
						if plainExpr(outer.Args[i]) {
							continue
						}
						t := fl.fresh("T")
						hoisted = append(hoisted, &ast.AssignStmt{Lhs: []ast.Expr{ast.NewIdent(t)}, Tok: token.DEFINE, Rhs: []ast.Expr{outer.Args[i]}})
						outer.Args[i] = ast.NewIdent(t)
					}
					call, lit = iife(outer.Args[j])
					jj := j
					set = func(e ast.Expr) { outer.Args[jj] = e }
				}
			}
			if call != nil {
				tried = lit
				pre, repl := build(call, lit)
				if pre == nil {
					continue
				}
				var newStmts []ast.Stmt
				newStmts = append(newStmts, hoisted...)
				newStmts = append(newStmts, pre...)
				keep := true
				if cl, ok := repl.(*ast.CompositeLit); ok && cl.Type == nil {
					// multi-value result
					switch x := target.(type) {
					case *ast.AssignStmt:
						if len(x.Rhs) != 1 {
							continue
						}
						x.Rhs = cl.Elts
					case *ast.ReturnStmt:
						if len(x.Results) != 1 {
							continue
						}
						x.Results = cl.Elts
					default:
						continue
					}
				} else if repl == nil {
					// no results: the statement itself disappears (expression statement)
					if _, ok := target.(*ast.ExprStmt); ok && target == s {
						keep = false
					} else {
						continue
					}
				} else {
					set(repl)
				}
				if keep {
					newStmts = append(newStmts, s)
				}
				out := append([]ast.Stmt{}, (*list)[:i]...)
				out = append(out, newStmts...)
				out = append(out, (*list)[i+1:]...)
				*list = out
				changed = true
				return true
			}
		}
		return false
	}
	done := false
	ast.Inspect(f, func(n ast.Node) bool {
		if done {
			return false
		}
		switch x := n.(type) {
		case *ast.BlockStmt:
			if visitList(&x.List) {
				done = true
			}
		case *ast.CaseClause:
			if visitList(&x.Body) {
				done = true
			}
		case *ast.CommClause:
			if visitList(&x.Body) {
				done = true
			}
		}
		return !done
	})
	return changed, tried
}

var theFlattener = &flattener{}

// spliceTail handles the one literal shape the unwrapping above refuses on purpose: a literal with defer, recover
// or named results - what the inliner leaves behind for a helper that took the deferred blocks of its caller with
// it. When such a literal is invoked in TAIL position of a declared function (`return func() (err error) {...}()`
// as the last statement, or the bare call as the last statement of a function without results), its body can
// simply take the place of the return statement, at the top level of the function (not in a nested block: the
// top level of a literal's body is the scope of its results, `x, err := f()` there assigns the named result):
//   - its return statements become return statements of the function (same values, same moment);
//   - its deferred calls become deferred calls of the function: they were registered after every defer of the
//     function itself and ran when the literal returned, i.e. immediately before the function's own defers - the
//     same order and the same moment, since nothing follows a tail call; recover() keeps catching exactly the
//     panics of the literal's body, the only code that runs after the registration;
//   - its named results become the function's named results (names are added to an unnamed result list of the
//     same arity; if the function has named results they must be the same names). They must still hold their zero
//     value when the tail is reached: no statement before it assigns to them.
//
// The result is re-type-checked like every other step.
func spliceTail(f *ast.File) bool {
	for _, d := range f.Decls {
		fd, ok := d.(*ast.FuncDecl)
		if !ok || fd.Body == nil || len(fd.Body.List) == 0 {
			continue
		}
		last := fd.Body.List[len(fd.Body.List)-1]
		var call *ast.CallExpr
		var lit *ast.FuncLit
		switch x := last.(type) {
		case *ast.ReturnStmt:
			if len(x.Results) == 1 {
				call, lit = iife(x.Results[0])
			}
		case *ast.ExprStmt:
			if fd.Type.Results == nil || len(fd.Type.Results.List) == 0 {
				call, lit = iife(x.X)
			}
		}
		if call == nil || flattenable(lit) || lit.Type.TypeParams != nil {
			continue
		}
		// no labels/goto in the literal
		bad := false
		ast.Inspect(lit.Body, func(n ast.Node) bool {
			switch x := n.(type) {
			case *ast.LabeledStmt:
				bad = true
			case *ast.BranchStmt:
				if x.Tok == token.GOTO {
					bad = true
				}
			}
			return !bad
		})
		if bad {
			continue
		}
		// results
		var resets []ast.Stmt
		var litNames []string
		litFields := 0
		if lit.Type.Results != nil {
			for _, fld := range lit.Type.Results.List {
				litFields++
				for _, nm := range fld.Names {
					litNames = append(litNames, nm.Name)
				}
			}
		}
		if len(litNames) > 0 {
			if fd.Type.Results == nil {
				continue
			}
			var outer []string
			outerFields := 0
			for _, fld := range fd.Type.Results.List {
				outerFields++
				for _, nm := range fld.Names {
					outer = append(outer, nm.Name)
				}
			}
			fresh := false
			sameNamed := false
			capturedBefore := func() bool {
				captured := false
				for _, st := range fd.Body.List[:len(fd.Body.List)-1] {
					ast.Inspect(st, func(n ast.Node) bool {
						if fl, ok := n.(*ast.FuncLit); ok {
							ast.Inspect(fl.Body, func(m ast.Node) bool {
								if id, ok := m.(*ast.Ident); ok {
									for _, nm := range litNames {
										if id.Name == nm && nm != "_" {
											captured = true
										}
									}
								}
								return !captured
							})
						}
						return !captured
					})
				}
				return captured
			}
			switch {
			case len(outer) == 0 && outerFields == len(litNames) && litFields == len(litNames):
				// The function's results get the literal's names. A local of that name declared at the top level
				// before the tail (`args, err := ...`) thereby BECOMES the result variable; that is harmless if no
				// closure created before the tail can still observe it (nothing else runs after the tail), and the
				// literal's results start from their zero value, which an explicit reset re-establishes.
				captured := false
				for _, st := range fd.Body.List[:len(fd.Body.List)-1] {
					ast.Inspect(st, func(n ast.Node) bool {
						if fl, ok := n.(*ast.FuncLit); ok {
							ast.Inspect(fl.Body, func(m ast.Node) bool {
								if id, ok := m.(*ast.Ident); ok {
									for _, nm := range litNames {
										if id.Name == nm && nm != "_" {
											captured = true
										}
									}
								}
								return !captured
							})
						}
						return !captured
					})
				}
				if captured {
					continue
				}
				for i, fld := range fd.Type.Results.List {
					fld.Names = []*ast.Ident{ast.NewIdent(litNames[i])}
				}
				fresh = true
			case len(outer) == len(litNames):
				same := true
				for i := range outer {
					if outer[i] != litNames[i] {
						same = false
					}
				}
				if !same {
					continue
				}
				sameNamed = true
			default:
				continue
			}
			// untouched before the tail
			touched := false
			if fresh {
				for i, nm := range litNames {
					if nm == "_" {
						continue
					}
					// name = *new(T)
					resets = append(resets, &ast.AssignStmt{Lhs: []ast.Expr{ast.NewIdent(nm)}, Tok: token.ASSIGN, Rhs: []ast.Expr{
						&ast.StarExpr{X: &ast.CallExpr{Fun: ast.NewIdent("new"), Args: []ast.Expr{fd.Type.Results.List[i].Type}}}}})
				}
			}
			isName := func(e ast.Expr) bool {
				id, ok := e.(*ast.Ident)
				if !ok {
					return false
				}
				for _, n := range litNames {
					if id.Name == n && n != "_" {
						return true
					}
				}
				return false
			}
			for _, st := range fd.Body.List[:len(fd.Body.List)-1] {
				if fresh {
					break
				}
				if as, ok := st.(*ast.AssignStmt); ok && as.Tok == token.DEFINE {
					for _, l := range as.Lhs {
						if isName(l) {
							touched = true
						}
					}
				}
				ast.Inspect(st, func(n ast.Node) bool {
					switch x := n.(type) {
					case *ast.AssignStmt:
						if x.Tok != token.DEFINE {
							for _, l := range x.Lhs {
								if isName(l) {
									touched = true
								}
							}
						}
					case *ast.IncDecStmt:
						if isName(x.X) {
							touched = true
						}
					case *ast.UnaryExpr:
						if x.Op == token.AND && isName(x.X) {
							touched = true
						}
					}
					return !touched
				})
			}
			if touched {
				// The function's named results were assigned before the tail (`args, err := f()` with the usual
				// `if err != nil { return }`): the literal's own results started from zero, so the splice resets
				// them first - harmless unless a closure created earlier can still observe the variable.
				if !sameNamed || capturedBefore() {
					continue
				}
				for i, nm := range litNames {
					if nm == "_" {
						continue
					}
					var typ ast.Expr
					k := 0
					for _, fld := range fd.Type.Results.List {
						for range fld.Names {
							if k == i {
								typ = fld.Type
							}
							k++
						}
					}
					if typ == nil {
						continue
					}
					resets = append(resets, &ast.AssignStmt{Lhs: []ast.Expr{ast.NewIdent(nm)}, Tok: token.ASSIGN, Rhs: []ast.Expr{
						&ast.StarExpr{X: &ast.CallExpr{Fun: ast.NewIdent("new"), Args: []ast.Expr{typ}}}}})
				}
			}
		}
		// parameters
		var inner []ast.Stmt
		ai := 0
		okParams := true
		for _, fld := range lit.Type.Params.List {
			if _, isVar := fld.Type.(*ast.Ellipsis); isVar {
				okParams = false
			}
			names := fld.Names
			if len(names) == 0 {
				names = []*ast.Ident{ast.NewIdent("_")}
			}
			for _, nm := range names {
				if ai >= len(call.Args) {
					okParams = false
					break
				}
				t := theFlattener.fresh("P")
				inner = append(inner, &ast.DeclStmt{Decl: &ast.GenDecl{Tok: token.VAR, Specs: []ast.Spec{&ast.ValueSpec{Names: []*ast.Ident{ast.NewIdent(t)}, Type: fld.Type, Values: []ast.Expr{call.Args[ai]}}}}})
				inner = append(inner, &ast.AssignStmt{Lhs: []ast.Expr{ast.NewIdent("_")}, Tok: token.ASSIGN, Rhs: []ast.Expr{ast.NewIdent(t)}})
				if nm.Name != "_" {
					inner = append(inner, &ast.DeclStmt{Decl: &ast.GenDecl{Tok: token.VAR, Specs: []ast.Spec{&ast.ValueSpec{Names: []*ast.Ident{ast.NewIdent(nm.Name)}, Type: fld.Type, Values: []ast.Expr{ast.NewIdent(t)}}}}})
					inner = append(inner, &ast.AssignStmt{Lhs: []ast.Expr{ast.NewIdent("_")}, Tok: token.ASSIGN, Rhs: []ast.Expr{ast.NewIdent(nm.Name)}})
				}
				ai++
			}
		}
		if !okParams || ai != len(call.Args) {
			continue
		}
		// The body goes to the TOP LEVEL of the function, not into a nested block: in the literal, `x, err := f()`
		// at the top level of the body assigns the named result err; inside a nested block it would declare a new
		// one. Conversely no top-level name of the body may already be declared at the function's top level
		// (`:=` would silently reuse it).
		declared := func(list []ast.Stmt, into map[string]bool) {
			for _, st := range list {
				switch x := st.(type) {
				case *ast.AssignStmt:
					if x.Tok == token.DEFINE {
						for _, l := range x.Lhs {
							if id, ok := l.(*ast.Ident); ok && id.Name != "_" {
								into[id.Name] = true
							}
						}
					}
				case *ast.DeclStmt:
					if gd, ok := x.Decl.(*ast.GenDecl); ok {
						for _, sp := range gd.Specs {
							switch y := sp.(type) {
							case *ast.ValueSpec:
								for _, id := range y.Names {
									into[id.Name] = true
								}
							case *ast.TypeSpec:
								into[y.Name.Name] = true
							}
						}
					}
				case *ast.LabeledStmt:
					into[x.Label.Name] = true
				}
			}
		}
		outerNames := map[string]bool{}
		if fd.Recv != nil {
			for _, fld := range fd.Recv.List {
				for _, id := range fld.Names {
					outerNames[id.Name] = true
				}
			}
		}
		for _, fld := range fd.Type.Params.List {
			for _, id := range fld.Names {
				outerNames[id.Name] = true
			}
		}
		declared(fd.Body.List[:len(fd.Body.List)-1], outerNames)
		innerNames := map[string]bool{}
		declared(inner, innerNames)
		declared(lit.Body.List, innerNames)
		clash := false
		for n := range innerNames {
			if outerNames[n] {
				clash = true
			}
			for _, r := range litNames {
				if r == n && r != "_" {
					// `x, err := ...` re-using a named result is exactly what must keep working; a plain
					// redeclaration `err := ...` of it would not compile in the literal either
					clash = clash || false
				}
			}
		}
		if clash {
			continue
		}
		inner = append(append([]ast.Stmt{}, resets...), inner...)
		inner = append(inner, lit.Body.List...)
		out := append([]ast.Stmt{}, fd.Body.List[:len(fd.Body.List)-1]...)
		fd.Body.List = append(out, inner...)
		return true
	}
	return false
}

// flattenFile unwraps immediately-invoked literals in one file as long as the
// result type-checks; it returns the number of literals unwrapped.
func flattenFile(name string, content map[string][]byte, check func() error) int {
	src := content[name]
	if bytes.Contains(src, []byte("//go:")) || bytes.Contains(src, []byte("+build")) {
		return 0
	}
	n := 0
	for k := 0; k < 20; k++ {
		fset := token.NewFileSet()
		f, err := parser.ParseFile(fset, name, content[name], parser.SkipObjectResolution)
		if err != nil {
			return n
		}
		if !spliceTail(f) {
			break
		}
		var buf bytes.Buffer
		if err := format.Node(&buf, fset, f); err != nil {
			break
		}
		old := content[name]
		content[name] = buf.Bytes()
		if err := check(); err != nil {
			content[name] = old
			break
		}
		n++
	}
	for k := 0; k < 50; k++ {
		fset := token.NewFileSet()
		f, err := parser.ParseFile(fset, name, content[name], parser.SkipObjectResolution)
		if err != nil {
			return n
		}
		changed, _ := theFlattener.flattenOnce(f, nil)
		if !changed {
			return n
		}
		var buf bytes.Buffer
		if err := format.Node(&buf, fset, f); err != nil {
			return n
		}
		old := content[name]
		content[name] = buf.Bytes()
		if err := check(); err != nil {
			content[name] = old
			return n
		}
		n++
	}
	return n
}

// ---------------------------------------------------------------------------
// Rename-back: identifiers are not roles of behaviour. A named type, a struct
// field or a function of the analysed packages that the rules know by name and
// that was merely RENAMED is given its known name again in the overlay, through
// the type-checker's own object resolution (every defining and using identifier
// of the object is rewritten). Matching is by shape only and must be unique:
//
//   type:   a known type is missing, exactly one new type has the same shape
//           (same kind; for structs the same sequence of field types, for
//           interfaces the same method signatures up to names, ...);
//   field:  inside a (matched) struct, a known field is missing and exactly one
//           new field has its type (several of one type: matched in order);
//   func:   a known function or method is missing and exactly one new one has
//           its flattened signature AND the same receiver-ness (function ->
//           method moves are left to the alias table).
//
// The rewritten program must type-check; otherwise nothing is renamed.

// TypeShape renders the shape of a named type with field and method names
// removed; named types of the analysed packages are replaced through canon.
func TypeShape(n *types.Named, canon func(string) string) string {
	q := func(p *types.Package) string { return p.Path() }
	ts := func(t types.Type) string { return canon(types.TypeString(t, q)) }
	switch u := n.Underlying().(type) {
	case *types.Struct:
		var fs []string
		for i := 0; i < u.NumFields(); i++ {
			e := ""
			if u.Field(i).Embedded() {
				e = "embedded "
			}
			fs = append(fs, e+ts(u.Field(i).Type()))
		}
		return "struct{" + strings.Join(fs, "; ") + "}"
	case *types.Interface:
		var ms []string
		for i := 0; i < u.NumMethods(); i++ {
			ms = append(ms, ts(u.Method(i).Type()))
		}
		sort.Strings(ms)
		return "interface{" + strings.Join(ms, "; ") + "}"
	default:
		return ts(u)
	}
}

type renameEdit struct {
	file     string
	off, end int
	text     string
}

// computeRenames returns the edits that give renamed types, fields and
// functions their known names back, plus notes.
func computeRenames(pkgs []*packages.Package) (map[string][]renameEdit, []string) {
	edits := map[string][]renameEdit{}
	var notes []string
	ren := map[types.Object]string{}
	ident := func(s string) string { return s }
	for _, pk := range pkgs {
		if !analysedPkg(pk.PkgPath) {
			continue
		}
		prefix := strings.ReplaceAll(pk.PkgPath, ModPath, "dig")
		scope := pk.Types.Scope()
		// ---- types
		cur := map[string]*types.Named{}
		for _, nm := range scope.Names() {
			if tn, ok := scope.Lookup(nm).(*types.TypeName); ok && !tn.IsAlias() {
				if n, ok := tn.Type().(*types.Named); ok && n.TypeParams().Len() == 0 {
					cur[prefix+"."+nm] = n
				}
			}
		}
		var missingT, newT []string
		for k := range knownTypes {
			if knownTypePkg(k) == prefix {
				if _, ok := cur[k]; !ok {
					missingT = append(missingT, k)
				}
			}
		}
		for k := range cur {
			if _, ok := knownTypes[k]; !ok {
				newT = append(newT, k)
			}
		}
		sort.Strings(missingT)
		sort.Strings(newT)
		typeAlias := map[string]string{} // new short name -> known short name
		for _, m := range missingT {
			var cands []string
			for _, u := range newT {
				if typeAlias[u] == "" && TypeShape(cur[u], ident) == knownTypes[m].Shape {
					cands = append(cands, u)
				}
			}
			same := 0
			for _, m2 := range missingT {
				if knownTypes[m2].Shape == knownTypes[m].Shape {
					same++
				}
			}
			if len(cands) == 1 && same == 1 {
				typeAlias[cands[0]] = m
				ren[cur[cands[0]].Obj()] = m[strings.LastIndex(m, ".")+1:]
				notes = append(notes, fmt.Sprintf("type %s is the renamed %s (same shape): renamed back", cands[0], m))
			}
		}
		// ---- fields
		for k, n := range cur {
			known := k
			if a, ok := typeAlias[k]; ok {
				known = a
			}
			kt, ok := knownTypes[known]
			if !ok || len(kt.Fields) == 0 {
				continue
			}
			st, ok := n.Underlying().(*types.Struct)
			if !ok {
				continue
			}
			q := func(p *types.Package) string { return p.Path() }
			curNames := map[string]bool{}
			for i := 0; i < st.NumFields(); i++ {
				curNames[st.Field(i).Name()] = true
			}
			knownNames := map[string]bool{}
			for _, f := range kt.Fields {
				knownNames[f[0]] = true
			}
			// group missing known fields and new current fields by type string, in order
			missByT := map[string][]string{}
			for _, f := range kt.Fields {
				if !curNames[f[0]] {
					missByT[f[1]] = append(missByT[f[1]], f[0])
				}
			}
			newByT := map[string][]*types.Var{}
			for i := 0; i < st.NumFields(); i++ {
				f := st.Field(i)
				if !knownNames[f.Name()] && !f.Embedded() {
					t := types.TypeString(f.Type(), q)
					newByT[t] = append(newByT[t], f)
				}
			}
			for t, ms := range missByT {
				ns := newByT[t]
				if len(ns) != len(ms) || len(ms) == 0 {
					continue
				}
				for i := range ms {
					ren[ns[i]] = ms[i]
					notes = append(notes, fmt.Sprintf("field %s.%s is the renamed %s.%s (same type): renamed back", k, ns[i].Name(), known, ms[i]))
				}
			}
		}
		// ---- functions and methods (pure renames only)
		decl := map[string]*types.Func{}
		for _, f := range pk.Syntax {
			for _, d := range f.Decls {
				if fd, ok := d.(*ast.FuncDecl); ok {
					if o, ok := pk.TypesInfo.Defs[fd.Name].(*types.Func); ok {
						decl[shortFuncName(o)] = o
					}
				}
			}
		}
		canonT := func(s string) string {
			for nw, old := range typeAlias {
				s = strings.ReplaceAll(s, strings.ReplaceAll(nw, "dig", ModPath), strings.ReplaceAll(old, "dig", ModPath))
			}
			return s
		}
		canonName := func(s string) string {
			for nw, old := range typeAlias {
				s = strings.ReplaceAll(s, nw+")", old+")")
			}
			return s
		}
		var missingF, newF []string
		have := map[string]bool{}
		for n := range decl {
			have[canonName(n)] = true
		}
		for n := range knownFuncs {
			if knownPkgOf(n) == prefix && !have[n] {
				missingF = append(missingF, n)
			}
		}
		for n := range decl {
			if _, ok := knownFuncs[canonName(n)]; !ok && !strings.HasSuffix(n, ".init") {
				newF = append(newF, n)
			}
		}
		sort.Strings(missingF)
		sort.Strings(newF)
		usedF := map[string]bool{}
		for _, m := range missingF {
			var cands []string
			for _, u := range newF {
				if usedF[u] {
					continue
				}
				isMethodK := strings.HasPrefix(m, "(")
				isMethodU := strings.HasPrefix(u, "(")
				if isMethodK != isMethodU {
					continue
				}
				if isMethodK && canonName(u[:strings.LastIndex(u, ".")]) != m[:strings.LastIndex(m, ".")] {
					continue
				}
				if canonT(SigKey(decl[u])) == knownFuncs[m] {
					cands = append(cands, u)
				}
			}
			same := 0
			for _, m2 := range missingF {
				if knownFuncs[m2] == knownFuncs[m] && strings.HasPrefix(m2, "(") == strings.HasPrefix(m, "(") &&
					(!strings.HasPrefix(m, "(") || m2[:strings.LastIndex(m2, ".")] == m[:strings.LastIndex(m, ".")]) {
					same++
				}
			}
			if len(cands) == 1 && same == 1 {
				usedF[cands[0]] = true
				ren[decl[cands[0]]] = m[strings.LastIndex(m, ".")+1:]
				notes = append(notes, fmt.Sprintf("%s is the renamed %s (same signature): renamed back", cands[0], m))
			}
		}
	}
	if len(ren) == 0 {
		return nil, nil
	}
	// interface methods that a renamed method implements keep their names: renaming one side only would break the
	// type check, in which case the whole renaming is dropped by the caller.
	for _, pk := range pkgs {
		if !analysedPkg(pk.PkgPath) {
			continue
		}
		add := func(id *ast.Ident, o types.Object) {
			nn, ok := ren[o]
			if !ok || id.Name == nn {
				return
			}
			p := pk.Fset.Position(id.Pos())
			edits[p.Filename] = append(edits[p.Filename], renameEdit{file: p.Filename, off: p.Offset, end: p.Offset + len(id.Name), text: nn})
		}
		for id, o := range pk.TypesInfo.Defs {
			if o != nil {
				add(id, o)
			}
		}
		for id, o := range pk.TypesInfo.Uses {
			add(id, o)
		}
	}
	return edits, notes
}

func knownTypePkg(k string) string { return k[:strings.LastIndex(k, ".")] }

func applyEdits(src []byte, es []renameEdit) []byte {
	sort.Slice(es, func(i, j int) bool { return es[i].off > es[j].off })
	out := append([]byte{}, src...)
	last := len(out) + 1
	for _, e := range es {
		if e.end > last || e.off < 0 || e.end > len(out) {
			continue // overlapping or stale
		}
		out = append(out[:e.off], append([]byte(e.text), out[e.end:]...)...)
		last = e.off
	}
	return out
}

// KnownType is an entry of the frozen type table.
type KnownType struct {
	Shape  string
	Fields [][2]string // struct fields: name, type string
}

// splitTop splits s at top-level commas.
func splitTop(s string) []string {
	var out []string
	depth, start := 0, 0
	for i, r := range s {
		switch r {
		case '(', '[', '{':
			depth++
		case ')', ']', '}':
			depth--
		case ',':
			if depth == 0 {
				out = append(out, strings.TrimSpace(s[start:i]))
				start = i + 1
			}
		}
	}
	if t := strings.TrimSpace(s[start:]); t != "" {
		out = append(out, t)
	}
	return out
}

// computeSignatureBacks: a known function f is missing, and exactly one new function of the same package has the
// SAME NAME and the same parameters as a multiset of pairwise distinct types (receiver counted as a parameter) and
// the same results: the function was turned into a method, a method into a function, or its parameters were
// reordered. Its declaration is rewritten to the known form and every call is rewritten to match; the arguments of
// every call must be plain expressions (identifiers, selectors, literals), so that reordering them cannot reorder
// side effects. Anything else (a method value, a call with a computed argument, a use from another package) leaves
// the function alone.
func computeSignatureBacks(pkgs []*packages.Package) (map[string][]renameEdit, []string) {
	edits := map[string][]renameEdit{}
	var notes []string
	for _, pk := range pkgs {
		if !analysedPkg(pk.PkgPath) {
			continue
		}
		prefix := strings.ReplaceAll(pk.PkgPath, ModPath, "dig")
		decl := map[string]*types.Func{}
		declAST := map[string]*ast.FuncDecl{}
		for _, f := range pk.Syntax {
			for _, d := range f.Decls {
				if fd, ok := d.(*ast.FuncDecl); ok {
					if o, ok := pk.TypesInfo.Defs[fd.Name].(*types.Func); ok {
						decl[shortFuncName(o)] = o
						declAST[shortFuncName(o)] = fd
					}
				}
			}
		}
		base := func(n string) string { return n[strings.LastIndex(n, ".")+1:] }
		var missing, unknown []string
		for n := range knownFuncs {
			if knownPkgOf(n) == prefix {
				if _, ok := decl[n]; !ok {
					missing = append(missing, n)
				}
			}
		}
		for n := range decl {
			if _, ok := knownFuncs[n]; !ok {
				unknown = append(unknown, n)
			}
		}
		sort.Strings(missing)
		sort.Strings(unknown)
		// a known function that is still there under its own name but with its parameters in another order
		for n, o := range decl {
			if ks, ok := knownFuncs[n]; ok && ks != SigKey(o) {
				missing = append(missing, n)
				unknown = append(unknown, n)
			}
		}
		sort.Strings(missing)
		sort.Strings(unknown)
		typeBag := func(sig string) string {
			i := strings.Index(sig, " -> ")
			if i < 2 {
				return sig
			}
			ps := splitTop(sig[1 : i-1])
			sort.Strings(ps)
			return strings.Join(ps, ",") + sig[i:]
		}
		for _, m := range missing {
			var cands []string
			for _, u := range unknown {
				if base(u) == base(m) {
					cands = append(cands, u)
				}
			}
			sameBase := 0
			for _, m2 := range missing {
				if base(m2) == base(m) {
					sameBase++
				}
			}
			if len(cands) == 0 {
				// renamed as well: the only new function with these parameter and result types, for the only missing
				// known function with them
				for _, u := range unknown {
					if _, stillKnown := knownFuncs[u]; !stillKnown && typeBag(SigKey(decl[u])) == typeBag(knownFuncs[m]) {
						cands = append(cands, u)
					}
				}
				sameBase = 0
				for _, m2 := range missing {
					if typeBag(knownFuncs[m2]) == typeBag(knownFuncs[m]) {
						sameBase++
					}
				}
			}
			if len(cands) != 1 || sameBase != 1 {
				continue
			}
			u := cands[0]
			ks := knownFuncs[m]
			i := strings.Index(ks, " -> ")
			if i < 0 || strings.Contains(ks[:i], "...") {
				continue
			}
			kp := splitTop(ks[1 : i-1])
			cs := SigKey(decl[u])
			j := strings.Index(cs, " -> ")
			if j < 0 || strings.Contains(cs[:j], "...") || cs[j:] != ks[i:] {
				continue
			}
			cp := splitTop(cs[1 : j-1])
			if len(kp) != len(cp) || len(kp) == 0 {
				continue
			}
			perm := make([]int, len(kp)) // known position -> current position
			distinct := map[string]bool{}
			okPerm := true
			for a, t := range kp {
				if distinct[t] {
					okPerm = false
				}
				distinct[t] = true
				perm[a] = -1
				for b, t2 := range cp {
					if t2 == t {
						perm[a] = b
					}
				}
				if perm[a] < 0 {
					okPerm = false
				}
			}
			if !okPerm {
				continue
			}
			fd := declAST[u]
			file := pk.Fset.Position(fd.Pos()).Filename
			src, err := os.ReadFile(file)
			if b, ok := currentOverlay[file]; ok {
				src, err = b, nil
			}
			if err != nil {
				continue
			}
			text := func(n ast.Node) string {
				return string(src[pk.Fset.Position(n.Pos()).Offset:pk.Fset.Position(n.End()).Offset])
			}
			// flattened declared parameters (name, type text)
			type fld struct{ name, typ string }
			var flat []fld
			addFields := func(fl *ast.FieldList) {
				if fl == nil {
					return
				}
				for _, f := range fl.List {
					if len(f.Names) == 0 {
						flat = append(flat, fld{"_", text(f.Type)})
					}
					for _, nm := range f.Names {
						flat = append(flat, fld{nm.Name, text(f.Type)})
					}
				}
			}
			addFields(fd.Recv)
			addFields(fd.Type.Params)
			if len(flat) != len(cp) {
				continue
			}
			knownIsMethod := strings.HasPrefix(m, "(")
			var hdr strings.Builder
			hdr.WriteString("func ")
			rest := 0
			if knownIsMethod {
				f0 := flat[perm[0]]
				hdr.WriteString("(" + f0.name + " " + f0.typ + ") ")
				rest = 1
			}
			hdr.WriteString(base(m) + "(")
			for a := rest; a < len(perm); a++ {
				if a > rest {
					hdr.WriteString(", ")
				}
				hdr.WriteString(flat[perm[a]].name + " " + flat[perm[a]].typ)
			}
			hdr.WriteString(")")
			var es []renameEdit
			es = append(es, renameEdit{file: file, off: pk.Fset.Position(fd.Pos()).Offset, end: pk.Fset.Position(fd.Type.Params.End()).Offset, text: hdr.String()})
			// calls
			obj := decl[u]
			okCalls := true
			uses := map[*ast.Ident]bool{}
			for id, o := range pk.TypesInfo.Uses {
				if o == obj {
					uses[id] = true
				}
			}
			for _, p2 := range pkgs {
				if p2 != pk {
					for _, o := range p2.TypesInfo.Uses {
						if o == obj {
							okCalls = false
						}
					}
				}
			}
			handled := 0
			for _, f := range pk.Syntax {
				fname := pk.Fset.Position(f.Pos()).Filename
				fsrc, err := os.ReadFile(fname)
				if b, ok := currentOverlay[fname]; ok {
					fsrc, err = b, nil
				}
				if err != nil {
					okCalls = false
					break
				}
				ftext := func(n ast.Node) string {
					return string(fsrc[pk.Fset.Position(n.Pos()).Offset:pk.Fset.Position(n.End()).Offset])
				}
				ast.Inspect(f, func(n ast.Node) bool {
					call, ok := n.(*ast.CallExpr)
					if !ok {
						return true
					}
					var actual []ast.Expr
					switch fun := call.Fun.(type) {
					case *ast.Ident:
						if !uses[fun] {
							return true
						}
					case *ast.SelectorExpr:
						if !uses[fun.Sel] {
							return true
						}
						actual = append(actual, fun.X)
					default:
						return true
					}
					handled++
					actual = append(actual, call.Args...)
					if len(actual) != len(cp) || call.Ellipsis.IsValid() {
						okCalls = false
						return true
					}
					for _, a := range actual {
						if !plainExpr(a) {
							okCalls = false
						}
					}
					var sb strings.Builder
					k := 0
					if knownIsMethod {
						sb.WriteString(ftext(actual[perm[0]]) + ".")
						k = 1
					}
					sb.WriteString(base(m) + "(")
					for a := k; a < len(perm); a++ {
						if a > k {
							sb.WriteString(", ")
						}
						sb.WriteString(ftext(actual[perm[a]]))
					}
					sb.WriteString(")")
					es = append(es, renameEdit{file: fname, off: pk.Fset.Position(call.Pos()).Offset, end: pk.Fset.Position(call.End()).Offset, text: sb.String()})
					return true
				})
			}
			if !okCalls || handled != len(uses) {
				continue
			}
			for _, e := range es {
				edits[e.file] = append(edits[e.file], e)
			}
			notes = append(notes, fmt.Sprintf("%s is the known %s with another receiver/parameter arrangement: declaration and %d call(s) rewritten to the known signature", u, m, handled))
		}
	}
	return edits, notes
}

// computeReceiverFieldBacks: a known FUNCTION f(T) R of a package is missing, and exactly one new METHOD without
// parameters and with the same results R exists whose receiver is (a pointer to) a struct, is mentioned in the
// method's body only as `recv.fld` for ONE field fld, and that field has type T: the argument moved into the
// receiver. The declaration becomes `func f(<known parameter name> T) R` with every `recv.fld` replaced by the
// parameter, and every call `x.m()` becomes `f(x.fld)`; x must be a plain expression. The method must not be used
// as a method value, through an interface, or from another package.
func computeReceiverFieldBacks(pkgs []*packages.Package) (map[string][]renameEdit, []string) {
	edits := map[string][]renameEdit{}
	var notes []string
	q := func(p *types.Package) string { return p.Path() }
	for _, pk := range pkgs {
		if !analysedPkg(pk.PkgPath) {
			continue
		}
		prefix := strings.ReplaceAll(pk.PkgPath, ModPath, "dig")
		decl := map[string]*types.Func{}
		declAST := map[string]*ast.FuncDecl{}
		for _, f := range pk.Syntax {
			for _, d := range f.Decls {
				if fd, ok := d.(*ast.FuncDecl); ok {
					if o, ok := pk.TypesInfo.Defs[fd.Name].(*types.Func); ok {
						decl[shortFuncName(o)] = o
						declAST[shortFuncName(o)] = fd
					}
				}
			}
		}
		var missing []string
		for n := range knownFuncs {
			if knownPkgOf(n) == prefix && !strings.HasPrefix(n, "(") {
				if _, ok := decl[n]; !ok {
					missing = append(missing, n)
				}
			}
		}
		sort.Strings(missing)
		for _, m := range missing {
			ks := knownFuncs[m]
			i := strings.Index(ks, " -> ")
			if i < 2 || strings.Contains(ks[:i], "...") {
				continue
			}
			kp := splitTop(ks[1 : i-1])
			if len(kp) != 1 {
				continue
			}
			type cand struct {
				name string
				fld  *types.Var
			}
			var cands []cand
			for u, o := range decl {
				if _, known := knownFuncs[u]; known {
					continue
				}
				sig := o.Type().(*types.Signature)
				if sig.Recv() == nil || sig.Params().Len() != 0 || sig.Variadic() {
					continue
				}
				cs := SigKey(o)
				j := strings.Index(cs, " -> ")
				if j < 0 || cs[j:] != ks[i:] {
					continue
				}
				fd := declAST[u]
				if fd.Body == nil || fd.Recv == nil || len(fd.Recv.List) != 1 || len(fd.Recv.List[0].Names) != 1 {
					continue
				}
				recvObj := pk.TypesInfo.Defs[fd.Recv.List[0].Names[0]]
				if recvObj == nil {
					continue
				}
				// every use of the receiver is `recv.fld` for one field of the wanted type
				var fld *types.Var
				okUses := true
				parents := map[*ast.Ident]*ast.SelectorExpr{}
				ast.Inspect(fd.Body, func(n ast.Node) bool {
					if se, ok := n.(*ast.SelectorExpr); ok {
						if id, ok := se.X.(*ast.Ident); ok {
							parents[id] = se
						}
					}
					return true
				})
				nUses := 0
				ast.Inspect(fd.Body, func(n ast.Node) bool {
					id, ok := n.(*ast.Ident)
					if !ok || pk.TypesInfo.Uses[id] != recvObj {
						return true
					}
					nUses++
					se := parents[id]
					if se == nil {
						okUses = false
						return true
					}
					v, isVar := pk.TypesInfo.Uses[se.Sel].(*types.Var)
					if !isVar || !v.IsField() || (fld != nil && fld != v) {
						okUses = false
						return true
					}
					fld = v
					return true
				})
				if !okUses || fld == nil || nUses == 0 || types.TypeString(fld.Type(), q) != kp[0] {
					continue
				}
				cands = append(cands, cand{u, fld})
			}
			if len(cands) != 1 {
				continue
			}
			u, fld := cands[0].name, cands[0].fld
			fd := declAST[u]
			file := pk.Fset.Position(fd.Pos()).Filename
			src, err := os.ReadFile(file)
			if b, ok := currentOverlay[file]; ok {
				src, err = b, nil
			}
			if err != nil {
				continue
			}
			pname := "arg0"
			if ns, ok := frozenParamNames[m]; ok && len(ns) == 1 && ns[0] != "" && ns[0] != "_" {
				pname = ns[0]
			}
			// the parameter name must be free in the body
			clash := false
			ast.Inspect(fd.Body, func(n ast.Node) bool {
				if id, ok := n.(*ast.Ident); ok && id.Name == pname {
					if _, isSel := pk.TypesInfo.Uses[id].(*types.Var); isSel || pk.TypesInfo.Defs[id] != nil {
						if v, ok := pk.TypesInfo.Uses[id].(*types.Var); !(ok && v.IsField()) {
							clash = true
						}
					}
				}
				return true
			})
			if clash {
				continue
			}
			base := m[strings.LastIndex(m, ".")+1:]
			recvObj := pk.TypesInfo.Defs[fd.Recv.List[0].Names[0]]
			typText := types.TypeString(fld.Type(), func(p *types.Package) string {
				if p == pk.Types {
					return ""
				}
				return p.Name()
			})
			var es []renameEdit
			es = append(es, renameEdit{file: file, off: pk.Fset.Position(fd.Pos()).Offset, end: pk.Fset.Position(fd.Type.Params.End()).Offset, text: "func " + base + "(" + pname + " " + typText + ")"})
			ast.Inspect(fd.Body, func(n ast.Node) bool {
				se, ok := n.(*ast.SelectorExpr)
				if !ok {
					return true
				}
				if id, ok := se.X.(*ast.Ident); ok && pk.TypesInfo.Uses[id] == recvObj {
					es = append(es, renameEdit{file: file, off: pk.Fset.Position(se.Pos()).Offset, end: pk.Fset.Position(se.End()).Offset, text: pname})
					return false
				}
				return true
			})
			_ = src
			obj := decl[u]
			uses := map[*ast.Ident]bool{}
			for id, o := range pk.TypesInfo.Uses {
				if o == obj {
					uses[id] = true
				}
			}
			okCalls := true
			for _, p2 := range pkgs {
				if p2 != pk {
					for _, o := range p2.TypesInfo.Uses {
						if o == obj {
							okCalls = false
						}
					}
				}
			}
			handled := 0
			for _, f := range pk.Syntax {
				fname := pk.Fset.Position(f.Pos()).Filename
				fsrc, err := os.ReadFile(fname)
				if b, ok := currentOverlay[fname]; ok {
					fsrc, err = b, nil
				}
				if err != nil {
					okCalls = false
					break
				}
				ast.Inspect(f, func(n ast.Node) bool {
					call, ok := n.(*ast.CallExpr)
					if !ok {
						return true
					}
					se, ok := call.Fun.(*ast.SelectorExpr)
					if !ok || !uses[se.Sel] {
						return true
					}
					handled++
					if len(call.Args) != 0 || !plainExpr(se.X) {
						okCalls = false
						return true
					}
					x := string(fsrc[pk.Fset.Position(se.X.Pos()).Offset:pk.Fset.Position(se.X.End()).Offset])
					es = append(es, renameEdit{file: fname, off: pk.Fset.Position(call.Pos()).Offset, end: pk.Fset.Position(call.End()).Offset, text: base + "(" + x + "." + fld.Name() + ")"})
					return true
				})
			}
			if !okCalls || handled != len(uses) || handled == 0 {
				continue
			}
			for _, e := range es {
				edits[e.file] = append(edits[e.file], e)
			}
			notes = append(notes, fmt.Sprintf("method %s is the known function %s with its argument read from the receiver field %s: declaration and %d call(s) rewritten to the known form", u, m, fld.Name(), handled))
		}
	}
	return edits, notes
}

// computeFieldsToReceiverBacks is the mirror image: a known METHOD (X).m(P...) R is missing and exactly one new
// FUNCTION of the same name exists whose parameters are P... plus, for some fields of the struct X, one parameter of
// that field's type each (X has exactly one field of each of those types): the receiver was unbundled into the
// fields the method used. The declaration becomes the known method, every use of an extra parameter becomes
// `recv.fld` (the extra parameters are never assigned or have their address taken), and every call
// `m(x.f1, x.f2, args...)` - the extra arguments being selections from ONE plain expression x - becomes `x.m(args...)`.
func computeFieldsToReceiverBacks(pkgs []*packages.Package) (map[string][]renameEdit, []string) {
	edits := map[string][]renameEdit{}
	var notes []string
	q := func(p *types.Package) string { return p.Path() }
	for _, pk := range pkgs {
		if !analysedPkg(pk.PkgPath) {
			continue
		}
		prefix := strings.ReplaceAll(pk.PkgPath, ModPath, "dig")
		decl := map[string]*types.Func{}
		declAST := map[string]*ast.FuncDecl{}
		for _, f := range pk.Syntax {
			for _, d := range f.Decls {
				if fd, ok := d.(*ast.FuncDecl); ok {
					if o, ok := pk.TypesInfo.Defs[fd.Name].(*types.Func); ok {
						decl[shortFuncName(o)] = o
						declAST[shortFuncName(o)] = fd
					}
				}
			}
		}
		var missing []string
		for n := range knownFuncs {
			if knownPkgOf(n) == prefix && strings.HasPrefix(n, "(") {
				if _, ok := decl[n]; !ok {
					missing = append(missing, n)
				}
			}
		}
		sort.Strings(missing)
		for _, m := range missing {
			ks := knownFuncs[m]
			i := strings.Index(ks, " -> ")
			if i < 2 || strings.Contains(ks[:i], "...") {
				continue
			}
			kp := splitTop(ks[1 : i-1]) // receiver type first
			base := m[strings.LastIndex(m, ".")+1:]
			u := prefix + "." + base
			o, have := decl[u]
			if _, known := knownFuncs[u]; !have || known {
				continue
			}
			sig := o.Type().(*types.Signature)
			if sig.Recv() != nil || sig.Variadic() {
				continue
			}
			cs := SigKey(o)
			j := strings.Index(cs, " -> ")
			if j < 0 || cs[j:] != ks[i:] {
				continue
			}
			// the receiver type among the types of the package
			var recvT types.Type
			sc := pk.Types.Scope()
			for _, nm := range sc.Names() {
				if tn, ok := sc.Lookup(nm).(*types.TypeName); ok {
					if types.TypeString(tn.Type(), q) == kp[0] {
						recvT = tn.Type()
					} else if types.TypeString(types.NewPointer(tn.Type()), q) == kp[0] {
						recvT = types.NewPointer(tn.Type())
					}
				}
			}
			if recvT == nil {
				continue
			}
			under := recvT
			if pt, ok := under.(*types.Pointer); ok {
				under = pt.Elem()
			}
			st, ok := under.Underlying().(*types.Struct)
			if !ok {
				continue
			}
			fieldOfType := map[string]*types.Var{}
			dupType := map[string]bool{}
			for k := 0; k < st.NumFields(); k++ {
				t := types.TypeString(st.Field(k).Type(), q)
				if fieldOfType[t] != nil {
					dupType[t] = true
				}
				fieldOfType[t] = st.Field(k)
			}
			// match the function's parameters: each known parameter type once (pairwise distinct), the rest fields
			fd := declAST[u]
			type fl struct {
				name string
				obj  types.Object
				typ  string
			}
			var flat []fl
			for _, f := range fd.Type.Params.List {
				for _, nm := range f.Names {
					ob := pk.TypesInfo.Defs[nm]
					if ob == nil {
						continue
					}
					flat = append(flat, fl{nm.Name, ob, types.TypeString(ob.Type(), q)})
				}
			}
			if len(flat) != sig.Params().Len() || len(flat) <= len(kp)-1 {
				continue
			}
			want := kp[1:]
			pos := make([]int, len(want))
			used := map[int]bool{}
			okMatch := true
			seenT := map[string]bool{}
			for a, t := range want {
				if seenT[t] {
					okMatch = false
				}
				seenT[t] = true
				pos[a] = -1
				for b := len(flat) - 1; b >= 0; b-- {
					if flat[b].typ == t && !used[b] {
						pos[a] = b
						break
					}
				}
				if pos[a] < 0 {
					okMatch = false
				} else {
					used[pos[a]] = true
				}
			}
			if !okMatch {
				continue
			}
			extra := map[types.Object]*types.Var{}
			extraIdx := map[int]*types.Var{}
			usedField := map[*types.Var]bool{}
			for b, f := range flat {
				if used[b] {
					continue
				}
				fv := fieldOfType[f.typ]
				if fv == nil || dupType[f.typ] || seenT[f.typ] || usedField[fv] || f.name == "_" {
					okMatch = false
					break
				}
				usedField[fv] = true
				extra[f.obj] = fv
				extraIdx[b] = fv
			}
			if !okMatch || len(extra) == 0 || fd.Body == nil {
				continue
			}
			rname := "recv0"
			if ns, ok := frozenParamNames[m]; ok && len(ns) > 0 && ns[0] != "" && ns[0] != "_" {
				rname = ns[0]
			}
			clash := false
			ast.Inspect(fd, func(n ast.Node) bool {
				if id, ok := n.(*ast.Ident); ok && id.Name == rname {
					clash = true
				}
				return true
			})
			// the extra parameters are read only
			ast.Inspect(fd.Body, func(n ast.Node) bool {
				switch x := n.(type) {
				case *ast.AssignStmt:
					for _, l := range x.Lhs {
						if id, ok := l.(*ast.Ident); ok && extra[pk.TypesInfo.Uses[id]] != nil {
							clash = true
						}
					}
				case *ast.UnaryExpr:
					if id, ok := x.X.(*ast.Ident); ok && x.Op == token.AND && extra[pk.TypesInfo.Uses[id]] != nil {
						clash = true
					}
				case *ast.IncDecStmt:
					if id, ok := x.X.(*ast.Ident); ok && extra[pk.TypesInfo.Uses[id]] != nil {
						clash = true
					}
				}
				return true
			})
			if clash {
				continue
			}
			file := pk.Fset.Position(fd.Pos()).Filename
			local := func(t types.Type) string {
				return types.TypeString(t, func(p *types.Package) string {
					if p == pk.Types {
						return ""
					}
					return p.Name()
				})
			}
			var hdr strings.Builder
			hdr.WriteString("func (" + rname + " " + local(recvT) + ") " + base + "(")
			for a := range want {
				if a > 0 {
					hdr.WriteString(", ")
				}
				hdr.WriteString(flat[pos[a]].name + " " + local(flat[pos[a]].obj.Type()))
			}
			hdr.WriteString(")")
			var es []renameEdit
			es = append(es, renameEdit{file: file, off: pk.Fset.Position(fd.Pos()).Offset, end: pk.Fset.Position(fd.Type.Params.End()).Offset, text: hdr.String()})
			ast.Inspect(fd.Body, func(n ast.Node) bool {
				if id, ok := n.(*ast.Ident); ok {
					if fv := extra[pk.TypesInfo.Uses[id]]; fv != nil {
						es = append(es, renameEdit{file: file, off: pk.Fset.Position(id.Pos()).Offset, end: pk.Fset.Position(id.End()).Offset, text: rname + "." + fv.Name()})
					}
				}
				return true
			})
			uses := map[*ast.Ident]bool{}
			for id, ob := range pk.TypesInfo.Uses {
				if ob == types.Object(o) {
					uses[id] = true
				}
			}
			okCalls := true
			for _, p2 := range pkgs {
				if p2 != pk {
					for _, ob := range p2.TypesInfo.Uses {
						if ob == types.Object(o) {
							okCalls = false
						}
					}
				}
			}
			handled := 0
			for _, f := range pk.Syntax {
				fname := pk.Fset.Position(f.Pos()).Filename
				fsrc, err := os.ReadFile(fname)
				if b, ok := currentOverlay[fname]; ok {
					fsrc, err = b, nil
				}
				if err != nil {
					okCalls = false
					break
				}
				ftext := func(n ast.Node) string {
					return string(fsrc[pk.Fset.Position(n.Pos()).Offset:pk.Fset.Position(n.End()).Offset])
				}
				ast.Inspect(f, func(n ast.Node) bool {
					call, ok := n.(*ast.CallExpr)
					if !ok {
						return true
					}
					id, ok := call.Fun.(*ast.Ident)
					if !ok || !uses[id] {
						return true
					}
					handled++
					if len(call.Args) != len(flat) || call.Ellipsis.IsValid() {
						okCalls = false
						return true
					}
					baseX := ""
					for b, a := range call.Args {
						if fv := extraIdx[b]; fv != nil {
							se, ok := a.(*ast.SelectorExpr)
							if !ok || se.Sel.Name != fv.Name() || !plainExpr(se.X) {
								okCalls = false
								return true
							}
							if baseX != "" && baseX != ftext(se.X) {
								okCalls = false
								return true
							}
							baseX = ftext(se.X)
						} else if !plainExpr(a) {
							okCalls = false
							return true
						}
					}
					var sb strings.Builder
					sb.WriteString(baseX + "." + base + "(")
					for a := range want {
						if a > 0 {
							sb.WriteString(", ")
						}
						sb.WriteString(ftext(call.Args[pos[a]]))
					}
					sb.WriteString(")")
					es = append(es, renameEdit{file: fname, off: pk.Fset.Position(call.Pos()).Offset, end: pk.Fset.Position(call.End()).Offset, text: sb.String()})
					return true
				})
			}
			if !okCalls || handled != len(uses) || handled == 0 {
				continue
			}
			for _, e := range es {
				edits[e.file] = append(edits[e.file], e)
			}
			notes = append(notes, fmt.Sprintf("function %s is the known method %s with the receiver unbundled into %d of its fields: declaration and %d call(s) rewritten to the known form", u, m, len(extra), handled))
		}
	}
	return edits, notes
}

// computeStructParamBacks: a known function kept its name but some of its parameters were bundled into ONE parameter
// of a new struct type of the package (`isAcyclic(g, u, info, path)` -> `isAcyclic(search, u, path)` with
// `type cycleSearch struct{ g Graph; info cycleInfo }`). The known parameter types are pairwise distinct and equal,
// as a set, the remaining parameter types plus the field types. The declaration gets its known parameters back
// (restored ones named after the fields), `sp.f` becomes `f`, an unpacking statement `f1, f2 := sp.f1, sp.f2` is
// dropped, the struct parameter may otherwise only be handed on in a recursive call, and no field name is declared
// anywhere else in the body. Every call gets the fields of its (plain) struct argument, or the elements of a struct
// literal, as separate arguments; all arguments must be plain expressions.
func computeStructParamBacks(pkgs []*packages.Package) (map[string][]renameEdit, []string) {
	edits := map[string][]renameEdit{}
	var notes []string
	q := func(p *types.Package) string { return p.Path() }
	for _, pk := range pkgs {
		if !analysedPkg(pk.PkgPath) {
			continue
		}
		prefix := strings.ReplaceAll(pk.PkgPath, ModPath, "dig")
		local := func(t types.Type) string {
			return types.TypeString(t, func(p *types.Package) string {
				if p == pk.Types {
					return ""
				}
				return p.Name()
			})
		}
		for _, f := range pk.Syntax {
			for _, d := range f.Decls {
				fd, ok := d.(*ast.FuncDecl)
				if !ok || fd.Body == nil {
					continue
				}
				o, ok := pk.TypesInfo.Defs[fd.Name].(*types.Func)
				if !ok {
					continue
				}
				n := shortFuncName(o)
				ks, known := knownFuncs[n]
				if !known || knownPkgOf(n) != prefix || ks == SigKey(o) {
					continue
				}
				i := strings.Index(ks, " -> ")
				cs := SigKey(o)
				j := strings.Index(cs, " -> ")
				if i < 2 || j < 2 || ks[i:] != cs[j:] || strings.Contains(ks[:i], "...") || strings.Contains(cs[:j], "...") {
					continue
				}
				kp := splitTop(ks[1 : i-1])
				sig := o.Type().(*types.Signature)
				off := 0
				if sig.Recv() != nil {
					off = 1
					if kp[0] != types.TypeString(sig.Recv().Type(), q) {
						continue
					}
				}
				distinct := map[string]bool{}
				okD := true
				for _, t := range kp {
					if distinct[t] {
						okD = false
					}
					distinct[t] = true
				}
				if !okD {
					continue
				}
				// flattened current parameters
				type fl struct {
					name string
					obj  types.Object
					typ  string
				}
				var flat []fl
				for _, pf := range fd.Type.Params.List {
					for _, nm := range pf.Names {
						if ob := pk.TypesInfo.Defs[nm]; ob != nil {
							flat = append(flat, fl{nm.Name, ob, types.TypeString(ob.Type(), q)})
						}
					}
				}
				if len(flat) != sig.Params().Len() {
					continue
				}
				sidx := -1
				var st *types.Struct
				for b, p := range flat {
					nt, isNamed := p.obj.Type().(*types.Named)
					if !isNamed || nt.Obj().Pkg() != pk.Types {
						continue
					}
					if _, isKnown := knownTypes[prefix+"."+nt.Obj().Name()]; isKnown {
						continue
					}
					if s2, isStruct := nt.Underlying().(*types.Struct); isStruct && !distinct[p.typ] {
						if sidx >= 0 {
							sidx = -2
							break
						}
						sidx, st = b, s2
					}
				}
				if sidx < 0 || st == nil || st.NumFields() == 0 {
					continue
				}
				fieldOf := map[string]*types.Var{}
				okF := true
				for k := 0; k < st.NumFields(); k++ {
					t := types.TypeString(st.Field(k).Type(), q)
					if fieldOf[t] != nil || !distinct[t] || st.Field(k).Name() == "_" {
						okF = false
					}
					fieldOf[t] = st.Field(k)
				}
				curOf := map[string]int{}
				for b, p := range flat {
					if b == sidx {
						continue
					}
					if _, dup := curOf[p.typ]; dup || fieldOf[p.typ] != nil || !distinct[p.typ] {
						okF = false
					}
					curOf[p.typ] = b
				}
				if !okF || len(curOf)+len(fieldOf) != len(kp)-off {
					continue
				}
				sp := flat[sidx].obj
				// uses of the struct parameter in the body
				var es []renameEdit
				file := pk.Fset.Position(fd.Pos()).Filename
				fsrc, err := os.ReadFile(file)
				if b, ok := currentOverlay[file]; ok {
					fsrc, err = b, nil
				}
				if err != nil {
					continue
				}
				ftext := func(nd ast.Node) string {
					return string(fsrc[pk.Fset.Position(nd.Pos()).Offset:pk.Fset.Position(nd.End()).Offset])
				}
				fieldNames := map[string]bool{}
				for _, fv := range fieldOf {
					fieldNames[fv.Name()] = true
				}
				okBody := true
				dropped := map[ast.Node]bool{}
				selOf := map[*ast.Ident]*ast.SelectorExpr{}
				argOfSelf := map[*ast.Ident]bool{}
				ast.Inspect(fd.Body, func(nd ast.Node) bool {
					switch x := nd.(type) {
					case *ast.SelectorExpr:
						if id, ok := x.X.(*ast.Ident); ok {
							selOf[id] = x
						}
					case *ast.CallExpr:
						if id, ok := x.Fun.(*ast.Ident); ok && pk.TypesInfo.Uses[id] == types.Object(o) {
							for _, a := range x.Args {
								if aid, ok := a.(*ast.Ident); ok && pk.TypesInfo.Uses[aid] == sp {
									argOfSelf[aid] = true
								}
							}
						}
					case *ast.AssignStmt:
						if x.Tok == token.DEFINE && len(x.Lhs) == len(x.Rhs) {
							all := true
							for k := range x.Lhs {
								l, ok1 := x.Lhs[k].(*ast.Ident)
								r, ok2 := x.Rhs[k].(*ast.SelectorExpr)
								if !ok1 || !ok2 {
									all = false
									break
								}
								rid, ok3 := r.X.(*ast.Ident)
								if !ok3 || pk.TypesInfo.Uses[rid] != sp || l.Name != r.Sel.Name {
									all = false
								}
							}
							if all {
								dropped[x] = true
							}
						}
					}
					return true
				})
				for st2 := range dropped {
					es = append(es, renameEdit{file: file, off: pk.Fset.Position(st2.Pos()).Offset, end: pk.Fset.Position(st2.End()).Offset, text: ""})
				}
				inDropped := func(nd ast.Node) bool {
					for st2 := range dropped {
						if nd.Pos() >= st2.Pos() && nd.End() <= st2.End() {
							return true
						}
					}
					return false
				}
				ast.Inspect(fd.Body, func(nd ast.Node) bool {
					id, ok := nd.(*ast.Ident)
					if !ok {
						return true
					}
					if def := pk.TypesInfo.Defs[id]; def != nil && fieldNames[id.Name] && !inDropped(id) {
						okBody = false // a local of the same name would capture the restored parameter
					}
					if pk.TypesInfo.Uses[id] != sp || inDropped(id) {
						return true
					}
					if se := selOf[id]; se != nil {
						if _, isField := pk.TypesInfo.Uses[se.Sel].(*types.Var); isField {
							es = append(es, renameEdit{file: file, off: pk.Fset.Position(se.Pos()).Offset, end: pk.Fset.Position(se.End()).Offset, text: se.Sel.Name})
							return true
						}
					}
					if !argOfSelf[id] {
						okBody = false
					}
					return true
				})
				if !okBody {
					continue
				}
				// header in known order
				var hdr strings.Builder
				hdr.WriteString("(")
				for a := off; a < len(kp); a++ {
					if a > off {
						hdr.WriteString(", ")
					}
					if b, ok := curOf[kp[a]]; ok {
						hdr.WriteString(flat[b].name + " " + local(flat[b].obj.Type()))
					} else {
						fv := fieldOf[kp[a]]
						hdr.WriteString(fv.Name() + " " + local(fv.Type()))
					}
				}
				hdr.WriteString(")")
				es = append(es, renameEdit{file: file, off: pk.Fset.Position(fd.Type.Params.Pos()).Offset, end: pk.Fset.Position(fd.Type.Params.End()).Offset, text: hdr.String()})
				// calls
				okCalls := true
				for _, p2 := range pkgs {
					if p2 != pk {
						for _, ob := range p2.TypesInfo.Uses {
							if ob == types.Object(o) {
								okCalls = false
							}
						}
					}
				}
				nUses := 0
				for _, ob := range pk.TypesInfo.Uses {
					if ob == types.Object(o) {
						nUses++
					}
				}
				handled := 0
				for _, f2 := range pk.Syntax {
					f2name := pk.Fset.Position(f2.Pos()).Filename
					f2src, err := os.ReadFile(f2name)
					if b, ok := currentOverlay[f2name]; ok {
						f2src, err = b, nil
					}
					if err != nil {
						okCalls = false
						break
					}
					t2 := func(nd ast.Node) string {
						return string(f2src[pk.Fset.Position(nd.Pos()).Offset:pk.Fset.Position(nd.End()).Offset])
					}
					ast.Inspect(f2, func(nd ast.Node) bool {
						call, ok := nd.(*ast.CallExpr)
						if !ok {
							return true
						}
						var fun *ast.Ident
						recvText := ""
						switch x := call.Fun.(type) {
						case *ast.Ident:
							fun = x
						case *ast.SelectorExpr:
							fun = x.Sel
							recvText = t2(x.X) + "."
						}
						if fun == nil || pk.TypesInfo.Uses[fun] != types.Object(o) {
							return true
						}
						handled++
						if len(call.Args) != len(flat) || call.Ellipsis.IsValid() {
							okCalls = false
							return true
						}
						fieldArg := map[string]string{}
						sa := call.Args[sidx]
						switch x := sa.(type) {
						case *ast.CompositeLit:
							for k, el := range x.Elts {
								if kv, ok := el.(*ast.KeyValueExpr); ok {
									if kid, ok := kv.Key.(*ast.Ident); ok && plainExpr(kv.Value) {
										fieldArg[kid.Name] = t2(kv.Value)
										continue
									}
									okCalls = false
								} else if k < st.NumFields() && plainExpr(el) {
									fieldArg[st.Field(k).Name()] = t2(el)
								} else {
									okCalls = false
								}
							}
						default:
							if !plainExpr(sa) {
								okCalls = false
								return true
							}
							inSelf := false
							if aid, ok := sa.(*ast.Ident); ok && pk.TypesInfo.Uses[aid] == sp {
								inSelf = true
							}
							for _, fv := range fieldOf {
								if inSelf {
									fieldArg[fv.Name()] = fv.Name()
								} else {
									fieldArg[fv.Name()] = t2(sa) + "." + fv.Name()
								}
							}
						}
						for b, a := range call.Args {
							if b != sidx && !plainExpr(a) {
								okCalls = false
							}
						}
						if !okCalls {
							return true
						}
						var sb strings.Builder
						sb.WriteString(recvText + fun.Name + "(")
						for a := off; a < len(kp); a++ {
							if a > off {
								sb.WriteString(", ")
							}
							if b, ok := curOf[kp[a]]; ok {
								sb.WriteString(t2(call.Args[b]))
							} else {
								v, have := fieldArg[fieldOf[kp[a]].Name()]
								if !have {
									okCalls = false
								}
								sb.WriteString(v)
							}
						}
						sb.WriteString(")")
						es = append(es, renameEdit{file: f2name, off: pk.Fset.Position(call.Pos()).Offset, end: pk.Fset.Position(call.End()).Offset, text: sb.String()})
						return true
					})
				}
				_ = ftext
				if !okCalls || handled != nUses || handled == 0 {
					continue
				}
				// nested edits: a call inside the body that hands the struct parameter on contains no selector edit of
				// its own (the parameter appears there as a bare identifier), but drop any edit lying inside another
				var keep []renameEdit
				for a, e := range es {
					inside := false
					for b, e2 := range es {
						if a != b && e.file == e2.file && e.off >= e2.off && e.end <= e2.end && !(e.off == e2.off && e.end == e2.end && a < b) {
							inside = true
						}
					}
					if !inside {
						keep = append(keep, e)
					}
				}
				for _, e := range keep {
					edits[e.file] = append(edits[e.file], e)
				}
				notes = append(notes, fmt.Sprintf("%s takes %d of its known parameters bundled in a %s: declaration and %d call(s) rewritten to the known parameter list", n, len(fieldOf), local(flat[sidx].obj.Type()), handled))
			}
		}
	}
	return edits, notes
}

// computeReceiverOwnerBacks: known METHODS (X).m(P...) R are missing and new methods of the SAME names, parameters
// and results exist on the type F of exactly one field fld of the struct X (`(dg *Graph) failNode` ->
// `(f *FailedNodes) failNode`, called as `dg.Failed.failNode(..)`): the methods moved to the part of the receiver they
// used. Each such method gets its known receiver back (named as the rules know it), every use of its receiver in its body
// becomes `recv.fld`, and every call `x.fld.m(args)` (x plain) becomes `x.m(args)`; a call on the receiver of another
// moved method, `f.m(args)`, becomes `recv.m(args)`. All uses of the moved methods must be such calls.
func computeReceiverOwnerBacks(pkgs []*packages.Package) (map[string][]renameEdit, []string) {
	edits := map[string][]renameEdit{}
	var notes []string
	q := func(p *types.Package) string { return p.Path() }
	for _, pk := range pkgs {
		if !analysedPkg(pk.PkgPath) {
			continue
		}
		prefix := strings.ReplaceAll(pk.PkgPath, ModPath, "dig")
		decl := map[string]*types.Func{}
		declAST := map[string]*ast.FuncDecl{}
		for _, f := range pk.Syntax {
			for _, d := range f.Decls {
				if fd, ok := d.(*ast.FuncDecl); ok {
					if o, ok := pk.TypesInfo.Defs[fd.Name].(*types.Func); ok {
						decl[shortFuncName(o)] = o
						declAST[shortFuncName(o)] = fd
					}
				}
			}
		}
		type move struct {
			known, cur string
			fld        *types.Var
			recvT      types.Type
			rname      string
		}
		var moves []move
		for m, ks := range knownFuncs {
			if knownPkgOf(m) != prefix || !strings.HasPrefix(m, "(") {
				continue
			}
			if _, ok := decl[m]; ok {
				continue
			}
			i := strings.Index(ks, " -> ")
			if i < 2 {
				continue
			}
			kp := splitTop(ks[1 : i-1])
			base := m[strings.LastIndex(m, ".")+1:]
			// the known receiver type
			var recvT types.Type
			sc := pk.Types.Scope()
			for _, nm := range sc.Names() {
				if tn, ok := sc.Lookup(nm).(*types.TypeName); ok {
					if types.TypeString(tn.Type(), q) == kp[0] {
						recvT = tn.Type()
					} else if types.TypeString(types.NewPointer(tn.Type()), q) == kp[0] {
						recvT = types.NewPointer(tn.Type())
					}
				}
			}
			if recvT == nil {
				continue
			}
			under := recvT
			if pt, ok := under.(*types.Pointer); ok {
				under = pt.Elem()
			}
			st, ok := under.Underlying().(*types.Struct)
			if !ok {
				continue
			}
			for u, o := range decl {
				if _, known := knownFuncs[u]; known || u[strings.LastIndex(u, ".")+1:] != base {
					continue
				}
				sig := o.Type().(*types.Signature)
				if sig.Recv() == nil {
					continue
				}
				cs := SigKey(o)
				j := strings.Index(cs, " -> ")
				if j < 2 || cs[j:] != ks[i:] {
					continue
				}
				cp := splitTop(cs[1 : j-1])
				if len(cp) != len(kp) || strings.Join(cp[1:], ",") != strings.Join(kp[1:], ",") {
					continue
				}
				var fld *types.Var
				n := 0
				for k := 0; k < st.NumFields(); k++ {
					ft := st.Field(k).Type()
					if types.TypeString(ft, q) == cp[0] || types.TypeString(types.NewPointer(ft), q) == cp[0] {
						fld = st.Field(k)
						n++
					}
				}
				if n != 1 {
					continue
				}
				rname := "recv0"
				if ns, ok := frozenParamNames[m]; ok && len(ns) > 0 && ns[0] != "" && ns[0] != "_" {
					rname = ns[0]
				}
				moves = append(moves, move{m, u, fld, recvT, rname})
			}
		}
		if len(moves) == 0 {
			continue
		}
		moved := map[types.Object]move{}
		recvOf := map[types.Object]move{} // receiver variable of a moved method -> its move
		for _, mv := range moves {
			moved[decl[mv.cur]] = mv
			fd := declAST[mv.cur]
			if fd.Recv != nil && len(fd.Recv.List) == 1 && len(fd.Recv.List[0].Names) == 1 {
				if ob := pk.TypesInfo.Defs[fd.Recv.List[0].Names[0]]; ob != nil {
					recvOf[ob] = mv
				}
			}
		}
		local := func(t types.Type) string {
			return types.TypeString(t, func(p *types.Package) string {
				if p == pk.Types {
					return ""
				}
				return p.Name()
			})
		}
		var es []renameEdit
		okAll := true
		handled := 0
		total := 0
		for _, ob := range pk.TypesInfo.Uses {
			if _, ok := moved[ob]; ok {
				total++
			}
		}
		for _, p2 := range pkgs {
			if p2 != pk {
				for _, ob := range p2.TypesInfo.Uses {
					if _, ok := moved[ob]; ok {
						okAll = false
					}
				}
			}
		}
		callRecv := map[*ast.Ident]bool{} // receiver identifiers consumed by a call rewrite
		for _, f := range pk.Syntax {
			fname := pk.Fset.Position(f.Pos()).Filename
			fsrc, err := os.ReadFile(fname)
			if b, ok := currentOverlay[fname]; ok {
				fsrc, err = b, nil
			}
			if err != nil {
				okAll = false
				break
			}
			t2 := func(nd ast.Node) string {
				return string(fsrc[pk.Fset.Position(nd.Pos()).Offset:pk.Fset.Position(nd.End()).Offset])
			}
			ast.Inspect(f, func(nd ast.Node) bool {
				call, ok := nd.(*ast.CallExpr)
				if !ok {
					return true
				}
				se, ok := call.Fun.(*ast.SelectorExpr)
				if !ok {
					return true
				}
				mv, ok := moved[pk.TypesInfo.Uses[se.Sel]]
				if !ok {
					return true
				}
				handled++
				switch x := se.X.(type) {
				case *ast.SelectorExpr:
					if x.Sel.Name != mv.fld.Name() || !plainExpr(x.X) {
						okAll = false
						return true
					}
					// x.X may itself be the receiver of a moved method? not in this shape
					es = append(es, renameEdit{file: fname, off: pk.Fset.Position(se.X.Pos()).Offset, end: pk.Fset.Position(se.X.End()).Offset, text: t2(x.X)})
				case *ast.Ident:
					own, isRecv := recvOf[pk.TypesInfo.Uses[x]]
					if !isRecv || own.fld != mv.fld {
						okAll = false
						return true
					}
					callRecv[x] = true
					es = append(es, renameEdit{file: fname, off: pk.Fset.Position(x.Pos()).Offset, end: pk.Fset.Position(x.End()).Offset, text: own.rname})
				default:
					okAll = false
				}
				return true
			})
		}
		if !okAll || handled != total || handled == 0 {
			continue
		}
		for _, mv := range moves {
			fd := declAST[mv.cur]
			file := pk.Fset.Position(fd.Pos()).Filename
			if fd.Recv == nil || len(fd.Recv.List) != 1 || len(fd.Recv.List[0].Names) != 1 || fd.Body == nil {
				okAll = false
				break
			}
			rid := fd.Recv.List[0].Names[0]
			robj := pk.TypesInfo.Defs[rid]
			// the known receiver name must be free in the method
			ast.Inspect(fd, func(nd ast.Node) bool {
				if id, ok := nd.(*ast.Ident); ok && id.Name == mv.rname && id != rid {
					okAll = false
				}
				return true
			})
			es = append(es, renameEdit{file: file, off: pk.Fset.Position(fd.Recv.Pos()).Offset, end: pk.Fset.Position(fd.Recv.End()).Offset, text: "(" + mv.rname + " " + local(mv.recvT) + ")"})
			ast.Inspect(fd.Body, func(nd ast.Node) bool {
				if id, ok := nd.(*ast.Ident); ok && pk.TypesInfo.Uses[id] == robj && !callRecv[id] {
					es = append(es, renameEdit{file: file, off: pk.Fset.Position(id.Pos()).Offset, end: pk.Fset.Position(id.End()).Offset, text: mv.rname + "." + mv.fld.Name()})
				}
				return true
			})
		}
		if !okAll {
			continue
		}
		for _, e := range es {
			edits[e.file] = append(edits[e.file], e)
		}
		var names []string
		for _, mv := range moves {
			names = append(names, mv.cur)
		}
		sort.Strings(names)
		notes = append(notes, fmt.Sprintf("%s moved to the type of the receiver field they used: given their known receiver back, %d call(s) rewritten", strings.Join(names, ", "), handled))
	}
	return edits, notes
}

// currentOverlay is the overlay in force while the second canonicalisation stage computes its edits.
var currentOverlay = map[string][]byte{}

// inlineLocalClosures rewrites, in every declared function of the file, each local `f := func(...) ... {...}` whose
// name occurs nowhere else in that function except as the callee of direct calls: every call f(args) becomes
// (func(...) ... {...})(args) and the definition disappears. Conditions (purely syntactic, conservative):
// the literal does not mention f; no name the literal mentions is declared anywhere in the enclosing function
// after the definition outside the literal (a call site could otherwise see another variable of that name than the
// definition site did). Returns the new source and the number of calls rewritten.
func inlineLocalClosures(name string, src []byte) ([]byte, int) {
	fset := token.NewFileSet()
	f, err := parser.ParseFile(fset, name, src, parser.ParseComments|parser.SkipObjectResolution)
	if err != nil {
		return src, 0
	}
	total := 0
	for _, d := range f.Decls {
		fd, ok := d.(*ast.FuncDecl)
		if !ok || fd.Body == nil {
			continue
		}
		for rounds := 0; rounds < 10; rounds++ {
			// find a candidate definition
			var defBlock *[]ast.Stmt
			defIdx := -1
			var lit *ast.FuncLit
			var fname string
			var find func(list *[]ast.Stmt)
			visitStmt := func(st ast.Stmt) {}
			find = func(list *[]ast.Stmt) {
				for i, st := range *list {
					if lit != nil {
						return
					}
					if as, ok := st.(*ast.AssignStmt); ok && as.Tok == token.DEFINE && len(as.Lhs) == 1 && len(as.Rhs) == 1 {
						if id, ok := as.Lhs[0].(*ast.Ident); ok {
							if l, ok := as.Rhs[0].(*ast.FuncLit); ok && id.Name != "_" {
								defBlock, defIdx, lit, fname = list, i, l, id.Name
								return
							}
						}
					}
					visitStmt(st)
				}
			}
			visitStmt = func(st ast.Stmt) {
				ast.Inspect(st, func(n ast.Node) bool {
					if lit != nil {
						return false
					}
					switch x := n.(type) {
					case *ast.BlockStmt:
						find(&x.List)
						return false
					case *ast.CaseClause:
						find(&x.Body)
						return false
					case *ast.CommClause:
						find(&x.Body)
						return false
					case *ast.FuncLit:
						find(&x.Body.List)
						return false
					}
					return true
				})
			}
			find(&fd.Body.List)
			if lit == nil {
				break
			}
			// all identifiers named fname in the function: the definition and call positions only
			okUse := true
			var calls []*ast.CallExpr
			callFun := map[*ast.Ident]bool{}
			ast.Inspect(fd, func(n ast.Node) bool {
				if c, ok := n.(*ast.CallExpr); ok {
					if id, ok := c.Fun.(*ast.Ident); ok && id.Name == fname {
						calls = append(calls, c)
						callFun[id] = true
					}
				}
				return true
			})
			// every call stands where the unwrapping step can reach it (a statement of its own, the right-hand side
			// of an assignment, an operand of a return); a call inside a condition or a larger expression would stay
			// an immediately-invoked literal, which helps nobody
			direct := map[*ast.CallExpr]bool{}
			ast.Inspect(fd, func(n ast.Node) bool {
				switch x := n.(type) {
				case *ast.ExprStmt:
					if c, ok := x.X.(*ast.CallExpr); ok {
						direct[c] = true
					}
				case *ast.AssignStmt:
					for _, r := range x.Rhs {
						if c, ok := r.(*ast.CallExpr); ok {
							direct[c] = true
						}
					}
				case *ast.ReturnStmt:
					for _, r := range x.Results {
						if c, ok := r.(*ast.CallExpr); ok {
							direct[c] = true
						}
					}
				}
				return true
			})
			for _, c := range calls {
				if !direct[c] {
					okUse = false
				}
			}
			defIdent := (*defBlock)[defIdx].(*ast.AssignStmt).Lhs[0].(*ast.Ident)
			ast.Inspect(fd, func(n ast.Node) bool {
				if id, ok := n.(*ast.Ident); ok && id.Name == fname && id != defIdent && !callFun[id] {
					okUse = false
				}
				return true
			})
			// the literal's names
			mentioned := map[string]bool{}
			ast.Inspect(lit, func(n ast.Node) bool {
				if id, ok := n.(*ast.Ident); ok {
					mentioned[id.Name] = true
				}
				return true
			})
			if mentioned[fname] || len(calls) == 0 {
				okUse = false
			}
			// names the literal declares itself (parameters, results, locals) are not free in it
			for _, fl := range []*ast.FieldList{lit.Type.Params, lit.Type.Results} {
				if fl != nil {
					for _, fld := range fl.List {
						for _, id := range fld.Names {
							delete(mentioned, id.Name)
						}
					}
				}
			}
			ast.Inspect(lit.Body, func(n ast.Node) bool {
				switch x := n.(type) {
				case *ast.AssignStmt:
					if x.Tok == token.DEFINE {
						for _, l := range x.Lhs {
							if id, ok := l.(*ast.Ident); ok {
								delete(mentioned, id.Name)
							}
						}
					}
				case *ast.RangeStmt:
					if x.Tok == token.DEFINE {
						for _, e := range []ast.Expr{x.Key, x.Value} {
							if id, ok := e.(*ast.Ident); ok {
								delete(mentioned, id.Name)
							}
						}
					}
				case *ast.ValueSpec:
					for _, id := range x.Names {
						delete(mentioned, id.Name)
					}
				}
				return true
			})
			// names declared after the definition, outside the literal
			if okUse {
				after := false
				ast.Inspect(fd.Body, func(n ast.Node) bool {
					if n == ast.Node(lit) {
						return false
					}
					if n == ast.Node((*defBlock)[defIdx]) {
						after = true
						return false
					}
					if !after {
						return true
					}
					declare := func(id *ast.Ident) {
						if mentioned[id.Name] && id.Name != "_" {
							okUse = false
						}
					}
					switch x := n.(type) {
					case *ast.AssignStmt:
						if x.Tok == token.DEFINE {
							for _, l := range x.Lhs {
								if id, ok := l.(*ast.Ident); ok {
									declare(id)
								}
							}
						}
					case *ast.RangeStmt:
						if x.Tok == token.DEFINE {
							for _, e := range []ast.Expr{x.Key, x.Value} {
								if id, ok := e.(*ast.Ident); ok {
									declare(id)
								}
							}
						}
					case *ast.ValueSpec:
						for _, id := range x.Names {
							declare(id)
						}
					case *ast.TypeSpec:
						declare(x.Name)
					case *ast.FuncLit:
						for _, fl := range []*ast.FieldList{x.Type.Params, x.Type.Results} {
							if fl != nil {
								for _, fld := range fl.List {
									for _, id := range fld.Names {
										declare(id)
									}
								}
							}
						}
					case *ast.TypeSwitchStmt:
						if as, ok := x.Assign.(*ast.AssignStmt); ok {
							for _, l := range as.Lhs {
								if id, ok := l.(*ast.Ident); ok {
									declare(id)
								}
							}
						}
					}
					return true
				})
			}
			if !okUse {
				// leave this closure; make sure we do not pick it again: rename search by marking
				// (simplest: stop looking in this function)
				break
			}
			var buf bytes.Buffer
			if err := format.Node(&buf, fset, lit); err != nil {
				break
			}
			litSrc := buf.String()
			bad := false
			for _, c := range calls {
				e, err := parser.ParseExpr(litSrc)
				if err != nil {
					bad = true
					break
				}
				c.Fun = &ast.ParenExpr{X: e}
			}
			if bad {
				break
			}
			// drop the definition
			lst := *defBlock
			*defBlock = append(append([]ast.Stmt{}, lst[:defIdx]...), lst[defIdx+1:]...)
			total += len(calls)
		}
	}
	if total == 0 {
		return src, 0
	}
	// positions of the pasted literals are meaningless: print without comments to keep the printer from
	// misplacing them
	f.Comments = nil
	var out bytes.Buffer
	if err := format.Node(&out, token.NewFileSet(), f); err != nil {
		return src, 0
	}
	return out.Bytes(), total
}
