package an

import (
	"fmt"
	"go/token"
	"sort"
	"strings"

	"golang.org/x/tools/go/ssa"
)

// E-PATH: a small path-sensitive explorer. It enumerates control-flow paths
// while tracking (a) the current value of every phi node (which incoming edge
// was taken last) and (b) boolean facts about SSA values established by the
// branches taken so far. A fact about a value is dropped when the instruction
// defining it executes again (next loop iteration). Branches whose condition
// is decided by the tracked state are followed only in the consistent
// direction. No solver is involved.

// PEnv is the tracked state along one path.
type PEnv struct {
	Phi   map[*ssa.Phi]ssa.Value
	Facts map[string]bool
}

func (e *PEnv) clone() *PEnv {
	n := &PEnv{Phi: make(map[*ssa.Phi]ssa.Value, len(e.Phi)), Facts: make(map[string]bool, len(e.Facts))}
	for k, v := range e.Phi {
		n.Phi[k] = v
	}
	for k, v := range e.Facts {
		n.Facts[k] = v
	}
	return n
}

// Val resolves v through the tracked phi values and local cells.
func (e *PEnv) Val(v ssa.Value) ssa.Value {
	for i := 0; i < 32; i++ {
		switch x := v.(type) {
		case *ssa.Phi:
			if r, ok := e.Phi[x]; ok {
				v = r
				continue
			}
			return v
		case *ssa.ChangeInterface:
			v = x.X
			continue
		case *ssa.ChangeType:
			v = x.X
			continue
		}
		r := Resolve(v)
		if r != v {
			v = r
			continue
		}
		return v
	}
	return v
}

// KnownNil reports whether v is nil on the current path: the nil constant, or
// a value the path has compared with nil and found equal.
func (e *PEnv) KnownNil(v ssa.Value) bool {
	v = e.Val(v)
	if c, ok := v.(*ssa.Const); ok {
		return c.IsNil()
	}
	return e.Facts["eq:"+vid(v)+":nil"]
}

func vid(v ssa.Value) string {
	if c, ok := v.(*ssa.Const); ok {
		if c.IsNil() {
			return "nil"
		}
		if c.Value == nil {
			return "const:zero"
		}
		return "const:" + c.Value.String()
	}
	switch x := v.(type) {
	case *ssa.Field:
		// pure projection: two Field instructions of the same tuple/struct
		// value denote the same thing (go/ssa performs no CSE)
		return "field(" + vid(x.X) + ")." + fieldName(x.X.Type(), x.Field)
	case *ssa.Extract:
		return vid(x.Tuple) + "#" + fmt.Sprint(x.Index)
	case *ssa.UnOp:
		// load of a field of a single-assignment local struct cell
		if x.Op == token.MUL {
			if fa, ok := x.X.(*ssa.FieldAddr); ok {
				if al, ok := fa.X.(*ssa.Alloc); ok {
					if val, ok := CellValue(al); ok {
						return "field(" + vid(val) + ")." + fieldName(fa.X.Type(), fa.Field)
					}
				}
			}
		}
	}
	return fmt.Sprintf("%s@%p", v.Name(), v)
}

func (e *PEnv) key() string {
	var parts []string
	for k, v := range e.Phi {
		parts = append(parts, k.Name()+"="+vid(v))
	}
	for k, v := range e.Facts {
		parts = append(parts, fmt.Sprintf("%s:%v", k, v))
	}
	sort.Strings(parts)
	return strings.Join(parts, ";")
}

// evalCond tries to decide cond under env. It returns (value, known, key)
// where key identifies the atomic fact the condition depends on.
func (e *PEnv) evalCond(cond ssa.Value) (val bool, known bool, key string, neg bool) {
	v := cond
	for {
		v = e.Val(v)
		if u, ok := v.(*ssa.UnOp); ok && u.Op == token.NOT {
			neg = !neg
			v = u.X
			continue
		}
		break
	}
	if c, ok := v.(*ssa.Const); ok && c.Value != nil {
		b := c.Value.String() == "true"
		return b != neg, true, "", neg
	}
	if b, ok := v.(*ssa.BinOp); ok && (b.Op == token.EQL || b.Op == token.NEQ) {
		l, r := e.Val(b.X), e.Val(b.Y)
		lc, lok := l.(*ssa.Const)
		rc, rok := r.(*ssa.Const)
		if lok && !rok {
			l, r = r, l
			lc, rc = rc, lc
			lok, rok = rok, lok
		}
		if b.Op == token.NEQ {
			neg = !neg
		}
		if lok && rok {
			eq := lc.IsNil() == rc.IsNil() && (lc.IsNil() || (lc.Value != nil && rc.Value != nil && lc.Value.String() == rc.Value.String()))
			return eq != neg, true, "", neg
		}
		if rok {
			// comparison of a value with a constant
			if _, isMI := l.(*ssa.MakeInterface); isMI && rc.IsNil() {
				return false != neg, true, "", neg // a made interface is never nil
			}
			key = "eq:" + vid(l) + ":" + vid(rc)
		} else {
			a, bb := vid(l), vid(r)
			if a > bb {
				a, bb = bb, a
			}
			key = "eq:" + a + ":" + bb
		}
		if f, ok := e.Facts[key]; ok {
			return f != neg, true, key, neg
		}
		return false, false, key, neg
	}
	key = "v:" + vid(v)
	if f, ok := e.Facts[key]; ok {
		return f != neg, true, key, neg
	}
	return false, false, key, neg
}

// dropFactsAbout removes the facts mentioning value v.
func (e *PEnv) dropFactsAbout(v ssa.Value) {
	id := vid(v)
	for k := range e.Facts {
		if strings.Contains(k, id) {
			delete(e.Facts, k)
		}
	}
}

// PSQuery describes a path-sensitive search.
type PSQuery struct {
	Fn *ssa.Function
	// Start: begin after this instruction (nil: function entry) ...
	Start ssa.Instruction
	// ... or by crossing this edge (takes precedence when non-nil); the fact
	// of the edge is assumed.
	StartEdge *Edge
	// Target is asked for every instruction reached; env gives the phi values.
	Target func(in ssa.Instruction, env *PEnv) bool
	Gates  *Gates
	// Kill: reaching an instruction for which Kill returns true abandons the path.
	Kill func(in ssa.Instruction, env *PEnv) bool
	// MaxStates bounds the exploration (default 20000).
	MaxStates int
}

// PSResult is the outcome of a path-sensitive search.
type PSResult struct {
	Found    ssa.Instruction
	Path     []*ssa.BasicBlock
	Overflow bool
	States   int
	Env      string
}

// PathSens runs the query.
func PathSens(q PSQuery) PSResult {
	if q.MaxStates == 0 {
		q.MaxStates = 20000
	}
	if q.Gates == nil {
		q.Gates = NewGates()
	}
	type item struct {
		b    *ssa.BasicBlock
		from int
		env  *PEnv
		prev *item
	}
	var res PSResult
	seen := map[string]bool{}
	var stack []*item
	enter := func(it *item, e Edge) {
		// take edge e from it.b: update phis of the successor, record fact
		succ := e.From.Succs[e.Succ]
		env := it.env.clone()
		predIdx := -1
		// which predecessor index is e.From in succ? (a block can appear twice)
		cnt := 0
		for i, p := range succ.Preds {
			if p == e.From {
				// match the Succ ordinal among duplicate edges
				if cnt == dupOrdinal(e) {
					predIdx = i
				}
				cnt++
			}
		}
		if predIdx < 0 {
			for i, p := range succ.Preds {
				if p == e.From {
					predIdx = i
				}
			}
		}
		// phis are evaluated simultaneously with the old env
		newVals := map[*ssa.Phi]ssa.Value{}
		for _, in := range succ.Instrs {
			ph, ok := in.(*ssa.Phi)
			if !ok {
				break
			}
			if predIdx >= 0 && predIdx < len(ph.Edges) {
				newVals[ph] = it.env.Val(ph.Edges[predIdx])
			}
		}
		for ph, v := range newVals {
			env.dropFactsAbout(ph)
			env.Phi[ph] = v
		}
		k := fmt.Sprintf("b%d|%s", succ.Index, env.key())
		if seen[k] {
			return
		}
		seen[k] = true
		stack = append(stack, &item{b: succ, from: 0, env: env, prev: it})
	}
	env0 := &PEnv{Phi: map[*ssa.Phi]ssa.Value{}, Facts: map[string]bool{}}
	if q.StartEdge != nil {
		e := *q.StartEdge
		root := &item{b: e.From, from: len(e.From.Instrs), env: env0}
		if iff, ok := e.From.Instrs[len(e.From.Instrs)-1].(*ssa.If); ok {
			_, known, key, neg := env0.evalCond(iff.Cond)
			if !known && key != "" {
				want := e.Succ == 0
				env0.Facts[key] = want != neg
			}
		}
		enter(root, e)
	} else if q.Start == nil {
		stack = append(stack, &item{b: q.Fn.Blocks[0], from: 0, env: env0})
	} else {
		b := q.Start.Block()
		stack = append(stack, &item{b: b, from: indexIn(b, q.Start) + 1, env: env0})
	}
	mkpath := func(it *item) []*ssa.BasicBlock {
		var p []*ssa.BasicBlock
		for x := it; x != nil; x = x.prev {
			p = append([]*ssa.BasicBlock{x.b}, p...)
		}
		return p
	}
	for len(stack) > 0 {
		it := stack[len(stack)-1]
		stack = stack[:len(stack)-1]
		res.States++
		if res.States > q.MaxStates {
			res.Overflow = true
			return res
		}
		dead := false
		for i := it.from; i < len(it.b.Instrs); i++ {
			in := it.b.Instrs[i]
			if _, isPhi := in.(*ssa.Phi); isPhi {
				continue
			}
			if q.Gates.Instr[in] {
				dead = true
				break
			}
			if q.Kill != nil && q.Kill(in, it.env) {
				dead = true
				break
			}
			if q.Target(in, it.env) {
				res.Found = in
				res.Path = mkpath(it)
				res.Env = it.env.key()
				return res
			}
			if v, ok := in.(ssa.Value); ok {
				switch in.(type) {
				case *ssa.Field, *ssa.Extract:
					// pure projections: re-evaluating them changes nothing
				default:
					if !strings.HasPrefix(vid(v), "field(") {
						it.env.dropFactsAbout(v)
					}
				}
			}
		}
		if dead {
			continue
		}
		last := it.b.Instrs[len(it.b.Instrs)-1]
		if iff, ok := last.(*ssa.If); ok {
			val, known, key, neg := it.env.evalCond(iff.Cond)
			cs := ConstSucc(it.b)
			for si := 0; si < 2; si++ {
				e := Edge{it.b, si}
				if q.Gates.Edge[e] || (cs >= 0 && si != cs) {
					continue
				}
				want := si == 0
				if known && val != want {
					continue
				}
				src := it
				if !known && key != "" {
					// record the fact on a private copy
					src = &item{b: it.b, from: it.from, env: it.env.clone(), prev: it.prev}
					src.env.Facts[key] = want != neg
				}
				enter(src, e)
			}
			continue
		}
		for si := range it.b.Succs {
			e := Edge{it.b, si}
			if q.Gates.Edge[e] {
				continue
			}
			enter(it, e)
		}
	}
	return res
}

// dupOrdinal returns, for an edge From->Succs[Succ], how many earlier
// successor slots of From point to the same block (0 normally).
func dupOrdinal(e Edge) int {
	n := 0
	for i := 0; i < e.Succ; i++ {
		if e.From.Succs[i] == e.From.Succs[e.Succ] {
			n++
		}
	}
	return n
}

// FactKeyEq is the key under which the explorer records the outcome of the
// comparison `v == <constant c>` (c given in normalised form).
func FactKeyEq(v ssa.Value, c string) string { return "eq:" + vid(v) + ":const:" + c }

// FactKeyVal is the key under which the explorer records the truth of the
// boolean value v.
func FactKeyVal(v ssa.Value) string { return "v:" + vid(v) }
