package an

import (
	"fmt"
	"go/constant"
	"go/token"
	"go/types"
	"strings"
	"sync"

	"golang.org/x/tools/go/ssa"
)

// Edge is a control-flow edge out of a block: Succ indexes From.Succs. For a
// block ending in If, Succ 0 is the true edge and Succ 1 the false edge.
type Edge struct {
	From *ssa.BasicBlock
	Succ int
}

// Gates is a set of instructions and edges that are deleted from the flow
// graph for a must-pass-through query.
type Gates struct {
	Instr map[ssa.Instruction]bool
	Edge  map[Edge]bool
}

// NewGates makes an empty gate set.
func NewGates() *Gates {
	return &Gates{Instr: map[ssa.Instruction]bool{}, Edge: map[Edge]bool{}}
}

// AddInstr adds instructions to the gate set.
func (g *Gates) AddInstr(ins ...ssa.Instruction) *Gates {
	for _, i := range ins {
		g.Instr[i] = true
	}
	return g
}

// AddEdges adds edges to the gate set.
func (g *Gates) AddEdges(es ...Edge) *Gates {
	for _, e := range es {
		g.Edge[e] = true
	}
	return g
}

// Len is the number of gates.
func (g *Gates) Len() int { return len(g.Instr) + len(g.Edge) }

func indexIn(b *ssa.BasicBlock, in ssa.Instruction) int {
	for i, x := range b.Instrs {
		if x == in {
			return i
		}
	}
	return -1
}

// PathTo searches fn's flow graph, at instruction granularity, for a path that
// starts right after `start` (or at function entry when start is nil), never
// executes a gate instruction and never crosses a gate edge, and arrives at an
// instruction accepted by target. It returns that instruction and the blocks
// of a witness path, or nil if no such path exists.
//
// "Every path from A to B passes through a gate" is PathTo(...) == nil.
func PathTo(fn *ssa.Function, start ssa.Instruction, target func(ssa.Instruction) bool, gates *Gates) (ssa.Instruction, []*ssa.BasicBlock) {
	if len(fn.Blocks) == 0 {
		return nil, nil
	}
	if gates == nil {
		gates = NewGates()
	}
	type item struct {
		b    *ssa.BasicBlock
		from int // index of first instruction to execute
		prev *item
	}
	// Blocks that branch on a phi of their own (a flag merged from several
	// predecessors, the shape left behind by an unwrapped helper with several
	// returns) are explored once per predecessor, and only the successor that
	// the incoming constant selects is followed: a path that enters with
	// done=true cannot leave through the done=false edge.
	type seenKey struct {
		b    *ssa.BasicBlock
		pred int
	}
	seen := map[seenKey]bool{}
	keyOf := func(b *ssa.BasicBlock, from *ssa.BasicBlock) seenKey {
		if from != nil && (phiBranch(b) != nil || branchesOnOwnPhi(b)) {
			for i, p := range b.Preds {
				if p == from {
					return seenKey{b, i}
				}
			}
		}
		return seenKey{b, -1}
	}
	var queue []*item
	if start == nil {
		queue = append(queue, &item{b: fn.Blocks[0], from: 0})
		seen[seenKey{fn.Blocks[0], -1}] = true
	} else {
		b := start.Block()
		queue = append(queue, &item{b: b, from: indexIn(b, start) + 1})
		// note: the start block is not marked seen, so that a loop back into it
		// explores its head part too.
	}
	mkpath := func(it *item) []*ssa.BasicBlock {
		var p []*ssa.BasicBlock
		for x := it; x != nil; x = x.prev {
			p = append([]*ssa.BasicBlock{x.b}, p...)
		}
		return p
	}
	for len(queue) > 0 {
		it := queue[0]
		queue = queue[1:]
		blocked := false
		for i := it.from; i < len(it.b.Instrs); i++ {
			in := it.b.Instrs[i]
			if gates.Instr[in] {
				blocked = true
				break
			}
			if target(in) {
				return in, mkpath(it)
			}
		}
		if blocked {
			continue
		}
		only := -1
		if it.prev != nil && it.from == 0 {
			only = phiSelectedSucc(it.b, it.prev.b)
			if only < 0 {
				idx, cnt := -1, 0
				for i, p := range it.b.Preds {
					if p == it.prev.b {
						idx = i
						cnt++
					}
				}
				if cnt == 1 {
					only = selectedSucc(it.b, idx)
				}
			}
		}
		if cs := ConstSucc(it.b); cs >= 0 {
			only = cs
		}
		for si, s := range it.b.Succs {
			if only >= 0 && si != only {
				continue
			}
			if gates.Edge[Edge{it.b, si}] {
				continue
			}
			k := keyOf(s, it.b)
			if seen[k] {
				continue
			}
			seen[k] = true
			queue = append(queue, &item{b: s, from: 0, prev: it})
		}
	}
	return nil, nil
}

// IsInstr makes a target predicate for one instruction.
func IsInstr(x ssa.Instruction) func(ssa.Instruction) bool {
	return func(i ssa.Instruction) bool { return i == x }
}

// IsExit accepts Return and Panic instructions.
func IsExit(i ssa.Instruction) bool {
	switch i.(type) {
	case *ssa.Return, *ssa.Panic:
		return true
	}
	return false
}

// BlockPath renders a block path for reports.
func BlockPath(p *Prog, path []*ssa.BasicBlock) []string {
	var out []string
	for _, b := range path {
		pos := "-"
		for _, in := range b.Instrs {
			if in.Pos().IsValid() {
				pos = p.Pos(in.Pos())
				break
			}
		}
		c := b.Comment
		out = append(out, fmt.Sprintf("b%d(%s)@%s", b.Index, c, pos))
	}
	return out
}

// InLoop reports whether the instruction's block lies on a CFG cycle.
func InLoop(in ssa.Instruction) bool {
	b := in.Block()
	seen := map[*ssa.BasicBlock]bool{}
	stack := append([]*ssa.BasicBlock{}, b.Succs...)
	for len(stack) > 0 {
		x := stack[len(stack)-1]
		stack = stack[:len(stack)-1]
		if x == b {
			return true
		}
		if seen[x] {
			continue
		}
		seen[x] = true
		stack = append(stack, x.Succs...)
	}
	return false
}

// ---------------------------------------------------------------------------
// Instructions and calls

// ConstSucc: for a block ending in an If on a constant condition (`if false && ...`, a disabled guard), the index
// of the only successor that can be taken; -1 otherwise.
func ConstSucc(b *ssa.BasicBlock) int {
	if len(b.Instrs) == 0 {
		return -1
	}
	iff, ok := b.Instrs[len(b.Instrs)-1].(*ssa.If)
	if !ok {
		return -1
	}
	k, ok := iff.Cond.(*ssa.Const)
	if !ok || k.Value == nil || k.Value.Kind() != constant.Bool {
		return -1
	}
	if constant.BoolVal(k.Value) {
		return 0
	}
	return 1
}

var liveCache sync.Map // *ssa.Function -> map[*ssa.BasicBlock]bool

// Live is the set of blocks reachable from the entry (and, for the recover block, always) when constant
// conditions are taken at face value. Code in a dead block is not part of the program the rules judge.
func Live(fn *ssa.Function) map[*ssa.BasicBlock]bool {
	if v, ok := liveCache.Load(fn); ok {
		return v.(map[*ssa.BasicBlock]bool)
	}
	live := map[*ssa.BasicBlock]bool{}
	if len(fn.Blocks) > 0 {
		stack := []*ssa.BasicBlock{fn.Blocks[0]}
		if fn.Recover != nil {
			stack = append(stack, fn.Recover)
		}
		for len(stack) > 0 {
			b := stack[len(stack)-1]
			stack = stack[:len(stack)-1]
			if live[b] {
				continue
			}
			live[b] = true
			only := ConstSucc(b)
			for si, s := range b.Succs {
				if only >= 0 && si != only {
					continue
				}
				stack = append(stack, s)
			}
		}
	}
	liveCache.Store(fn, live)
	return live
}

// Instrs calls f for every instruction of fn (dead blocks excluded, see Live).
func Instrs(fn *ssa.Function, f func(ssa.Instruction)) {
	live := Live(fn)
	for _, b := range fn.Blocks {
		if !live[b] {
			continue
		}
		for _, in := range b.Instrs {
			f(in)
		}
	}
}

// CalleeName gives a short description of what a call instruction calls:
// "dig.newParam", "(*dig.Scope).provide", "invoke dig.provider.Call",
// "builtin len", "dynamic <type>".
func CalleeName(c ssa.CallInstruction) string {
	cc := c.Common()
	if cc.IsInvoke() {
		recv := cc.Value.Type()
		return "invoke " + strings.ReplaceAll(types.TypeString(recv, nil), ModPath, "dig") + "." + cc.Method.Name()
	}
	switch v := cc.Value.(type) {
	case *ssa.Function:
		return ShortName(v)
	case *ssa.Builtin:
		return "builtin " + v.Name()
	case *ssa.MakeClosure:
		return ShortName(v.Fn.(*ssa.Function))
	}
	return "dynamic " + strings.ReplaceAll(types.TypeString(cc.Value.Type(), nil), ModPath, "dig")
}

// StaticCallee returns the statically known callee including closures.
func StaticCallee(c ssa.CallInstruction) *ssa.Function {
	cc := c.Common()
	if cc.IsInvoke() {
		return nil
	}
	switch v := cc.Value.(type) {
	case *ssa.Function:
		return v
	case *ssa.MakeClosure:
		return v.Fn.(*ssa.Function)
	}
	return nil
}

// Calls returns the call instructions (call, defer, go) of fn whose
// CalleeName satisfies match.
func Calls(fn *ssa.Function, match func(name string, c ssa.CallInstruction) bool) []ssa.CallInstruction {
	var out []ssa.CallInstruction
	Instrs(fn, func(in ssa.Instruction) {
		if c, ok := in.(ssa.CallInstruction); ok {
			if match(CalleeName(c), c) {
				out = append(out, c)
			}
		}
	})
	return out
}

// CallsNamed returns calls whose callee name equals one of names.
func CallsNamed(fn *ssa.Function, names ...string) []ssa.CallInstruction {
	return Calls(fn, func(n string, _ ssa.CallInstruction) bool {
		for _, x := range names {
			if n == x {
				return true
			}
		}
		return false
	})
}

// InvokesOf returns interface method calls in fn of the given method name on
// the dig interface type iface (e.g. "provider", "Call").
func InvokesOf(fn *ssa.Function, iface, method string) []ssa.CallInstruction {
	return Calls(fn, func(_ string, c ssa.CallInstruction) bool {
		cc := c.Common()
		return cc.IsInvoke() && cc.Method.Name() == method && IsDigNamed(cc.Value.Type(), iface)
	})
}

// Args returns the call arguments including the receiver as element 0 for
// invoke-mode and method calls.
func Args(c ssa.CallInstruction) []ssa.Value {
	cc := c.Common()
	if cc.IsInvoke() {
		return append([]ssa.Value{cc.Value}, cc.Args...)
	}
	return cc.Args
}

// ---------------------------------------------------------------------------
// Normalisation of SSA values to expression strings

// Norm renders an SSA value as an expression over parameters, fields, calls
// and constants. Two occurrences with equal strings denote the same
// computation over the same inputs (not necessarily the same moment in time:
// loads of mutable fields taken at different points normalise equally).
func Norm(v ssa.Value) string { return norm(v, 0, map[ssa.Value]bool{}) }

func tname(t types.Type) string {
	return strings.ReplaceAll(types.TypeString(t, func(p *types.Package) string {
		if strings.HasPrefix(p.Path(), ModPath) {
			return strings.Replace(p.Path(), ModPath, "dig", 1)
		}
		return p.Path()
	}), ModPath, "dig")
}

func fieldName(t types.Type, idx int) string {
	if p, ok := t.Underlying().(*types.Pointer); ok {
		t = p.Elem()
	}
	st, ok := t.Underlying().(*types.Struct)
	if !ok || idx >= st.NumFields() {
		return fmt.Sprintf("f%d", idx)
	}
	return st.Field(idx).Name()
}

func norm(v ssa.Value, depth int, seen map[ssa.Value]bool) string {
	if v == nil {
		return "<nil>"
	}
	if depth > 24 {
		return "…"
	}
	d := depth + 1
	switch x := v.(type) {
	case *ssa.Parameter:
		if a := closureArg(x); a != nil && !seen[x] {
			seen[x] = true
			r := norm(a, d, seen)
			delete(seen, x)
			return r
		}
		return "p:" + CanonParam(x)
	case *ssa.FreeVar:
		if r := cellRoot(x); r != ssa.Value(x) {
			return norm(r, d, seen)
		}
		return "fv:" + x.Name()
	case *ssa.Const:
		if x.IsNil() {
			return "nil"
		}
		if x.Value == nil {
			return "zero(" + tname(x.Type()) + ")"
		}
		return x.Value.String()
	case *ssa.Global:
		return "g:" + x.Name()
	case *ssa.Function:
		return "func:" + ShortName(x)
	case *ssa.Builtin:
		return x.Name()
	case *ssa.Alloc:
		if val, ok := CellValue(x); ok {
			if prm, isP := val.(*ssa.Parameter); isP {
				// a spilled parameter: named after the parameter's canonical name, whatever the source calls it
				return "new:" + CanonParam(prm)
			}
		}
		if x.Comment == "new" {
			if pt, ok := x.Type().Underlying().(*types.Pointer); ok {
				if _, isStruct := pt.Elem().Underlying().(*types.Struct); isStruct {
					// new(T) followed by field assignments is the same construction as &T{...}
					return "new:complit"
				}
			}
		}
		if x.Comment != "" {
			return "new:" + x.Comment
		}
		return "new:" + x.Name()
	case *ssa.FieldAddr:
		if a, ok := x.X.(*ssa.Alloc); ok {
			if val, ok := CellValue(a); ok {
				return "&" + norm(val, d, seen) + "." + fieldName(x.X.Type(), x.Field)
			}
		}
		return "&" + norm(x.X, d, seen) + "." + fieldName(x.X.Type(), x.Field)
	case *ssa.Field:
		return norm(x.X, d, seen) + "." + fieldName(x.X.Type(), x.Field)
	case *ssa.IndexAddr:
		return "&" + norm(x.X, d, seen) + "[" + norm(x.Index, d, seen) + "]"
	case *ssa.Index:
		return norm(x.X, d, seen) + "[" + norm(x.Index, d, seen) + "]"
	case *ssa.Lookup:
		return norm(x.X, d, seen) + "[" + norm(x.Index, d, seen) + "]"
	case *ssa.UnOp:
		switch x.Op {
		case token.MUL:
			if r := Resolve(x); r != ssa.Value(x) {
				return norm(r, d, seen)
			}
			s := norm(x.X, d, seen)
			if strings.HasPrefix(s, "&") {
				return s[1:]
			}
			return "*" + s
		case token.NOT:
			// a negated comparison is the comparison with the opposite operator, in the same canonical form branch
			// facts use (!(len(x) != 0) is (len(x) == 0))
			inner := x.X
			if _, isCmp := inner.(*ssa.BinOp); isCmp {
				if b := inner.(*ssa.BinOp); func() bool { _, c := negOp(b.Op); return c }() {
					return CondString(x, false)
				}
			}
			if u, isNot := inner.(*ssa.UnOp); isNot && u.Op == token.NOT {
				return norm(u.X, d, seen)
			}
			return "!" + norm(x.X, d, seen)
		case token.ARROW:
			return "<-" + norm(x.X, d, seen)
		default:
			return x.Op.String() + norm(x.X, d, seen)
		}
	case *ssa.BinOp:
		if _, cmp := negOp(x.Op); cmp && isLenCall(x.X) {
			return CondString(x, false)
		}
		return "(" + norm(x.X, d, seen) + " " + x.Op.String() + " " + norm(x.Y, d, seen) + ")"
	case *ssa.Call:
		return normCall(x, d, seen)
	case *ssa.Extract:
		return norm(x.Tuple, d, seen) + "#" + fmt.Sprint(x.Index)
	case *ssa.MakeInterface:
		return "iface(" + norm(x.X, d, seen) + ")"
	case *ssa.ChangeInterface:
		return norm(x.X, d, seen)
	case *ssa.ChangeType:
		return norm(x.X, d, seen)
	case *ssa.Convert:
		return tname(x.Type()) + "(" + norm(x.X, d, seen) + ")"
	case *ssa.TypeAssert:
		return norm(x.X, d, seen) + ".(" + tname(x.AssertedType) + ")"
	case *ssa.Phi:
		if r := SimplifyPhi(x); r != nil && !seen[x] {
			seen[x] = true
			o := norm(r, d, seen)
			delete(seen, x)
			return o
		}
		return "φ" + x.Name()
	case *ssa.MakeClosure:
		return "closure:" + ShortName(x.Fn.(*ssa.Function))
	case *ssa.MakeMap:
		return "makemap:" + x.Name()
	case *ssa.MakeSlice:
		return "makeslice:" + x.Name()
	case *ssa.MakeChan:
		return "makechan:" + x.Name()
	case *ssa.Slice:
		lo, hi := "", ""
		if x.Low != nil {
			lo = norm(x.Low, d, seen)
			if lo == "0" {
				lo = ""
			}
		}
		if x.High != nil {
			hi = norm(x.High, d, seen)
		}
		return norm(x.X, d, seen) + "[" + lo + ":" + hi + "]"
	case *ssa.Range:
		return "range(" + norm(x.X, d, seen) + ")"
	case *ssa.Next:
		return "next(" + norm(x.Iter, d, seen) + ")"
	case *ssa.SliceToArrayPointer:
		return norm(x.X, d, seen)
	}
	return "?" + v.Name()
}

func normCall(x *ssa.Call, d int, seen map[ssa.Value]bool) string {
	cc := x.Common()
	var args []string
	for _, a := range cc.Args {
		args = append(args, norm(a, d, seen))
	}
	if cc.IsInvoke() {
		return norm(cc.Value, d, seen) + "." + cc.Method.Name() + "(" + strings.Join(args, ", ") + ")"
	}
	switch f := cc.Value.(type) {
	case *ssa.Function:
		// the (alias-aware) known name decides between method and function form, so that a function moved onto a
		// receiver, or a method turned into a function, prints as the rules know it
		sn := ShortName(f)
		if f.Parent() == nil && strings.HasPrefix(sn, "(") && len(args) > 0 {
			return args[0] + "." + sn[strings.LastIndex(sn, ".")+1:] + "(" + strings.Join(args[1:], ", ") + ")"
		}
		if f.Signature.Recv() != nil && len(args) > 0 && strings.HasPrefix(sn, "(") {
			return args[0] + "." + f.Name() + "(" + strings.Join(args[1:], ", ") + ")"
		}
		return sn + "(" + strings.Join(args, ", ") + ")"
	case *ssa.Builtin:
		return f.Name() + "(" + strings.Join(args, ", ") + ")"
	}
	return "(" + norm(cc.Value, d, seen) + ")(" + strings.Join(args, ", ") + ")"
}

// ---------------------------------------------------------------------------
// Facts from branch conditions

// Fact is an atomic condition known to hold on a control-flow edge.
type Fact struct {
	// S is the normalised text, e.g. "p:n.called", "!p:n.called",
	// "(t5#1 == nil)" rendered over Norm strings: "(X == nil)", "(X != nil)",
	// "(len(X) > 0)".
	S string
	// Cond is the SSA condition value of the If; Neg tells whether the fact is
	// its negation.
	Cond ssa.Value
	Neg  bool
}

func negOp(op token.Token) (token.Token, bool) {
	switch op {
	case token.EQL:
		return token.NEQ, true
	case token.NEQ:
		return token.EQL, true
	case token.LSS:
		return token.GEQ, true
	case token.GEQ:
		return token.LSS, true
	case token.GTR:
		return token.LEQ, true
	case token.LEQ:
		return token.GTR, true
	}
	return op, false
}

// CondString renders a condition value (possibly negated) canonically:
// negations are pushed into comparisons and a constant operand is placed on
// the right-hand side.
func CondString(v ssa.Value, neg bool) string {
	switch x := v.(type) {
	case *ssa.UnOp:
		if x.Op == token.NOT {
			return CondString(x.X, !neg)
		}
	case *ssa.BinOp:
		op := x.Op
		if _, cmp := negOp(op); cmp {
			l, r := x.X, x.Y
			if _, lc := l.(*ssa.Const); lc {
				if _, rc := r.(*ssa.Const); !rc {
					l, r = r, l
					switch op {
					case token.LSS:
						op = token.GTR
					case token.GTR:
						op = token.LSS
					case token.LEQ:
						op = token.GEQ
					case token.GEQ:
						op = token.LEQ
					}
				}
			}
			if neg {
				op, _ = negOp(op)
			}
			// len(x) compared with 0: canonical forms "> 0" and "== 0"
			if rc, ok := r.(*ssa.Const); ok && rc.Value != nil && isLenCall(l) {
				switch rc.Value.String() {
				case "0":
					switch op {
					case token.NEQ, token.GTR:
						op = token.GTR
					case token.EQL, token.LEQ:
						op = token.EQL
					}
				case "1":
					switch op {
					case token.GEQ:
						return "(" + Norm(l) + " > 0)"
					case token.LSS:
						return "(" + Norm(l) + " == 0)"
					}
				}
			}
			return "(" + Norm(l) + " " + op.String() + " " + Norm(r) + ")"
		}
	}
	if neg {
		return "!" + Norm(v)
	}
	return Norm(v)
}

// EdgeFact returns the fact that holds on an edge leaving an If block, and
// false for edges that do not leave an If.
func EdgeFact(e Edge) (Fact, bool) {
	b := e.From
	if len(b.Instrs) == 0 {
		return Fact{}, false
	}
	iff, ok := b.Instrs[len(b.Instrs)-1].(*ssa.If)
	if !ok {
		return Fact{}, false
	}
	neg := e.Succ == 1
	return Fact{S: CondString(iff.Cond, neg), Cond: iff.Cond, Neg: neg}, true
}

// EdgesWhere returns all If-edges of fn whose fact satisfies pred.
func EdgesWhere(fn *ssa.Function, pred func(Fact) bool) []Edge {
	var out []Edge
	live := Live(fn)
	for _, b := range fn.Blocks {
		if len(b.Instrs) == 0 || !live[b] {
			continue
		}
		if _, ok := b.Instrs[len(b.Instrs)-1].(*ssa.If); !ok {
			continue
		}
		only := ConstSucc(b)
		for si := 0; si < 2 && si < len(b.Succs); si++ {
			if only >= 0 && si != only {
				continue
			}
			e := Edge{b, si}
			if f, ok := EdgeFact(e); ok && pred(f) {
				out = append(out, e)
			}
		}
	}
	return out
}

// FactIs makes a predicate accepting facts with exactly one of the given texts.
func FactIs(texts ...string) func(Fact) bool {
	return func(f Fact) bool {
		for _, t := range texts {
			if f.S == t {
				return true
			}
		}
		return false
	}
}

// NilErrEdges returns the edges on which the error result of the given call
// is known to be nil ("err == nil" true edge, "err != nil" false edge). The
// error result is the call value itself when the callee returns a single
// error, or the extraction of the tuple component with index idx.
func NilErrEdges(fn *ssa.Function, call ssa.Value, idx int) []Edge {
	return cmpNilEdges(fn, call, idx, true)
}

// NonNilErrEdges is the complement of NilErrEdges.
func NonNilErrEdges(fn *ssa.Function, call ssa.Value, idx int) []Edge {
	return cmpNilEdges(fn, call, idx, false)
}

func isResultOf(v ssa.Value, call ssa.Value, idx int) bool {
	if v == call && idx < 0 {
		return true
	}
	if ex, ok := v.(*ssa.Extract); ok && ex.Tuple == call && ex.Index == idx {
		return true
	}
	// single-result call referenced directly
	if v == call {
		if _, isTuple := call.Type().(*types.Tuple); !isTuple {
			return true
		}
	}
	return false
}

func cmpNilEdges(fn *ssa.Function, call ssa.Value, idx int, wantNil bool) []Edge {
	return EdgesWhere(fn, func(f Fact) bool {
		b, ok := f.Cond.(*ssa.BinOp)
		if !ok || (b.Op != token.EQL && b.Op != token.NEQ) {
			return false
		}
		var other ssa.Value
		if c, ok := b.Y.(*ssa.Const); ok && c.IsNil() {
			other = b.X
		} else if c, ok := b.X.(*ssa.Const); ok && c.IsNil() {
			other = b.Y
		} else {
			return false
		}
		if !isResultOf(Resolve(other), call, idx) {
			return false
		}
		isNil := (b.Op == token.EQL) != f.Neg
		return isNil == wantNil
	})
}

// BoolEdges returns the edges on which the boolean value v is true (want) or
// false (!want), where the If condition is v itself or its negation.
func BoolEdges(fn *ssa.Function, match func(ssa.Value) bool, want bool) []Edge {
	return EdgesWhere(fn, func(f Fact) bool {
		v := f.Cond
		neg := f.Neg
		for {
			if u, ok := v.(*ssa.UnOp); ok && u.Op == token.NOT {
				v = u.X
				neg = !neg
				continue
			}
			break
		}
		v = Resolve(v)
		if !match(v) {
			return false
		}
		return (!neg) == want
	})
}

// ---------------------------------------------------------------------------
// def-use helpers

// Referrers returns the instructions that use v (nil-safe).
func Referrers(v ssa.Value) []ssa.Instruction {
	r := v.Referrers()
	if r == nil {
		return nil
	}
	return *r
}

// FlowsTo reports whether value src can flow to dst through copies: phi,
// change-type/interface, make-interface, extract, slicing; bounded def-use
// walk backwards from dst.
func FlowsTo(src, dst ssa.Value) bool {
	seen := map[ssa.Value]bool{}
	var walk func(v ssa.Value) bool
	walk = func(v ssa.Value) bool {
		if v == src {
			return true
		}
		if v == nil || seen[v] {
			return false
		}
		seen[v] = true
		switch x := v.(type) {
		case *ssa.Phi:
			for _, e := range x.Edges {
				if walk(e) {
					return true
				}
			}
		case *ssa.ChangeType:
			return walk(x.X)
		case *ssa.ChangeInterface:
			return walk(x.X)
		case *ssa.MakeInterface:
			return walk(x.X)
		case *ssa.Convert:
			return walk(x.X)
		case *ssa.Slice:
			return walk(x.X)
		case *ssa.TypeAssert:
			return walk(x.X)
		case *ssa.Extract:
			return walk(x.Tuple)
		case *ssa.UnOp:
			if x.Op == token.MUL {
				// load from a local cell: follow stores into the same alloc
				if a, ok := x.X.(*ssa.Alloc); ok {
					for _, r := range Referrers(a) {
						if st, ok := r.(*ssa.Store); ok && st.Addr == a && walk(st.Val) {
							return true
						}
					}
				}
			}
		}
		return false
	}
	return walk(dst)
}

// Origins walks backwards from v through copies and phis and returns the leaf
// values it can originate from.
func Origins(v ssa.Value) []ssa.Value {
	seen := map[ssa.Value]bool{}
	var out []ssa.Value
	var walk func(v ssa.Value)
	walk = func(v ssa.Value) {
		if v == nil || seen[v] {
			return
		}
		seen[v] = true
		switch x := v.(type) {
		case *ssa.Phi:
			for _, e := range x.Edges {
				walk(e)
			}
			return
		case *ssa.ChangeType:
			walk(x.X)
			return
		case *ssa.ChangeInterface:
			walk(x.X)
			return
		case *ssa.MakeInterface:
			walk(x.X)
			return
		case *ssa.UnOp:
			if x.Op == token.MUL {
				if a, ok := x.X.(*ssa.Alloc); ok {
					n := 0
					for _, r := range Referrers(a) {
						if st, ok := r.(*ssa.Store); ok && st.Addr == a {
							walk(st.Val)
							n++
						}
					}
					if n > 0 {
						return
					}
				}
			}
		}
		out = append(out, v)
	}
	walk(v)
	return out
}

// StoresToField returns the Store instructions of fn whose address is a
// FieldAddr selecting field `field` of a struct type named dig.<typ>.
func StoresToField(fn *ssa.Function, typ, field string) []*ssa.Store {
	var out []*ssa.Store
	Instrs(fn, func(in ssa.Instruction) {
		st, ok := in.(*ssa.Store)
		if !ok {
			return
		}
		if fa, ok := st.Addr.(*ssa.FieldAddr); ok {
			if IsDigNamed(fa.X.Type(), typ) && fieldName(fa.X.Type(), fa.Field) == field {
				out = append(out, st)
			}
		}
	})
	return out
}

// FieldOf reports whether v is a load of (or the address of) field `field` of
// a value of named dig type typ, returning the base value.
func FieldOf(v ssa.Value, typ, field string) (ssa.Value, bool) {
	switch x := v.(type) {
	case *ssa.UnOp:
		if x.Op == token.MUL {
			return FieldOf(x.X, typ, field)
		}
	case *ssa.FieldAddr:
		if IsDigNamed(x.X.Type(), typ) && fieldName(x.X.Type(), x.Field) == field {
			return x.X, true
		}
	case *ssa.Field:
		if IsDigNamed(x.X.Type(), typ) && fieldName(x.X.Type(), x.Field) == field {
			return x.X, true
		}
	}
	return nil, false
}

// FieldName exposes fieldName.
func FieldName(t types.Type, idx int) string { return fieldName(t, idx) }

// CanonParam returns the name under which rules refer to a parameter: the
// frozen name for its position if the function is in the table, else its
// current name. Renaming a parameter therefore changes no normalised string.
func CanonParam(x *ssa.Parameter) string {
	fn := x.Parent()
	if fn == nil {
		return x.Name()
	}
	names, ok := frozenParamNames[ShortName(fn)]
	if !ok {
		return x.Name()
	}
	for i, q := range fn.Params {
		if q == x && i < len(names) {
			return names[i]
		}
	}
	return x.Name()
}

func isLenCall(v ssa.Value) bool {
	c, ok := v.(*ssa.Call)
	if !ok {
		return false
	}
	b, ok := c.Common().Value.(*ssa.Builtin)
	return ok && b.Name() == "len"
}

// phiBranch returns the phi (defined in b itself) on which b's terminating If
// branches, possibly under negations, or nil.
func phiBranch(b *ssa.BasicBlock) *ssa.Phi {
	phi, _ := phiBranchNeg(b)
	return phi
}

func phiBranchNeg(b *ssa.BasicBlock) (*ssa.Phi, bool) {
	if len(b.Instrs) == 0 {
		return nil, false
	}
	iff, ok := b.Instrs[len(b.Instrs)-1].(*ssa.If)
	if !ok {
		return nil, false
	}
	v := iff.Cond
	neg := false
	for {
		if u, ok := v.(*ssa.UnOp); ok && u.Op == token.NOT {
			v = u.X
			neg = !neg
			continue
		}
		break
	}
	phi, ok := v.(*ssa.Phi)
	if !ok || phi.Block() != b {
		return nil, false
	}
	// the block must do nothing observable but merge and branch, otherwise a
	// per-predecessor view is still right (instructions are the same) - no restriction needed.
	return phi, neg
}

// phiSelectedSucc returns the index of the only successor of b that can be
// taken when b is entered from pred, or -1 when that is not determined.
func phiSelectedSucc(b, pred *ssa.BasicBlock) int {
	phi, neg := phiBranchNeg(b)
	if phi == nil {
		return -1
	}
	idx := -1
	for i, p := range b.Preds {
		if p == pred {
			if idx >= 0 {
				return -1 // entered twice from the same block: ambiguous
			}
			idx = i
		}
	}
	if idx < 0 || idx >= len(phi.Edges) {
		return -1
	}
	c, ok := phi.Edges[idx].(*ssa.Const)
	if !ok || c.Value == nil {
		return -1
	}
	val := c.Value.String() == "true"
	if c.Value.String() != "true" && c.Value.String() != "false" {
		return -1
	}
	if neg {
		val = !val
	}
	if val {
		return 0
	}
	return 1
}

// closureArg: a parameter of an anonymous function that is invoked at exactly
// one place of its parent (defer func(x T){...}(arg), go, or a direct call) and
// whose closure value is used nowhere else stands for that argument, exactly
// as a captured variable stands for its binding.
func closureArg(x *ssa.Parameter) ssa.Value {
	fn := x.Parent()
	if fn == nil || fn.Parent() == nil {
		return nil
	}
	idx := -1
	for i, q := range fn.Params {
		if q == x {
			idx = i
		}
	}
	if idx < 0 {
		return nil
	}
	var site ssa.CallInstruction
	n := 0
	Instrs(fn.Parent(), func(in ssa.Instruction) {
		if mc, ok := in.(*ssa.MakeClosure); ok && mc.Fn == fn {
			for _, r := range Referrers(mc) {
				n++
				if ci, ok := r.(ssa.CallInstruction); ok && ci.Common().Value == ssa.Value(mc) {
					site = ci
				} else {
					n += 100
				}
			}
		}
		if ci, ok := in.(ssa.CallInstruction); ok && ci.Common().Value == ssa.Value(fn) {
			n++
			site = ci
		}
	})
	if n != 1 || site == nil || idx >= len(site.Common().Args) {
		return nil
	}
	return site.Common().Args[idx]
}

// branchesOnOwnPhi: b ends in an If whose condition compares a phi of b with nil.
func branchesOnOwnPhi(b *ssa.BasicBlock) bool {
	if len(b.Instrs) == 0 {
		return false
	}
	iff, ok := b.Instrs[len(b.Instrs)-1].(*ssa.If)
	if !ok {
		return false
	}
	bo, ok := iff.Cond.(*ssa.BinOp)
	if !ok {
		return false
	}
	for _, v := range []ssa.Value{bo.X, bo.Y} {
		if p, ok := resolveLoadOnly(v).(*ssa.Phi); ok && p.Block() == b {
			return true
		}
	}
	return false
}
