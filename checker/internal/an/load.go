// Package an holds the shared static-analysis machinery: loading the
// type-checked program, SSA, call graphs, an instruction-level flow graph with
// gate deletion (must-pass-through), value normalisation and fact extraction
// from branch conditions.
package an

import (
	"fmt"
	"go/token"
	"go/types"
	"os"
	"sort"
	"strings"

	"golang.org/x/tools/go/callgraph"
	"golang.org/x/tools/go/callgraph/cha"
	"golang.org/x/tools/go/callgraph/vta"
	"golang.org/x/tools/go/packages"
	"golang.org/x/tools/go/ssa"
	"golang.org/x/tools/go/ssa/ssautil"
)

// ModPath is the module under analysis.
const ModPath = "go.uber.org/dig"

// Prog is the loaded, type-checked program in SSA form.
type Prog struct {
	RepoDir string
	Fset    *token.FileSet
	Pkgs    []*packages.Package // every package of the module (non-test)
	All     []*packages.Package // transitive closure
	SSA     *ssa.Program
	Dig     *ssa.Package
	DigPkg  *packages.Package
	ModSSA  map[string]*ssa.Package // module packages by import path

	// Funcs are all source-level functions of the module (declared functions,
	// methods and anonymous functions), sorted by name.
	Funcs  []*ssa.Function
	byName map[string]*ssa.Function

	cha, vta *callgraph.Graph
	allFuncs map[*ssa.Function]bool

	// Canon is what the canonicalisation pre-pass did (nil when it had nothing to do).
	Canon *Canon
}

// LoadOptions selects the build configuration.
type LoadOptions struct {
	Dir    string
	Tags   string
	GOARCH string
	// NoCanon skips the canonicalisation pre-pass (used to generate the known-function table).
	NoCanon bool
}

// Load loads and type-checks the module at opt.Dir and builds SSA.
func Load(opt LoadOptions) (*Prog, error) {
	env := []string{}
	for _, e := range os.Environ() {
		if strings.HasPrefix(e, "GOWORK=") || strings.HasPrefix(e, "GOFLAGS=") ||
			strings.HasPrefix(e, "GOPROXY=") || strings.HasPrefix(e, "GOSUMDB=") ||
			strings.HasPrefix(e, "GOTOOLCHAIN=") || strings.HasPrefix(e, "GOARCH=") {
			continue
		}
		env = append(env, e)
	}
	env = append(env, "GOWORK=off", "GOFLAGS=-mod=mod", "GOPROXY=off", "GOSUMDB=off", "GOTOOLCHAIN=local")
	if opt.GOARCH != "" {
		env = append(env, "GOARCH="+opt.GOARCH)
	}
	cfg := &packages.Config{
		Mode:  packages.LoadAllSyntax,
		Dir:   opt.Dir,
		Env:   env,
		Tests: false,
	}
	if opt.Tags != "" {
		cfg.BuildFlags = []string{"-tags=" + opt.Tags}
	}
	pkgs, err := packages.Load(cfg, "./...")
	if err != nil {
		return nil, fmt.Errorf("packages.Load: %w", err)
	}
	if len(pkgs) == 0 {
		return nil, fmt.Errorf("no packages loaded from %s", opt.Dir)
	}
	var errs []string
	packages.Visit(pkgs, nil, func(p *packages.Package) {
		for _, e := range p.Errors {
			errs = append(errs, e.Error())
		}
	})
	if len(errs) > 0 {
		return nil, fmt.Errorf("type-check/load errors: %s", strings.Join(errs, "; "))
	}
	var canon *Canon
	aliasByCurrent = map[string]string{}
	if !opt.NoCanon {
		reload := func(ov map[string][]byte) ([]*packages.Package, error) {
			c2 := *cfg
			c2.Overlay = ov
			ps, err := packages.Load(&c2, "./...")
			if err != nil {
				return nil, err
			}
			var es []string
			packages.Visit(ps, nil, func(p *packages.Package) {
				for _, e := range p.Errors {
					es = append(es, e.Error())
				}
			})
			if len(es) > 0 {
				return nil, fmt.Errorf("%s", strings.Join(es, "; "))
			}
			return ps, nil
		}
		cn, err := Canonicalize(pkgs, reload)
		if err != nil {
			return nil, err
		}
		if len(cn.Overlay) > 0 || len(cn.Aliases) > 0 {
			canon = cn
			aliasByCurrent = cn.Aliases
		}
		if len(cn.Overlay) > 0 {
			cfg.Overlay = cn.Overlay
			pkgs, err = packages.Load(cfg, "./...")
			if err != nil {
				return nil, fmt.Errorf("packages.Load (canonicalised view): %w", err)
			}
			errs = nil
			packages.Visit(pkgs, nil, func(p *packages.Package) {
				for _, e := range p.Errors {
					errs = append(errs, e.Error())
				}
			})
			if len(errs) > 0 {
				return nil, fmt.Errorf("type-check/load errors in the canonicalised view: %s", strings.Join(errs, "; "))
			}
		}
	}
	p := &Prog{RepoDir: opt.Dir, Pkgs: pkgs, ModSSA: map[string]*ssa.Package{}, byName: map[string]*ssa.Function{}, Canon: canon}
	p.Fset = pkgs[0].Fset
	prog, _ := ssautil.AllPackages(pkgs, ssa.InstantiateGenerics)
	prog.Build()
	p.SSA = prog
	for _, pk := range pkgs {
		sp := prog.Package(pk.Types)
		if sp == nil {
			return nil, fmt.Errorf("no SSA package for %s", pk.PkgPath)
		}
		p.ModSSA[pk.PkgPath] = sp
		if pk.PkgPath == ModPath {
			p.Dig = sp
			p.DigPkg = pk
		}
	}
	if p.Dig == nil {
		return nil, fmt.Errorf("package %s not found among %d packages", ModPath, len(pkgs))
	}
	p.allFuncs = ssautil.AllFunctions(prog)
	for fn := range p.allFuncs {
		if fn.Synthetic != "" {
			// keep only source functions; wrappers are followed by call graphs
			// but carry no rule. Package initialisers are synthetic but hold
			// global initialisation we may care about: keep them too.
			if fn.Name() != "init" {
				continue
			}
		}
		if !p.InModule(fn) {
			continue
		}
		p.Funcs = append(p.Funcs, fn)
	}
	sort.Slice(p.Funcs, func(i, j int) bool { return p.Funcs[i].String() < p.Funcs[j].String() })
	for _, fn := range p.Funcs {
		p.byName[ShortName(fn)] = fn
	}
	return p, nil
}

// InModule reports whether fn (or its outermost parent) belongs to the module.
func (p *Prog) InModule(fn *ssa.Function) bool {
	for fn.Parent() != nil {
		fn = fn.Parent()
	}
	if fn.Pkg == nil {
		// methods of instantiated generics etc.
		if o := fn.Object(); o != nil && o.Pkg() != nil {
			return strings.HasPrefix(o.Pkg().Path(), ModPath)
		}
		return false
	}
	return strings.HasPrefix(fn.Pkg.Pkg.Path(), ModPath) && !strings.Contains(fn.Pkg.Pkg.Path(), "/internal/digtest")
}

// ShortName renders a function name with the module path abbreviated to "dig".
func ShortName(fn *ssa.Function) string {
	return aliasShort(fn, strings.ReplaceAll(fn.String(), ModPath, "dig"))
}

// Func returns the module function with the given short name, e.g.
// "(*dig.Scope).provide", "dig.newParam", "(*dig.Scope).provide$1".
func (p *Prog) Func(name string) *ssa.Function { return p.byName[name] }

// Closures returns the anonymous functions nested (at any depth) inside fn.
func Closures(fn *ssa.Function) []*ssa.Function {
	var out []*ssa.Function
	for _, a := range fn.AnonFuncs {
		out = append(out, a)
		out = append(out, Closures(a)...)
	}
	return out
}

// CHA returns the class-hierarchy call graph (sound for interface and
// function-value calls), built lazily.
func (p *Prog) CHA() *callgraph.Graph {
	if p.cha == nil {
		p.cha = cha.CallGraph(p.SSA)
	}
	return p.cha
}

// VTA returns the variable-type-analysis call graph seeded with CHA.
func (p *Prog) VTA() *callgraph.Graph {
	if p.vta == nil {
		p.vta = vta.CallGraph(p.allFuncs, p.CHA())
	}
	return p.vta
}

// NumAllFuncs is the number of SSA functions in the whole program.
func (p *Prog) NumAllFuncs() int { return len(p.allFuncs) }

// Pos renders a position relative to the repository.
func (p *Prog) Pos(pos token.Pos) string {
	if !pos.IsValid() {
		return "-"
	}
	ps := p.Fset.Position(pos)
	f := strings.TrimPrefix(ps.Filename, p.RepoDir+"/")
	return fmt.Sprintf("%s:%d", f, ps.Line)
}

// InstrPos gives the best available position of an instruction: its own, or
// that of the nearest instruction in the same block that has one.
func (p *Prog) InstrPos(in ssa.Instruction) string {
	if in == nil {
		return "-"
	}
	if in.Pos().IsValid() {
		return p.Pos(in.Pos())
	}
	if v, ok := in.(ssa.Value); ok {
		_ = v
	}
	b := in.Block()
	idx := -1
	for i, x := range b.Instrs {
		if x == in {
			idx = i
		}
	}
	for d := 1; d < len(b.Instrs); d++ {
		for _, j := range []int{idx - d, idx + d} {
			if j >= 0 && j < len(b.Instrs) && b.Instrs[j].Pos().IsValid() {
				return p.Pos(b.Instrs[j].Pos()) + "~"
			}
		}
	}
	return ShortName(b.Parent())
}

// NamedType looks up a named type of package dig.
func (p *Prog) NamedType(name string) *types.Named {
	o := p.Dig.Pkg.Scope().Lookup(name)
	if o == nil {
		return nil
	}
	n, _ := o.Type().(*types.Named)
	return n
}

// NamedTypeIn looks up a named type in a module package by import path.
func (p *Prog) NamedTypeIn(path, name string) *types.Named {
	sp := p.ModSSA[path]
	if sp == nil {
		return nil
	}
	o := sp.Pkg.Scope().Lookup(name)
	if o == nil {
		return nil
	}
	n, _ := o.Type().(*types.Named)
	return n
}

// IsNamed reports whether t (after removing pointers) is the named type
// pkgpath.name.
func IsNamed(t types.Type, pkgpath, name string) bool {
	for {
		if pt, ok := t.(*types.Pointer); ok {
			t = pt.Elem()
			continue
		}
		break
	}
	n, ok := t.(*types.Named)
	if !ok {
		if a, ok := t.(*types.Alias); ok {
			return IsNamed(types.Unalias(a), pkgpath, name)
		}
		return false
	}
	o := n.Obj()
	if o.Name() != name {
		return false
	}
	if o.Pkg() == nil {
		return pkgpath == ""
	}
	return o.Pkg().Path() == pkgpath
}

// IsDigNamed reports whether t is (a pointer to) dig.<name>.
func IsDigNamed(t types.Type, name string) bool { return IsNamed(t, ModPath, name) }
