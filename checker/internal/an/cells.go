package an

import (
	"fmt"
	"go/token"
	"os"

	"golang.org/x/tools/go/ssa"
)

// Local variables captured by closures (and named results of functions with
// defers) are not lifted to registers by go/ssa: they live in Alloc cells.
// The helpers below see through such cells where that is exact.

// freeVarBinding returns the value bound to a free variable at the (unique)
// MakeClosure site of its function, or nil.
func freeVarBinding(fv *ssa.FreeVar) ssa.Value {
	fn := fv.Parent()
	par := fn.Parent()
	if par == nil {
		return nil
	}
	idx := -1
	for i, x := range fn.FreeVars {
		if x == fv {
			idx = i
		}
	}
	if idx < 0 {
		return nil
	}
	var found ssa.Value
	n := 0
	Instrs(par, func(in ssa.Instruction) {
		if mc, ok := in.(*ssa.MakeClosure); ok && mc.Fn == fn {
			n++
			if idx < len(mc.Bindings) {
				found = mc.Bindings[idx]
			}
		}
	})
	if n != 1 {
		return nil
	}
	return found
}

// cellRoot follows free-variable bindings up to the defining Alloc (or other
// value) in an enclosing function.
func cellRoot(v ssa.Value) ssa.Value {
	for i := 0; i < 8; i++ {
		fv, ok := v.(*ssa.FreeVar)
		if !ok {
			return v
		}
		b := freeVarBinding(fv)
		if b == nil {
			return v
		}
		v = b
	}
	return v
}

// storesInto lists all stores whose address is the cell a, in the defining
// function and in every closure that captures it.
func storesInto(a *ssa.Alloc) []*ssa.Store {
	var out []*ssa.Store
	var visit func(addr ssa.Value)
	visit = func(addr ssa.Value) {
		for _, r := range Referrers(addr) {
			switch x := r.(type) {
			case *ssa.Store:
				if x.Addr == addr {
					out = append(out, x)
				}
			case *ssa.MakeClosure:
				fn := x.Fn.(*ssa.Function)
				for i, b := range x.Bindings {
					if b == addr && i < len(fn.FreeVars) {
						visit(fn.FreeVars[i])
					}
				}
			}
		}
	}
	visit(a)
	return out
}

// addrEscapes reports whether the cell's address is used other than by loads,
// stores and closure capture (then it may be written through an alias).
func addrEscapes(a *ssa.Alloc) bool {
	esc := false
	var visit func(addr ssa.Value)
	visit = func(addr ssa.Value) {
		for _, r := range Referrers(addr) {
			switch x := r.(type) {
			case *ssa.Store:
				if x.Addr != addr {
					esc = true
				}
			case *ssa.UnOp:
				if x.Op != token.MUL {
					esc = true
				}
			case *ssa.MakeClosure:
				fn := x.Fn.(*ssa.Function)
				for i, b := range x.Bindings {
					if b == addr && i < len(fn.FreeVars) {
						visit(fn.FreeVars[i])
					}
				}
			case *ssa.DebugRef:
			case *ssa.FieldAddr, *ssa.IndexAddr:
				// address of a part of an aggregate cell: harmless when it is
				// only ever loaded from.
				if !onlyLoaded(x.(ssa.Value)) {
					esc = true
				}
			default:
				esc = true
			}
		}
	}
	visit(a)
	return esc
}

// CellValue returns the single value ever stored into a local cell (e.g. a
// captured parameter), if the cell is assigned exactly once and never aliased.
func CellValue(a *ssa.Alloc) (ssa.Value, bool) {
	if addrEscapes(a) {
		return nil, false
	}
	st := storesInto(a)
	if len(st) != 1 {
		return nil, false
	}
	if st[0].Parent() != a.Parent() {
		return nil, false
	}
	return st[0].Val, true
}

// Resolve sees through loads of local cells. For a single-assignment cell it
// returns the assigned value; for a multiply-assigned cell (such as a named
// error result) it returns the value of the nearest preceding store on the
// straight-line code leading to the load, provided no call that may write the
// cell (a closure capturing it) intervenes. Otherwise v itself.
func Resolve(v ssa.Value) ssa.Value {
	for i := 0; i < 16; i++ {
		if ph, isPhi := v.(*ssa.Phi); isPhi {
			if r := SimplifyPhi(ph); r != nil {
				v = r
				continue
			}
			return v
		}
		ld, ok := v.(*ssa.UnOp)
		if !ok || ld.Op != token.MUL {
			return v
		}
		root := cellRoot(ld.X)
		a, ok := root.(*ssa.Alloc)
		if !ok {
			return v
		}
		if val, ok := CellValue(a); ok {
			v = val
			continue
		}
		if ld.X != ssa.Value(a) {
			return v // load through a free variable of a multiply-assigned cell
		}
		val := nearestStore(ld, a)
		if val == nil {
			return v
		}
		v = val
	}
	return v
}

func nearestStore(ld *ssa.UnOp, a *ssa.Alloc) ssa.Value {
	if addrEscapes(a) {
		return nil
	}
	// reaching definitions of the cell at the load: walk backwards over all
	// predecessors; the load resolves iff exactly one store reaches it and no
	// path reaches the function entry without a store (uninitialised / zero).
	type pos struct {
		b   *ssa.BasicBlock
		idx int
	}
	var found ssa.Value
	multiple := false
	seen := map[*ssa.BasicBlock]bool{}
	var walk func(b *ssa.BasicBlock, idx int)
	walk = func(b *ssa.BasicBlock, idx int) {
		if multiple {
			return
		}
		for i := idx - 1; i >= 0; i-- {
			switch x := b.Instrs[i].(type) {
			case *ssa.Store:
				if x.Addr == ssa.Value(a) {
					if found == nil {
						found = x.Val
					} else if found != x.Val {
						multiple = true
					}
					return
				}
			case ssa.CallInstruction:
				if _, isDefer := x.(*ssa.Defer); isDefer {
					continue
				}
				if mc, ok := x.Common().Value.(*ssa.MakeClosure); ok {
					for _, bnd := range mc.Bindings {
						if bnd == ssa.Value(a) {
							multiple = true
							return
						}
					}
				}
			}
		}
		if len(b.Preds) == 0 {
			// reached entry without a store: the zero value
			multiple = true
			return
		}
		for _, p := range b.Preds {
			if seen[p] {
				continue
			}
			seen[p] = true
			walk(p, len(p.Instrs))
		}
	}
	b := ld.Block()
	walk(b, indexIn(b, ld))
	if multiple {
		return nil
	}
	return found
}

// onlyLoaded reports whether an address value is used only for loads (also
// through nested field/index selections).
func onlyLoaded(addr ssa.Value) bool {
	for _, r := range Referrers(addr) {
		switch x := r.(type) {
		case *ssa.UnOp:
			if x.Op != token.MUL {
				return false
			}
		case *ssa.FieldAddr:
			if !onlyLoaded(x) {
				return false
			}
		case *ssa.IndexAddr:
			if !onlyLoaded(x) {
				return false
			}
		case *ssa.DebugRef:
		default:
			return false
		}
	}
	return true
}

// ---------------------------------------------------------------------------
// Correlated merges. An unwrapped helper with several returns leaves behind
// result temporaries that are phis of one block B, which then branches on one
// of them (`if err != nil`, `if done`). A value phi whose every use lies beyond
// one successor edge of B can only carry the incoming values that select that
// edge: on the success edge, `args` is what the helper returned together with a
// nil error. SimplifyPhi returns that single value, or nil.

var phiCache = map[*ssa.Phi]ssa.Value{}
var phiDone = map[*ssa.Phi]bool{}

// nonNilOnEdge: v is known to be non-nil when control arrives from pred.
func nonNilOnEdge(v ssa.Value, pred *ssa.BasicBlock) bool {
	if _, ok := v.(*ssa.MakeInterface); ok {
		return true
	}
	// walk back through single-predecessor blocks to an `if v != nil` whose true side we are on
	b := pred
	for i := 0; i < 8 && b != nil; i++ {
		if len(b.Preds) != 1 {
			return false
		}
		p := b.Preds[0]
		if iff, ok := p.Instrs[len(p.Instrs)-1].(*ssa.If); ok {
			if bo, ok := iff.Cond.(*ssa.BinOp); ok && (bo.Op == token.NEQ || bo.Op == token.EQL) {
				var other ssa.Value
				if bo.X == v {
					other = bo.Y
				} else if bo.Y == v {
					other = bo.X
				}
				if k, isC := other.(*ssa.Const); isC && k.IsNil() {
					onTrue := p.Succs[0] == b
					return (bo.Op == token.NEQ) == onTrue
				}
			}
		}
		b = p
	}
	return false
}

// selectedSucc: the successor of b taken when entered through predecessor index i, or -1.
func selectedSucc(b *ssa.BasicBlock, i int) int {
	if len(b.Instrs) == 0 {
		return -1
	}
	iff, ok := b.Instrs[len(b.Instrs)-1].(*ssa.If)
	if !ok {
		return -1
	}
	v := iff.Cond
	neg := false
	for {
		if u, ok := v.(*ssa.UnOp); ok && u.Op == token.NOT {
			v, neg = u.X, !neg
			continue
		}
		break
	}
	res := func(val bool) int {
		if val != neg {
			return 0
		}
		return 1
	}
	if ph, ok := resolveLoadOnly(v).(*ssa.Phi); ok && ph.Block() == b && i < len(ph.Edges) {
		if c, ok := ph.Edges[i].(*ssa.Const); ok && c.Value != nil {
			switch c.Value.String() {
			case "true":
				return res(true)
			case "false":
				return res(false)
			}
		}
		return -1
	}
	if bo, ok := v.(*ssa.BinOp); ok && (bo.Op == token.EQL || bo.Op == token.NEQ) {
		var ph *ssa.Phi
		var other ssa.Value
		// the operand may be a load of a cell (a named result) that was just stored from the phi
		bx, by := resolveLoadOnly(bo.X), resolveLoadOnly(bo.Y)
		if p, ok := bx.(*ssa.Phi); ok && p.Block() == b {
			ph, other = p, by
		} else if p, ok := by.(*ssa.Phi); ok && p.Block() == b {
			ph, other = p, bx
		}
		k, isC := other.(*ssa.Const)
		if ph == nil || !isC || !k.IsNil() || i >= len(ph.Edges) {
			return -1
		}
		in := ph.Edges[i]
		if c, ok := in.(*ssa.Const); ok && c.IsNil() {
			return res(bo.Op == token.EQL)
		}
		if nonNilOnEdge(in, b.Preds[i]) {
			return res(bo.Op == token.NEQ)
		}
	}
	return -1
}

// SimplifyPhi: see above.
func SimplifyPhi(ph *ssa.Phi) ssa.Value {
	if phiDone[ph] {
		return phiCache[ph]
	}
	phiDone[ph] = true
	b := ph.Block()
	if _, ok := b.Instrs[len(b.Instrs)-1].(*ssa.If); !ok {
		return nil
	}
	refs := ph.Referrers()
	if refs == nil || len(*refs) == 0 {
		return nil
	}
	dbg := os.Getenv("VERIF_DEBUG_PHI") != ""
	if dbg {
		fmt.Printf("SimplifyPhi %s in %s b%d: %d refs\n", ph.Name(), b.Parent().Name(), b.Index, len(*refs))
		for _, r := range *refs {
			fmt.Printf("   ref %T in b%d\n", r, r.Block().Index)
		}
		for i := range ph.Edges {
			fmt.Printf("   edge %d from b%d sel=%d\n", i, b.Preds[i].Index, selectedSucc(b, i))
		}
	}
	for s := 0; s < 2; s++ {
		tgt := b.Succs[s]
		if len(tgt.Preds) != 1 {
			continue
		}
		all := true
		for _, r := range *refs {
			if r.Block() == b {
				if _, isIf := r.(*ssa.If); isIf {
					continue
				}
				// the branch condition itself may be computed from the phi in b
				if _, isBin := r.(*ssa.BinOp); isBin {
					continue
				}
				all = false
				break
			}
			if !tgt.Dominates(r.Block()) {
				all = false
				break
			}
		}
		if !all {
			continue
		}
		var val ssa.Value
		ok := true
		n := 0
		for i := range ph.Edges {
			sel := selectedSucc(b, i)
			if sel >= 0 && sel != s {
				continue // this incoming value cannot reach the uses
			}
			n++
			if val == nil {
				val = ph.Edges[i]
			} else if val != ph.Edges[i] {
				ok = false
			}
		}
		if ok && val != nil && n < len(ph.Edges) && val != ssa.Value(ph) {
			phiCache[ph] = val
			return val
		}
	}
	return nil
}

// resolveLoadOnly sees through a load of a local cell whose nearest store (in
// straight-line code) is known, without simplifying phis (used while a phi is
// being simplified).
func resolveLoadOnly(v ssa.Value) ssa.Value {
	for i := 0; i < 4; i++ {
		ld, ok := v.(*ssa.UnOp)
		if !ok || ld.Op != token.MUL {
			return v
		}
		a, ok := ld.X.(*ssa.Alloc)
		if !ok {
			return v
		}
		if val, ok := CellValue(a); ok {
			v = val
			continue
		}
		val := nearestStore(ld, a)
		if val == nil {
			return v
		}
		v = val
	}
	return v
}
