package an

import (
	"go/types"

	"golang.org/x/tools/go/callgraph"
	"golang.org/x/tools/go/ssa"
)

// CGReach searches the call graph g forward from root for a function accepted
// by sink, never entering functions for which skip returns true. It returns
// the call path (function names) or nil.
func CGReach(g *callgraph.Graph, root *ssa.Function, sink func(*ssa.Function) bool, skip func(*ssa.Function) bool) []string {
	start := g.Nodes[root]
	if start == nil {
		return nil
	}
	type item struct {
		n    *callgraph.Node
		prev *item
	}
	seen := map[*callgraph.Node]bool{start: true}
	queue := []*item{{n: start}}
	for len(queue) > 0 {
		it := queue[0]
		queue = queue[1:]
		if sink(it.n.Func) {
			var p []string
			for x := it; x != nil; x = x.prev {
				p = append([]string{ShortName(x.n.Func)}, p...)
			}
			return p
		}
		for _, e := range it.n.Out {
			c := e.Callee
			if seen[c] || !EdgeFeasible(e) {
				continue
			}
			seen[c] = true
			if skip != nil && skip(c.Func) {
				continue
			}
			queue = append(queue, &item{n: c, prev: it})
		}
	}
	return nil
}

// CGReachSet returns every function reachable from root (inclusive).
func CGReachSet(g *callgraph.Graph, root *ssa.Function, skip func(*ssa.Function) bool) map[*ssa.Function]bool {
	out := map[*ssa.Function]bool{}
	start := g.Nodes[root]
	if start == nil {
		return out
	}
	stack := []*callgraph.Node{start}
	out[root] = true
	for len(stack) > 0 {
		n := stack[len(stack)-1]
		stack = stack[:len(stack)-1]
		for _, e := range n.Out {
			f := e.Callee.Func
			if out[f] || !EdgeFeasible(e) {
				continue
			}
			if skip != nil && skip(f) {
				continue
			}
			out[f] = true
			stack = append(stack, e.Callee)
		}
	}
	return out
}

// CalleesAt returns the functions the call graph resolves a call site to.
func CalleesAt(g *callgraph.Graph, site ssa.CallInstruction) []*ssa.Function {
	n := g.Nodes[site.Parent()]
	if n == nil {
		return nil
	}
	var out []*ssa.Function
	for _, e := range n.Out {
		if e.Site == site {
			out = append(out, e.Callee.Func)
		}
	}
	return out
}

// SinkKind classifies an instruction as an entry into user-supplied code.
// "" means it is not a sink.
func SinkKind(in ssa.Instruction) string {
	c, ok := in.(ssa.CallInstruction)
	if !ok {
		return ""
	}
	cc := c.Common()
	if cc.IsInvoke() {
		return ""
	}
	if f, ok := cc.Value.(*ssa.Function); ok {
		if f.Signature.Recv() != nil && IsNamed(f.Signature.Recv().Type(), "reflect", "Value") {
			switch f.Name() {
			case "Call", "CallSlice":
				return "reflect.Value." + f.Name()
			}
		}
		return ""
	}
	if _, ok := cc.Value.(*ssa.Builtin); ok {
		return ""
	}
	t := cc.Value.Type()
	if IsDigNamed(t, "invokerFn") {
		return "invokerFn"
	}
	if IsDigNamed(t, "Callback") {
		return "Callback"
	}
	return ""
}

// Sinks lists the user-code sink instructions of fn.
func Sinks(fn *ssa.Function, kinds ...string) []ssa.CallInstruction {
	var out []ssa.CallInstruction
	Instrs(fn, func(in ssa.Instruction) {
		k := SinkKind(in)
		if k == "" {
			return
		}
		if len(kinds) > 0 {
			ok := false
			for _, x := range kinds {
				if x == k {
					ok = true
				}
			}
			if !ok {
				return
			}
		}
		out = append(out, in.(ssa.CallInstruction))
	})
	return out
}

// Implementers returns the named types of package dig (value or pointer form)
// that implement the dig interface called name.
func (p *Prog) Implementers(iface string) []types.Type {
	n := p.NamedType(iface)
	if n == nil {
		return nil
	}
	it, ok := n.Underlying().(*types.Interface)
	if !ok {
		return nil
	}
	var out []types.Type
	sc := p.Dig.Pkg.Scope()
	for _, nm := range sc.Names() {
		tn, ok := sc.Lookup(nm).(*types.TypeName)
		if !ok || tn.IsAlias() {
			continue
		}
		t := tn.Type()
		if types.IsInterface(t) {
			continue
		}
		if types.Implements(t, it) {
			out = append(out, t)
		} else if types.Implements(types.NewPointer(t), it) {
			out = append(out, types.NewPointer(t))
		}
	}
	return out
}

var nonEscaping = map[*ssa.Function]int{} // 0 unknown, 1 non-escaping, 2 escaping

// closureConfined reports whether fn is an anonymous function whose closure
// value is used only as the callee of call/defer/go instructions in its parent
// (it is never stored, passed or returned), so that it can be entered only
// from those sites.
func closureConfined(fn *ssa.Function) bool {
	if fn.Parent() == nil {
		return false
	}
	if s := nonEscaping[fn]; s != 0 {
		return s == 1
	}
	ok := true
	n := 0
	Instrs(fn.Parent(), func(in ssa.Instruction) {
		mc, isMC := in.(*ssa.MakeClosure)
		if !isMC || mc.Fn != fn {
			// a bare *ssa.Function operand (closure without free variables)
			for _, op := range in.Operands(nil) {
				if *op == ssa.Value(fn) {
					if c, isCall := in.(ssa.CallInstruction); isCall && c.Common().Value == ssa.Value(fn) {
						n++
						continue
					}
					ok = false
				}
			}
			return
		}
		n++
		for _, r := range Referrers(mc) {
			c, isCall := r.(ssa.CallInstruction)
			if !isCall || c.Common().Value != ssa.Value(mc) {
				ok = false
				continue
			}
			for _, a := range c.Common().Args {
				if a == ssa.Value(mc) {
					ok = false
				}
			}
		}
	})
	if n == 0 {
		ok = false
	}
	if ok {
		nonEscaping[fn] = 1
	} else {
		nonEscaping[fn] = 2
	}
	return ok
}

// EdgeFeasible removes call-graph edges that CHA adds by signature matching
// to closures whose value never escapes their parent: such a closure can only
// be entered from its parent's own call/defer sites. This refinement is sound.
func EdgeFeasible(e *callgraph.Edge) bool {
	f := e.Callee.Func
	if f.Parent() == nil || !closureConfined(f) {
		return true
	}
	return e.Caller.Func == f.Parent()
}
