package an

import (
	"encoding/json"
	"fmt"
	"os"
	"path/filepath"
	"sort"
	"strings"

	"golang.org/x/tools/go/ssa"
)

// Obligation statuses.
const (
	Discharged = "discharged"
	Violated   = "violated"
	Undecided  = "undecided"
)

// Ob is one obligation: a rule applied to one construct of the current source.
type Ob struct {
	Rule      string   `json:"rule"`
	Construct string   `json:"construct"`
	Status    string   `json:"status"`
	Detail    string   `json:"detail,omitempty"`
	Pos       string   `json:"pos,omitempty"`
	Path      []string `json:"path,omitempty"`
	Known     string   `json:"known_finding,omitempty"`
}

// Ctx collects the obligations of one property run.
type Ctx struct {
	P        *Prog
	Prop     string
	Tier     string
	Obs      []Ob
	RuleText map[string]string // rule id -> statement of the rule
	Analysed map[string]bool   // functions inspected by some rule
	Notes    []string
}

// NewCtx makes a context for a property.
func NewCtx(p *Prog, prop, tier string) *Ctx {
	return &Ctx{P: p, Prop: prop, Tier: tier, RuleText: map[string]string{}, Analysed: map[string]bool{}}
}

// Rule registers the text of a rule (printed in the evidence).
func (c *Ctx) Rule(id, text string) {
	if old, ok := c.RuleText[id]; ok && old != text && !strings.Contains(old, text) {
		c.RuleText[id] = old + " || " + text
		return
	}
	c.RuleText[id] = text
}

// Fn resolves a module function by short name, recording it as analysed. A
// missing function yields an undecided obligation for the given rule.
func (c *Ctx) Fn(rule, name string) *ssa.Function {
	fn := c.P.Func(name)
	if fn == nil {
		c.Und(rule, "anchor "+name, "function not found in the current source (renamed or removed); the rule cannot be evaluated")
		return nil
	}
	c.Analysed[name] = true
	return fn
}

// See records a function as analysed.
func (c *Ctx) See(fn *ssa.Function) {
	if fn != nil {
		c.Analysed[ShortName(fn)] = true
	}
}

func (c *Ctx) add(o Ob) {
	for _, x := range c.Obs {
		if x.Rule == o.Rule && x.Construct == o.Construct && x.Status == o.Status && x.Pos == o.Pos {
			return // the same obligation reached through another path of the call tree
		}
	}
	c.Obs = append(c.Obs, o)
}

// OK records a discharged obligation.
func (c *Ctx) OK(rule, construct, detail string, at ssa.Instruction) {
	c.add(Ob{Rule: rule, Construct: construct, Status: Discharged, Detail: detail, Pos: c.P.InstrPos(at)})
}

// OKAt is OK with a textual position.
func (c *Ctx) OKAt(rule, construct, detail, pos string) {
	c.add(Ob{Rule: rule, Construct: construct, Status: Discharged, Detail: detail, Pos: pos})
}

// Bad records a violated obligation.
func (c *Ctx) Bad(rule, construct, detail string, at ssa.Instruction, path []string) {
	c.add(Ob{Rule: rule, Construct: construct, Status: Violated, Detail: detail, Pos: c.P.InstrPos(at), Path: path})
}

// BadAt is Bad with a textual position.
func (c *Ctx) BadAt(rule, construct, detail, pos string, path []string) {
	c.add(Ob{Rule: rule, Construct: construct, Status: Violated, Detail: detail, Pos: pos, Path: path})
}

// Und records an undecided obligation.
func (c *Ctx) Und(rule, construct, detail string) {
	c.add(Ob{Rule: rule, Construct: construct, Status: Undecided, Detail: detail})
}

// Check records OK or Bad depending on cond.
func (c *Ctx) Check(cond bool, rule, construct, okDetail, badDetail string, at ssa.Instruction, path []string) bool {
	if cond {
		c.OK(rule, construct, okDetail, at)
	} else {
		c.Bad(rule, construct, badDetail, at, path)
	}
	return cond
}

// CheckAtPos records OK or Bad at a textual position.
func (c *Ctx) CheckAtPos(cond bool, rule, construct, okDetail, badDetail, pos string) bool {
	if cond {
		c.OKAt(rule, construct, okDetail, pos)
	} else {
		c.BadAt(rule, construct, badDetail, pos, nil)
	}
	return cond
}

// Floor demands that a rule matched at least min instances; otherwise the rule
// would pass vacuously, which is reported as undecided.
func (c *Ctx) Floor(rule, what string, got, min int) bool {
	if got < min {
		c.Und(rule, "floor "+what, fmt.Sprintf("matched %d instance(s) of %s, hand-confirmed floor is %d: anchors no longer resolve, the rule would pass vacuously", got, what, min))
		return false
	}
	return true
}

// ---------------------------------------------------------------------------
// Known findings

// Finding is an entry of known_findings.json.
type Finding struct {
	Status    string `json:"status"` // "known" or "fixed"
	Property  string `json:"property"`
	Rule      string `json:"rule"`
	Construct string `json:"construct"`
	What      string `json:"what"`
	Commit    string `json:"commit,omitempty"`
	ID        string `json:"id,omitempty"`
}

// FindingsFile is the committed list.
type FindingsFile struct {
	Comment  string    `json:"comment,omitempty"`
	Findings []Finding `json:"findings"`
}

// LoadFindings reads the committed known-findings file (never written here).
func LoadFindings(path string) (*FindingsFile, error) {
	var ff FindingsFile
	b, err := os.ReadFile(path)
	if err != nil {
		if os.IsNotExist(err) {
			return &ff, nil
		}
		return nil, err
	}
	if err := json.Unmarshal(b, &ff); err != nil {
		return nil, fmt.Errorf("%s: %w", path, err)
	}
	return &ff, nil
}

// ---------------------------------------------------------------------------
// Evidence and verdict

// Evidence mirrors EVIDENCE.schema.json.
type Evidence struct {
	PropertyID  string                 `json:"property_id"`
	Tier        string                 `json:"tier"`
	Seed        int                    `json:"seed"`
	Level       string                 `json:"level"`
	Coverage    map[string]interface{} `json:"coverage"`
	Assumptions []string               `json:"assumptions"`
	WallS       float64                `json:"wall_s"`
	Violations  int                    `json:"violations"`
}

// Verdict summarises a run.
type Verdict struct {
	Violations []Ob
	Known      []Ob
	Undecided  []Ob
	Discharged int
}

// Finish applies the known-findings list, writes replay files for violations,
// prints the protocol lines and writes the evidence file. It returns the
// process exit code.
func (c *Ctx) Finish(ff *FindingsFile, evidencePath string, explanation string, assumptions []string, extra map[string]interface{}, wall float64, seed int, checkerCmd string) int {
	var v Verdict
	// stable order
	sort.SliceStable(c.Obs, func(i, j int) bool {
		if c.Obs[i].Rule != c.Obs[j].Rule {
			return c.Obs[i].Rule < c.Obs[j].Rule
		}
		return c.Obs[i].Construct < c.Obs[j].Construct
	})
	for i := range c.Obs {
		o := &c.Obs[i]
		switch o.Status {
		case Discharged:
			v.Discharged++
		case Undecided:
			v.Undecided = append(v.Undecided, *o)
		case Violated:
			known := false
			for _, f := range ff.Findings {
				if f.Status == "known" && f.Property == c.Prop && f.Rule == o.Rule && f.Construct == o.Construct {
					o.Known = f.What
					known = true
					break
				}
			}
			if known {
				v.Known = append(v.Known, *o)
			} else {
				v.Violations = append(v.Violations, *o)
			}
		}
	}
	evDir := filepath.Dir(evidencePath)
	vioDir := filepath.Join(evDir, "violations")
	// remove stale replay files of this property
	if old, _ := filepath.Glob(filepath.Join(vioDir, c.Prop+"-*.json")); len(old) > 0 {
		for _, f := range old {
			os.Remove(f)
		}
	}
	for _, o := range v.Known {
		fmt.Printf("KNOWN-FINDING: property=%s rule=%s construct=%q %s\n", c.Prop, o.Rule, o.Construct, o.Known)
	}
	for i, o := range v.Violations {
		os.MkdirAll(vioDir, 0o755)
		rp := filepath.Join(vioDir, fmt.Sprintf("%s-%d.json", c.Prop, i+1))
		b, _ := json.MarshalIndent(map[string]interface{}{
			"property":  c.Prop,
			"rule":      o.Rule,
			"rule_text": c.RuleText[o.Rule],
			"construct": o.Construct,
			"where":     o.Pos,
			"detail":    o.Detail,
			"path":      o.Path,
			"rerun":     checkerCmd,
		}, "", "  ")
		os.WriteFile(rp, b, 0o644)
		fmt.Printf("violated: [%s] %s at %s: %s\n", o.Rule, o.Construct, o.Pos, o.Detail)
		for _, s := range o.Path {
			fmt.Printf("    via %s\n", s)
		}
		fmt.Printf("VIOLATION property=%s replay=%s\n", c.Prop, rp)
	}
	// An undecided obligation means the check could NOT establish its part of the property on this tree (an anchor is
	// gone, a floor is not met, an exploration overflowed). The interface knows two outcomes only, so it is reported as a
	// violation too - with a replay file that says "undecided" and why - never as a pass.
	for i, o := range v.Undecided {
		os.MkdirAll(vioDir, 0o755)
		rp := filepath.Join(vioDir, fmt.Sprintf("%s-u%d.json", c.Prop, i+1))
		b, _ := json.MarshalIndent(map[string]interface{}{
			"property":  c.Prop,
			"status":    "undecided: the rule could not be evaluated on this tree, so the property's structural condition is not established",
			"rule":      o.Rule,
			"rule_text": c.RuleText[o.Rule],
			"construct": o.Construct,
			"detail":    o.Detail,
			"rerun":     checkerCmd,
		}, "", "  ")
		os.WriteFile(rp, b, 0o644)
		fmt.Printf("UNDECIDED property=%s rule=%s construct=%q %s\n", c.Prop, o.Rule, o.Construct, o.Detail)
		fmt.Printf("VIOLATION property=%s replay=%s\n", c.Prop, rp)
	}

	// evidence
	var samples []interface{}
	perRule := map[string]map[string]int{}
	distinct := map[string]bool{}
	for _, o := range c.Obs {
		if perRule[o.Rule] == nil {
			perRule[o.Rule] = map[string]int{}
		}
		perRule[o.Rule][o.Status]++
		distinct[o.Rule+"|"+o.Construct] = true
		samples = append(samples, o)
	}
	var fns []string
	for f := range c.Analysed {
		fns = append(fns, f)
	}
	sort.Strings(fns)
	cov := map[string]interface{}{
		"explanation":         explanation,
		"obligations":         len(c.Obs),
		"discharged":          v.Discharged,
		"violated_new":        len(v.Violations),
		"violated_known":      len(v.Known),
		"undecided":           len(v.Undecided),
		"evaluations":         len(c.Obs),
		"distinct_nontrivial": len(distinct),
		"rule":                "one obligation per (rule, construct) instance found in the current source; distinct = distinct (rule, construct) pairs; every instance is non-trivial in that it is a concrete site/function/edge the rule was evaluated on",
		"rules":               c.RuleText,
		"per_rule":            perRule,
		"samples":             samples,
		"functions_analysed":  fns,
		"module_functions":    len(c.P.Funcs),
		"program_functions":   c.P.NumAllFuncs(),
		"checker_cmd":         checkerCmd,
		"trusted_base":        []string{"go/types", "golang.org/x/tools v0.29.0 go/packages, go/ssa, callgraph/cha, callgraph/vta", "Go reflect semantics as documented"},
		"exhaustive":          true,
		"notes":               c.Notes,
	}
	for k, x := range extra {
		cov[k] = x
	}
	ev := Evidence{
		PropertyID:  c.Prop,
		Tier:        c.Tier,
		Seed:        seed,
		Level:       "other",
		Coverage:    cov,
		Assumptions: assumptions,
		WallS:       wall,
		Violations:  len(v.Violations) + len(v.Undecided),
	}
	b, _ := json.MarshalIndent(ev, "", " ")
	os.MkdirAll(evDir, 0o755)
	if err := os.WriteFile(evidencePath, b, 0o644); err != nil {
		fmt.Printf("UNDECIDED property=%s cannot write evidence: %v\n", c.Prop, err)
		return 2
	}
	rules := make([]string, 0, len(perRule))
	for r := range perRule {
		rules = append(rules, r)
	}
	sort.Strings(rules)
	fmt.Printf("%s [%s]: %d obligations over %d rules (%s): %d discharged, %d known finding(s), %d new violation(s), %d undecided; %.1fs\n",
		c.Prop, c.Tier, len(c.Obs), len(rules), strings.Join(rules, ","), v.Discharged, len(v.Known), len(v.Violations), len(v.Undecided), wall)
	if len(v.Violations) > 0 || len(v.Undecided) > 0 {
		return 1
	}
	return 0
}
