// Copyright 2023 The Go Authors. All rights reserved.
// Use of this source code is governed by a BSD-style
// license that can be found in the LICENSE file.

package versions

import (
	"go/ast"
	"go/types"
)

// FileVersion returns a file's Go version.
// The reported version is an unknown Future version if a
// version cannot be determined.
func FileVersion(info *types.Info, file *ast.File) string {
	// In tools built with Go >= 1.22, the Go version of a file
	// follow a cascades of sources:
	// 1) types.Info.FileVersion, which follows the cascade:
	//   1.a) file version (ast.File.GoVersion),
	//   1.b) the package version (types.Config.GoVersion), or
	// 2) is some unknown Future version.
	//
	// File versions require a valid package version to be provided to types
	// in Config.GoVersion. Config.GoVersion is either from the package's module
	// or the toolchain (go run). This value should be provided by go/packages
	// or unitchecker.Config.GoVersion.
	if v := info.FileVersions[file]; IsValid(v) {
		return v
	}
	// Note: we could instead return runtime.Version() [if valid].
	// This would act as a max version on what a tool can support.
	return Future
}
