// Copyright 2023 The Go Authors. All rights reserved.
// Use of this source code is governed by a BSD-style
// license that can be found in the LICENSE file.

package versions

// This file contains predicates for working with file versions to
// decide when a tool should consider a language feature enabled.

// GoVersions that features in x/tools can be gated to.
const (
	Go1_18 = "go1.18"
	Go1_19 = "go1.19"
	Go1_20 = "go1.20"
	Go1_21 = "go1.21"
	Go1_22 = "go1.22"
)

// Future is an invalid unknown Go version sometime in the future.
// Do not use directly with Compare.
const Future = ""

// AtLeast reports whether the file version v comes after a Go release.
//
// Use this predicate to enable a behavior once a certain Go release
// has happened (and stays enabled in the future).
func AtLeast(v, release string) bool {
	if v == Future {
		return true // an unknown future version is always after y.
	}
	return Compare(Lang(v), Lang(release)) >= 0
}

// Before reports whether the file version v is strictly before a Go release.
//
// Use this predicate to disable a behavior once a certain Go release
// has happened (and stays enabled in the future).
func Before(v, release string) bool {
	if v == Future {
		return false // an unknown future version happens after y.
	}
	return Compare(Lang(v), Lang(release)) < 0
}
