// Copyright 2023 The Go Authors. All rights reserved.
// Use of this source code is governed by a BSD-style
// license that can be found in the LICENSE file.

// This is a fork of internal/gover for use by x/tools until
// go1.21 and earlier are no longer supported by x/tools.

package versions

import "strings"

// A gover is a parsed Go gover: major[.Minor[.Patch]][kind[pre]]
// The numbers are the original decimal strings to avoid integer overflows
// and since there is very little actual math. (Probably overflow doesn't matter in practice,
// but at the time this code was written, there was an existing test that used
// go1.99999999999, which does not fit in an int on 32-bit platforms.
// The "big decimal" representation avoids the problem entirely.)
type gover struct {
	major string // decimal
	minor string // decimal or ""
	patch string // decimal or ""
	kind  string // "", "alpha", "beta", "rc"
	pre   string // decimal or ""
}

// compare returns -1, 0, or +1 depending on whether
// x < y, x == y, or x > y, interpreted as toolchain versions.
// The versions x and y must not begin with a "go" prefix: just "1.21" not "go1.21".
// Malformed versions compare less than well-formed versions and equal to each other.
// The language version "1.21" compares less than the release candidate and eventual releases "1.21rc1" and "1.21.0".
func compare(x, y string) int {
	vx := parse(x)
	vy := parse(y)

	if c := cmpInt(vx.major, vy.major); c != 0 {
		return c
	}
	if c := cmpInt(vx.minor, vy.minor); c != 0 {
		return c
	}
	if c := cmpInt(vx.patch, vy.patch); c != 0 {
		return c
	}
	if c := strings.Compare(vx.kind, vy.kind); c != 0 { // "" < alpha < beta < rc
		return c
	}
	if c := cmpInt(vx.pre, vy.pre); c != 0 {
		return c
	}
	return 0
}

// lang returns the Go language version. For example, lang("1.2.3") == "1.2".
func lang(x string) string {
	v := parse(x)
	if v.minor == "" || v.major == "1" && v.minor == "0" {
		return v.major
	}
	return v.major + "." + v.minor
}

// isValid reports whether the version x is valid.
func isValid(x string) bool {
	return parse(x) != gover{}
}

// parse parses the Go version string x into a version.
// It returns the zero version if x is malformed.
func parse(x string) gover {
	var v gover

	// Parse major version.
	var ok bool
	v.major, x, ok = cutInt(x)
	if !ok {
		return gover{}
	}
	if x == "" {
		// Interpret "1" as "1.0.0".
		v.minor = "0"
		v.patch = "0"
		return v
	}

	// Parse . before minor version.
	if x[0] != '.' {
		return gover{}
	}

	// Parse minor version.
	v.minor, x, ok = cutInt(x[1:])
	if !ok {
		return gover{}
	}
	if x == "" {
		// Patch missing is same as "0" for older versions.
		// Starting in Go 1.21, patch missing is different from explicit .0.
		if cmpInt(v.minor, "21") < 0 {
			v.patch = "0"
		}
		return v
	}

	// Parse patch if present.
	if x[0] == '.' {
		v.patch, x, ok = cutInt(x[1:])
		if !ok || x != "" {
			// Note that we are disallowing prereleases (alpha, beta, rc) for patch releases here (x != "").
			// Allowing them would be a bit confusing because we already have:
			//	1.21 < 1.21rc1
			// But a prerelease of a patch would have the opposite effect:
			//	1.21.3rc1 < 1.21.3
			// We've never needed them before, so let's not start now.
			return gover{}
		}
		return v
	}

	// Parse prerelease.
	i := 0
	for i < len(x) && (x[i] < '0' || '9' < x[i]) {
		if x[i] < 'a' || 'z' < x[i] {
			return gover{}
		}
		i++
	}
	if i == 0 {
		return gover{}
	}
	v.kind, x = x[:i], x[i:]
	if x == "" {
		return v
	}
	v.pre, x, ok = cutInt(x)
	if !ok || x != "" {
		return gover{}
	}

	return v
}

// cutInt scans the leading decimal number at the start of x to an integer
// and returns that value and the rest of the string.
func cutInt(x string) (n, rest string, ok bool) {
	i := 0
	for i < len(x) && '0' <= x[i] && x[i] <= '9' {
		i++
	}
	if i == 0 || x[0] == '0' && i != 1 { // no digits or unnecessary leading zero
		return "", "", false
	}
	return x[:i], x[i:], true
}

// cmpInt returns cmp.Compare(x, y) interpreting x and y as decimal numbers.
// (Copied from golang.org/x/mod/semver's compareInt.)
func cmpInt(x, y string) int {
	if x == y {
		return 0
	}
	if len(x) < len(y) {
		return -1
	}
	if len(x) > len(y) {
		return +1
	}
	if x < y {
		return -1
	} else {
		return +1
	}
}
