// Copyright 2023 The Go Authors. All rights reserved.
// Use of this source code is governed by a BSD-style
// license that can be found in the LICENSE file.

package versions

import (
	"strings"
)

// Note: If we use build tags to use go/versions when go >=1.22,
// we run into go.dev/issue/53737. Under some operations users would see an
// import of "go/versions" even if they would not compile the file.
// For example, during `go get -u ./...` (go.dev/issue/64490) we do not try to include
// For this reason, this library just a clone of go/versions for the moment.

// Lang returns the Go language version for version x.
// If x is not a valid version, Lang returns the empty string.
// For example:
//
//	Lang("go1.21rc2") = "go1.21"
//	Lang("go1.21.2") = "go1.21"
//	Lang("go1.21") = "go1.21"
//	Lang("go1") = "go1"
//	Lang("bad") = ""
//	Lang("1.21") = ""
func Lang(x string) string {
	v := lang(stripGo(x))
	if v == "" {
		return ""
	}
	return x[:2+len(v)] // "go"+v without allocation
}

// Compare returns -1, 0, or +1 depending on whether
// x < y, x == y, or x > y, interpreted as Go versions.
// The versions x and y must begin with a "go" prefix: "go1.21" not "1.21".
// Invalid versions, including the empty string, compare less than
// valid versions and equal to each other.
// The language version "go1.21" compares less than the
// release candidate and eventual releases "go1.21rc1" and "go1.21.0".
// Custom toolchain suffixes are ignored during comparison:
// "go1.21.0" and "go1.21.0-bigcorp" are equal.
func Compare(x, y string) int { return compare(stripGo(x), stripGo(y)) }

// IsValid reports whether the version x is valid.
func IsValid(x string) bool { return isValid(stripGo(x)) }

// stripGo converts from a "go1.21" version to a "1.21" version.
// If v does not start with "go", stripGo returns the empty string (a known invalid version).
func stripGo(v string) string {
	v, _, _ = strings.Cut(v, "-") // strip -bigcorp suffix.
	if len(v) < 2 || v[:2] != "go" {
		return ""
	}
	return v[2:]
}
