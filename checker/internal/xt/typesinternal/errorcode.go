// Copyright 2020 The Go Authors. All rights reserved.
// Use of this source code is governed by a BSD-style
// license that can be found in the LICENSE file.

package typesinternal

//go:generate stringer -type=ErrorCode

type ErrorCode int

// This file defines the error codes that can be produced during type-checking.
// Collectively, these codes provide an identifier that may be used to
// implement special handling for certain types of errors.
//
// Error codes should be fine-grained enough that the exact nature of the error
// can be easily determined, but coarse enough that they are not an
// implementation detail of the type checking algorithm. As a rule-of-thumb,
// errors should be considered equivalent if there is a theoretical refactoring
// of the type checker in which they are emitted in exactly one place. For
// example, the type checker emits different error messages for "too many
// arguments" and "too few arguments", but one can imagine an alternative type
// checker where this check instead just emits a single "wrong number of
// arguments", so these errors should have the same code.
//
// Error code names should be as brief as possible while retaining accuracy and
// distinctiveness. In most cases names should start with an adjective
// describing the nature of the error (e.g. "invalid", "unused", "misplaced"),
// and end with a noun identifying the relevant language object. For example,
// "DuplicateDecl" or "InvalidSliceExpr". For brevity, naming follows the
// convention that "bad" implies a problem with syntax, and "invalid" implies a
// problem with types.

const (
	// InvalidSyntaxTree occurs if an invalid syntax tree is provided
	// to the type checker. It should never happen.
	InvalidSyntaxTree ErrorCode = -1
)

const (
	_ ErrorCode = iota

	// Test is reserved for errors that only apply while in self-test mode.
	Test

	/* package names */

	// BlankPkgName occurs when a package name is the blank identifier "_".
	//
	// Per the spec:
	//  "The PackageName must not be the blank identifier."
	BlankPkgName

	// MismatchedPkgName occurs when a file's package name doesn't match the
	// package name already established by other files.
	MismatchedPkgName

	// InvalidPkgUse occurs when a package identifier is used outside of a
	// selector expression.
	//
	// Example:
	//  import "fmt"
	//
	//  var _ = fmt
	InvalidPkgUse

	/* imports */

	// BadImportPath occurs when an import path is not valid.
	BadImportPath

	// BrokenImport occurs when importing a package fails.
	//
	// Example:
	//  import "amissingpackage"
	BrokenImport

	// ImportCRenamed occurs when the special import "C" is renamed. "C" is a
	// pseudo-package, and must not be renamed.
	//
	// Example:
	//  import _ "C"
	ImportCRenamed

	// UnusedImport occurs when an import is unused.
	//
	// Example:
	//  import "fmt"
	//
	//  func main() {}
	UnusedImport

	/* initialization */

	// InvalidInitCycle occurs when an invalid cycle is detected within the
	// initialization graph.
	//
	// Example:
	//  var x int = f()
	//
	//  func f() int { return x }
	InvalidInitCycle

	/* decls */

	// DuplicateDecl occurs when an identifier is declared multiple times.
	//
	// Example:
	//  var x = 1
	//  var x = 2
	DuplicateDecl

	// InvalidDeclCycle occurs when a declaration cycle is not valid.
	//
	// Example:
	//  import "unsafe"
	//
	//  type T struct {
	//  	a [n]int
	//  }
	//
	//  var n = unsafe.Sizeof(T{})
	InvalidDeclCycle

	// InvalidTypeCycle occurs when a cycle in type definitions results in a
	// type that is not well-defined.
	//
	// Example:
	//  import "unsafe"
	//
	//  type T [unsafe.Sizeof(T{})]int
	InvalidTypeCycle

	/* decls > const */

	// InvalidConstInit occurs when a const declaration has a non-constant
	// initializer.
	//
	// Example:
	//  var x int
	//  const _ = x
	InvalidConstInit

	// InvalidConstVal occurs when a const value cannot be converted to its
	// target type.
	//
	// TODO(findleyr): this error code and example are not very clear. Consider
	// removing it.
	//
	// Example:
	//  const _ = 1 << "hello"
	InvalidConstVal

	// InvalidConstType occurs when the underlying type in a const declaration
	// is not a valid constant type.
	//
	// Example:
	//  const c *int = 4
	InvalidConstType

	/* decls > var (+ other variable assignment codes) */

	// UntypedNilUse occurs when the predeclared (untyped) value nil is used to
	// initialize a variable declared without an explicit type.
	//
	// Example:
	//  var x = nil
	UntypedNilUse

	// WrongAssignCount occurs when the number of values on the right-hand side
	// of an assignment or initialization expression does not match the number
	// of variables on the left-hand side.
	//
	// Example:
	//  var x = 1, 2
	WrongAssignCount

	// UnassignableOperand occurs when the left-hand side of an assignment is
	// not assignable.
	//
	// Example:
	//  func f() {
	//  	const c = 1
	//  	c = 2
	//  }
	UnassignableOperand

	// NoNewVar occurs when a short variable declaration (':=') does not declare
	// new variables.
	//
	// Example:
	//  func f() {
	//  	x := 1
	//  	x := 2
	//  }
	NoNewVar

	// MultiValAssignOp occurs when an assignment operation (+=, *=, etc) does
	// not have single-valued left-hand or right-hand side.
	//
	// Per the spec:
	//  "In assignment operations, both the left- and right-hand expression lists
	//  must contain exactly one single-valued expression"
	//
	// Example:
	//  func f() int {
	//  	x, y := 1, 2
	//  	x, y += 1
	//  	return x + y
	//  }
	MultiValAssignOp

	// InvalidIfaceAssign occurs when a value of type T is used as an
	// interface, but T does not implement a method of the expected interface.
	//
	// Example:
	//  type I interface {
	//  	f()
	//  }
	//
	//  type T int
	//
	//  var x I = T(1)
	InvalidIfaceAssign

	// InvalidChanAssign occurs when a chan assignment is invalid.
	//
	// Per the spec, a value x is assignable to a channel type T if:
	//  "x is a bidirectional channel value, T is a channel type, x's type V and
	//  T have identical element types, and at least one of V or T is not a
	//  defined type."
	//
	// Example:
	//  type T1 chan int
	//  type T2 chan int
	//
	//  var x T1
	//  // Invalid assignment because both types are named
	//  var _ T2 = x
	InvalidChanAssign

	// IncompatibleAssign occurs when the type of the right-hand side expression
	// in an assignment cannot be assigned to the type of the variable being
	// assigned.
	//
	// Example:
	//  var x []int
	//  var _ int = x
	IncompatibleAssign

	// UnaddressableFieldAssign occurs when trying to assign to a struct field
	// in a map value.
	//
	// Example:
	//  func f() {
	//  	m := make(map[string]struct{i int})
	//  	m["foo"].i = 42
	//  }
	UnaddressableFieldAssign

	/* decls > type (+ other type expression codes) */

	// NotAType occurs when the identifier used as the underlying type in a type
	// declaration or the right-hand side of a type alias does not denote a type.
	//
	// Example:
	//  var S = 2
	//
	//  type T S
	NotAType

	// InvalidArrayLen occurs when an array length is not a constant value.
	//
	// Example:
	//  var n = 3
	//  var _ = [n]int{}
	InvalidArrayLen

	// BlankIfaceMethod occurs when a method name is '_'.
	//
	// Per the spec:
	//  "The name of each explicitly specified method must be unique and not
	//  blank."
	//
	// Example:
	//  type T interface {
	//  	_(int)
	//  }
	BlankIfaceMethod

	// IncomparableMapKey occurs when a map key type does not support the == and
	// != operators.
	//
	// Per the spec:
	//  "The comparison operators == and != must be fully defined for operands of
	//  the key type; thus the key type must not be a function, map, or slice."
	//
	// Example:
	//  var x map[T]int
	//
	//  type T []int
	IncomparableMapKey

	// InvalidIfaceEmbed occurs when a non-interface type is embedded in an
	// interface.
	//
	// Example:
	//  type T struct {}
	//
	//  func (T) m()
	//
	//  type I interface {
	//  	T
	//  }
	InvalidIfaceEmbed

	// InvalidPtrEmbed occurs when an embedded field is of the pointer form *T,
	// and T itself is itself a pointer, an unsafe.Pointer, or an interface.
	//
	// Per the spec:
	//  "An embedded field must be specified as a type name T or as a pointer to
	//  a non-interface type name *T, and T itself may not be a pointer type."
	//
	// Example:
	//  type T *int
	//
	//  type S struct {
	//  	*T
	//  }
	InvalidPtrEmbed

	/* decls > func and method */

	// BadRecv occurs when a method declaration does not have exactly one
	// receiver parameter.
	//
	// Example:
	//  func () _() {}
	BadRecv

	// InvalidRecv occurs when a receiver type expression is not of the form T
	// or *T, or T is a pointer type.
	//
	// Example:
	//  type T struct {}
	//
	//  func (**T) m() {}
	InvalidRecv

	// DuplicateFieldAndMethod occurs when an identifier appears as both a field
	// and method name.
	//
	// Example:
	//  type T struct {
	//  	m int
	//  }
	//
	//  func (T) m() {}
	DuplicateFieldAndMethod

	// DuplicateMethod occurs when two methods on the same receiver type have
	// the same name.
	//
	// Example:
	//  type T struct {}
	//  func (T) m() {}
	//  func (T) m(i int) int { return i }
	DuplicateMethod

	/* decls > special */

	// InvalidBlank occurs when a blank identifier is used as a value or type.
	//
	// Per the spec:
	//  "The blank identifier may appear as an operand only on the left-hand side
	//  of an assignment."
	//
	// Example:
	//  var x = _
	InvalidBlank

	// InvalidIota occurs when the predeclared identifier iota is used outside
	// of a constant declaration.
	//
	// Example:
	//  var x = iota
	InvalidIota

	// MissingInitBody occurs when an init function is missing its body.
	//
	// Example:
	//  func init()
	MissingInitBody

	// InvalidInitSig occurs when an init function declares parameters or
	// results.
	//
	// Example:
	//  func init() int { return 1 }
	InvalidInitSig

	// InvalidInitDecl occurs when init is declared as anything other than a
	// function.
	//
	// Example:
	//  var init = 1
	InvalidInitDecl

	// InvalidMainDecl occurs when main is declared as anything other than a
	// function, in a main package.
	InvalidMainDecl

	/* exprs */

	// TooManyValues occurs when a function returns too many values for the
	// expression context in which it is used.
	//
	// Example:
	//  func ReturnTwo() (int, int) {
	//  	return 1, 2
	//  }
	//
	//  var x = ReturnTwo()
	TooManyValues

	// NotAnExpr occurs when a type expression is used where a value expression
	// is expected.
	//
	// Example:
	//  type T struct {}
	//
	//  func f() {
	//  	T
	//  }
	NotAnExpr

	/* exprs > const */

	// TruncatedFloat occurs when a float constant is truncated to an integer
	// value.
	//
	// Example:
	//  var _ int = 98.6
	TruncatedFloat

	// NumericOverflow occurs when a numeric constant overflows its target type.
	//
	// Example:
	//  var x int8 = 1000
	NumericOverflow

	/* exprs > operation */

	// UndefinedOp occurs when an operator is not defined for the type(s) used
	// in an operation.
	//
	// Example:
	//  var c = "a" - "b"
	UndefinedOp

	// MismatchedTypes occurs when operand types are incompatible in a binary
	// operation.
	//
	// Example:
	//  var a = "hello"
	//  var b = 1
	//  var c = a - b
	MismatchedTypes

	// DivByZero occurs when a division operation is provable at compile
	// time to be a division by zero.
	//
	// Example:
	//  const divisor = 0
	//  var x int = 1/divisor
	DivByZero

	// NonNumericIncDec occurs when an increment or decrement operator is
	// applied to a non-numeric value.
	//
	// Example:
	//  func f() {
	//  	var c = "c"
	//  	c++
	//  }
	NonNumericIncDec

	/* exprs > ptr */

	// UnaddressableOperand occurs when the & operator is applied to an
	// unaddressable expression.
	//
	// Example:
	//  var x = &1
	UnaddressableOperand

	// InvalidIndirection occurs when a non-pointer value is indirected via the
	// '*' operator.
	//
	// Example:
	//  var x int
	//  var y = *x
	InvalidIndirection

	/* exprs > [] */

	// NonIndexableOperand occurs when an index operation is applied to a value
	// that cannot be indexed.
	//
	// Example:
	//  var x = 1
	//  var y = x[1]
	NonIndexableOperand

	// InvalidIndex occurs when an index argument is not of integer type,
	// negative, or out-of-bounds.
	//
	// Example:
	//  var s = [...]int{1,2,3}
	//  var x = s[5]
	//
	// Example:
	//  var s = []int{1,2,3}
	//  var _ = s[-1]
	//
	// Example:
	//  var s = []int{1,2,3}
	//  var i string
	//  var _ = s[i]
	InvalidIndex

	// SwappedSliceIndices occurs when constant indices in a slice expression
	// are decreasing in value.
	//
	// Example:
	//  var _ = []int{1,2,3}[2:1]
	SwappedSliceIndices

	/* operators > slice */

	// NonSliceableOperand occurs when a slice operation is applied to a value
	// whose type is not sliceable, or is unaddressable.
	//
	// Example:
	//  var x = [...]int{1, 2, 3}[:1]
	//
	// Example:
	//  var x = 1
	//  var y = 1[:1]
	NonSliceableOperand

	// InvalidSliceExpr occurs when a three-index slice expression (a[x:y:z]) is
	// applied to a string.
	//
	// Example:
	//  var s = "hello"
	//  var x = s[1:2:3]
	InvalidSliceExpr

	/* exprs > shift */

	// InvalidShiftCount occurs when the right-hand side of a shift operation is
	// either non-integer, negative, or too large.
	//
	// Example:
	//  var (
	//  	x string
	//  	y int = 1 << x
	//  )
	InvalidShiftCount

	// InvalidShiftOperand occurs when the shifted operand is not an integer.
	//
	// Example:
	//  var s = "hello"
	//  var x = s << 2
	InvalidShiftOperand

	/* exprs > chan */

	// InvalidReceive occurs when there is a channel receive from a value that
	// is either not a channel, or is a send-only channel.
	//
	// Example:
	//  func f() {
	//  	var x = 1
	//  	<-x
	//  }
	InvalidReceive

	// InvalidSend occurs when there is a channel send to a value that is not a
	// channel, or is a receive-only channel.
	//
	// Example:
	//  func f() {
	//  	var x = 1
	//  	x <- "hello!"
	//  }
	InvalidSend

	/* exprs > literal */

	// DuplicateLitKey occurs when an index is duplicated in a slice, array, or
	// map literal.
	//
	// Example:
	//  var _ = []int{0:1, 0:2}
	//
	// Example:
	//  var _ = map[string]int{"a": 1, "a": 2}
	DuplicateLitKey

	// MissingLitKey occurs when a map literal is missing a key expression.
	//
	// Example:
	//  var _ = map[string]int{1}
	MissingLitKey

	// InvalidLitIndex occurs when the key in a key-value element of a slice or
	// array literal is not an integer constant.
	//
	// Example:
	//  var i = 0
	//  var x = []string{i: "world"}
	InvalidLitIndex

	// OversizeArrayLit occurs when an array literal exceeds its length.
	//
	// Example:
	//  var _ = [2]int{1,2,3}
	OversizeArrayLit

	// MixedStructLit occurs when a struct literal contains a mix of positional
	// and named elements.
	//
	// Example:
	//  var _ = struct{i, j int}{i: 1, 2}
	MixedStructLit

	// InvalidStructLit occurs when a positional struct literal has an incorrect
	// number of values.
	//
	// Example:
	//  var _ = struct{i, j int}{1,2,3}
	InvalidStructLit

	// MissingLitField occurs when a struct literal refers to a field that does
	// not exist on the struct type.
	//
	// Example:
	//  var _ = struct{i int}{j: 2}
	MissingLitField

	// DuplicateLitField occurs when a struct literal contains duplicated
	// fields.
	//
	// Example:
	//  var _ = struct{i int}{i: 1, i: 2}
	DuplicateLitField

	// UnexportedLitField occurs when a positional struct literal implicitly
	// assigns an unexported field of an imported type.
	UnexportedLitField

	// InvalidLitField occurs when a field name is not a valid identifier.
	//
	// Example:
	//  var _ = struct{i int}{1: 1}
	InvalidLitField

	// UntypedLit occurs when a composite literal omits a required type
	// identifier.
	//
	// Example:
	//  type outer struct{
	//  	inner struct { i int }
	//  }
	//
	//  var _ = outer{inner: {1}}
	UntypedLit

	// InvalidLit occurs when a composite literal expression does not match its
	// type.
	//
	// Example:
	//  type P *struct{
	//  	x int
	//  }
	//  var _ = P {}
	InvalidLit

	/* exprs > selector */

	// AmbiguousSelector occurs when a selector is ambiguous.
	//
	// Example:
	//  type E1 struct { i int }
	//  type E2 struct { i int }
	//  type T struct { E1; E2 }
	//
	//  var x T
	//  var _ = x.i
	AmbiguousSelector

	// UndeclaredImportedName occurs when a package-qualified identifier is
	// undeclared by the imported package.
	//
	// Example:
	//  import "go/types"
	//
	//  var _ = types.NotAnActualIdentifier
	UndeclaredImportedName

	// UnexportedName occurs when a selector refers to an unexported identifier
	// of an imported package.
	//
	// Example:
	//  import "reflect"
	//
	//  type _ reflect.flag
	UnexportedName

	// UndeclaredName occurs when an identifier is not declared in the current
	// scope.
	//
	// Example:
	//  var x T
	UndeclaredName

	// MissingFieldOrMethod occurs when a selector references a field or method
	// that does not exist.
	//
	// Example:
	//  type T struct {}
	//
	//  var x = T{}.f
	MissingFieldOrMethod

	/* exprs > ... */

	// BadDotDotDotSyntax occurs when a "..." occurs in a context where it is
	// not valid.
	//
	// Example:
	//  var _ = map[int][...]int{0: {}}
	BadDotDotDotSyntax

	// NonVariadicDotDotDot occurs when a "..." is used on the final argument to
	// a non-variadic function.
	//
	// Example:
	//  func printArgs(s []string) {
	//  	for _, a := range s {
	//  		println(a)
	//  	}
	//  }
	//
	//  func f() {
	//  	s := []string{"a", "b", "c"}
	//  	printArgs(s...)
	//  }
	NonVariadicDotDotDot

	// MisplacedDotDotDot occurs when a "..." is used somewhere other than the
	// final argument to a function call.
	//
	// Example:
	//  func printArgs(args ...int) {
	//  	for _, a := range args {
	//  		println(a)
	//  	}
	//  }
	//
	//  func f() {
	//  	a := []int{1,2,3}
	//  	printArgs(0, a...)
	//  }
	MisplacedDotDotDot

	// InvalidDotDotDotOperand occurs when a "..." operator is applied to a
	// single-valued operand.
	//
	// Example:
	//  func printArgs(args ...int) {
	//  	for _, a := range args {
	//  		println(a)
	//  	}
	//  }
	//
	//  func f() {
	//  	a := 1
	//  	printArgs(a...)
	//  }
	//
	// Example:
	//  func args() (int, int) {
	//  	return 1, 2
	//  }
	//
	//  func printArgs(args ...int) {
	//  	for _, a := range args {
	//  		println(a)
	//  	}
	//  }
	//
	//  func g() {
	//  	printArgs(args()...)
	//  }
	InvalidDotDotDotOperand

	// InvalidDotDotDot occurs when a "..." is used in a non-variadic built-in
	// function.
	//
	// Example:
	//  var s = []int{1, 2, 3}
	//  var l = len(s...)
	InvalidDotDotDot

	/* exprs > built-in */

	// UncalledBuiltin occurs when a built-in function is used as a
	// function-valued expression, instead of being called.
	//
	// Per the spec:
	//  "The built-in functions do not have standard Go types, so they can only
	//  appear in call expressions; they cannot be used as function values."
	//
	// Example:
	//  var _ = copy
	UncalledBuiltin

	// InvalidAppend occurs when append is called with a first argument that is
	// not a slice.
	//
	// Example:
	//  var _ = append(1, 2)
	InvalidAppend

	// InvalidCap occurs when an argument to the cap built-in function is not of
	// supported type.
	//
	// See https://golang.org/ref/spec#Length_and_capacity for information on
	// which underlying types are supported as arguments to cap and len.
	//
	// Example:
	//  var s = 2
	//  var x = cap(s)
	InvalidCap

	// InvalidClose occurs when close(...) is called with an argument that is
	// not of channel type, or that is a receive-only channel.
	//
	// Example:
	//  func f() {
	//  	var x int
	//  	close(x)
	//  }
	InvalidClose

	// InvalidCopy occurs when the arguments are not of slice type or do not
	// have compatible type.
	//
	// See https://golang.org/ref/spec#Appending_and_copying_slices for more
	// information on the type requirements for the copy built-in.
	//
	// Example:
	//  func f() {
	//  	var x []int
	//  	y := []int64{1,2,3}
	//  	copy(x, y)
	//  }
	InvalidCopy

	// InvalidComplex occurs when the complex built-in function is called with
	// arguments with incompatible types.
	//
	// Example:
	//  var _ = complex(float32(1), float64(2))
	InvalidComplex

	// InvalidDelete occurs when the delete built-in function is called with a
	// first argument that is not a map.
	//
	// Example:
	//  func f() {
	//  	m := "hello"
	//  	delete(m, "e")
	//  }
	InvalidDelete

	// InvalidImag occurs when the imag built-in function is called with an
	// argument that does not have complex type.
	//
	// Example:
	//  var _ = imag(int(1))
	InvalidImag

	// InvalidLen occurs when an argument to the len built-in function is not of
	// supported type.
	//
	// See https://golang.org/ref/spec#Length_and_capacity for information on
	// which underlying types are supported as arguments to cap and len.
	//
	// Example:
	//  var s = 2
	//  var x = len(s)
	InvalidLen

	// SwappedMakeArgs occurs when make is called with three arguments, and its
	// length argument is larger than its capacity argument.
	//
	// Example:
	//  var x = make([]int, 3, 2)
	SwappedMakeArgs

	// InvalidMake occurs when make is called with an unsupported type argument.
	//
	// See https://golang.org/ref/spec#Making_slices_maps_and_channels for
	// information on the types that may be created using make.
	//
	// Example:
	//  var x = make(int)
	InvalidMake

	// InvalidReal occurs when the real built-in function is called with an
	// argument that does not have complex type.
	//
	// Example:
	//  var _ = real(int(1))
	InvalidReal

	/* exprs > assertion */

	// InvalidAssert occurs when a type assertion is applied to a
	// value that is not of interface type.
	//
	// Example:
	//  var x = 1
	//  var _ = x.(float64)
	InvalidAssert

	// ImpossibleAssert occurs for a type assertion x.(T) when the value x of
	// interface cannot have dynamic type T, due to a missing or mismatching
	// method on T.
	//
	// Example:
	//  type T int
	//
	//  func (t *T) m() int { return int(*t) }
	//
	//  type I interface { m() int }
	//
	//  var x I
	//  var _ = x.(T)
	ImpossibleAssert

	/* exprs > conversion */

	// InvalidConversion occurs when the argument type cannot be converted to the
	// target.
	//
	// See https://golang.org/ref/spec#Conversions for the rules of
	// convertibility.
	//
	// Example:
	//  var x float64
	//  var _ = string(x)
	InvalidConversion

	// InvalidUntypedConversion occurs when an there is no valid implicit
	// conversion from an untyped value satisfying the type constraints of the
	// context in which it is used.
	//
	// Example:
	//  var _ = 1 + ""
	InvalidUntypedConversion

	/* offsetof */

	// BadOffsetofSyntax occurs when unsafe.Offsetof is called with an argument
	// that is not a selector expression.
	//
	// Example:
	//  import "unsafe"
	//
	//  var x int
	//  var _ = unsafe.Offsetof(x)
	BadOffsetofSyntax

	// InvalidOffsetof occurs when unsafe.Offsetof is called with a method
	// selector, rather than a field selector, or when the field is embedded via
	// a pointer.
	//
	// Per the spec:
	//
	//  "If f is an embedded field, it must be reachable without pointer
	//  indirections through fields of the struct. "
	//
	// Example:
	//  import "unsafe"
	//
	//  type T struct { f int }
	//  type S struct { *T }
	//  var s S
	//  var _ = unsafe.Offsetof(s.f)
	//
	// Example:
	//  import "unsafe"
	//
	//  type S struct{}
	//
	//  func (S) m() {}
	//
	//  var s S
	//  var _ = unsafe.Offsetof(s.m)
	InvalidOffsetof

	/* control flow > scope */

	// UnusedExpr occurs when a side-effect free expression is used as a
	// statement. Such a statement has no effect.
	//
	// Example:
	//  func f(i int) {
	//  	i*i
	//  }
	UnusedExpr

	// UnusedVar occurs when a variable is declared but unused.
	//
	// Example:
	//  func f() {
	//  	x := 1
	//  }
	UnusedVar

	// MissingReturn occurs when a function with results is missing a return
	// statement.
	//
	// Example:
	//  func f() int {}
	MissingReturn

	// WrongResultCount occurs when a return statement returns an incorrect
	// number of values.
	//
	// Example:
	//  func ReturnOne() int {
	//  	return 1, 2
	//  }
	WrongResultCount

	// OutOfScopeResult occurs when the name of a value implicitly returned by
	// an empty return statement is shadowed in a nested scope.
	//
	// Example:
	//  func factor(n int) (i int) {
	//  	for i := 2; i < n; i++ {
	//  		if n%i == 0 {
	//  			return
	//  		}
	//  	}
	//  	return 0
	//  }
	OutOfScopeResult

	/* control flow > if */

	// InvalidCond occurs when an if condition is not a boolean expression.
	//
	// Example:
	//  func checkReturn(i int) {
	//  	if i {
	//  		panic("non-zero return")
	//  	}
	//  }
	InvalidCond

	/* control flow > for */

	// InvalidPostDecl occurs when there is a declaration in a for-loop post
	// statement.
	//
	// Example:
	//  func f() {
	//  	for i := 0; i < 10; j := 0 {}
	//  }
	InvalidPostDecl

	// InvalidChanRange occurs when a send-only channel used in a range
	// expression.
	//
	// Example:
	//  func sum(c chan<- int) {
	//  	s := 0
	//  	for i := range c {
	//  		s += i
	//  	}
	//  }
	InvalidChanRange

	// InvalidIterVar occurs when two iteration variables are used while ranging
	// over a channel.
	//
	// Example:
	//  func f(c chan int) {
	//  	for k, v := range c {
	//  		println(k, v)
	//  	}
	//  }
	InvalidIterVar

	// InvalidRangeExpr occurs when the type of a range expression is not array,
	// slice, string, map, or channel.
	//
	// Example:
	//  func f(i int) {
	//  	for j := range i {
	//  		println(j)
	//  	}
	//  }
	InvalidRangeExpr

	/* control flow > switch */

	// MisplacedBreak occurs when a break statement is not within a for, switch,
	// or select statement of the innermost function definition.
	//
	// Example:
	//  func f() {
	//  	break
	//  }
	MisplacedBreak

	// MisplacedContinue occurs when a continue statement is not within a for
	// loop of the innermost function definition.
	//
	// Example:
	//  func sumeven(n int) int {
	//  	proceed := func() {
	//  		continue
	//  	}
	//  	sum := 0
	//  	for i := 1; i <= n; i++ {
	//  		if i % 2 != 0 {
	//  			proceed()
	//  		}
	//  		sum += i
	//  	}
	//  	return sum
	//  }
	MisplacedContinue

	// MisplacedFallthrough occurs when a fallthrough statement is not within an
	// expression switch.
	//
	// Example:
	//  func typename(i interface{}) string {
	//  	switch i.(type) {
	//  	case int64:
	//  		fallthrough
	//  	case int:
	//  		return "int"
	//  	}
	//  	return "unsupported"
	//  }
	MisplacedFallthrough

	// DuplicateCase occurs when a type or expression switch has duplicate
	// cases.
	//
	// Example:
	//  func printInt(i int) {
	//  	switch i {
	//  	case 1:
	//  		println("one")
	//  	case 1:
	//  		println("One")
	//  	}
	//  }
	DuplicateCase

	// DuplicateDefault occurs when a type or expression switch has multiple
	// default clauses.
	//
	// Example:
	//  func printInt(i int) {
	//  	switch i {
	//  	case 1:
	//  		println("one")
	//  	default:
	//  		println("One")
	//  	default:
	//  		println("1")
	//  	}
	//  }
	DuplicateDefault

	// BadTypeKeyword occurs when a .(type) expression is used anywhere other
	// than a type switch.
	//
	// Example:
	//  type I interface {
	//  	m()
	//  }
	//  var t I
	//  var _ = t.(type)
	BadTypeKeyword

	// InvalidTypeSwitch occurs when .(type) is used on an expression that is
	// not of interface type.
	//
	// Example:
	//  func f(i int) {
	//  	switch x := i.(type) {}
	//  }
	InvalidTypeSwitch

	// InvalidExprSwitch occurs when a switch expression is not comparable.
	//
	// Example:
	//  func _() {
	//  	var a struct{ _ func() }
	//  	switch a /* ERROR cannot switch on a */ {
	//  	}
	//  }
	InvalidExprSwitch

	/* control flow > select */

	// InvalidSelectCase occurs when a select case is not a channel send or
	// receive.
	//
	// Example:
	//  func checkChan(c <-chan int) bool {
	//  	select {
	//  	case c:
	//  		return true
	//  	default:
	//  		return false
	//  	}
	//  }
	InvalidSelectCase

	/* control flow > labels and jumps */

	// UndeclaredLabel occurs when an undeclared label is jumped to.
	//
	// Example:
	//  func f() {
	//  	goto L
	//  }
	UndeclaredLabel

	// DuplicateLabel occurs when a label is declared more than once.
	//
	// Example:
	//  func f() int {
	//  L:
	//  L:
	//  	return 1
	//  }
	DuplicateLabel

	// MisplacedLabel occurs when a break or continue label is not on a for,
	// switch, or select statement.
	//
	// Example:
	//  func f() {
	//  L:
	//  	a := []int{1,2,3}
	//  	for _, e := range a {
	//  		if e > 10 {
	//  			break L
	//  		}
	//  		println(a)
	//  	}
	//  }
	MisplacedLabel

	// UnusedLabel occurs when a label is declared but not used.
	//
	// Example:
	//  func f() {
	//  L:
	//  }
	UnusedLabel

	// JumpOverDecl occurs when a label jumps over a variable declaration.
	//
	// Example:
	//  func f() int {
	//  	goto L
	//  	x := 2
	//  L:
	//  	x++
	//  	return x
	//  }
	JumpOverDecl

	// JumpIntoBlock occurs when a forward jump goes to a label inside a nested
	// block.
	//
	// Example:
	//  func f(x int) {
	//  	goto L
	//  	if x > 0 {
	//  	L:
	//  		print("inside block")
	//  	}
	// }
	JumpIntoBlock

	/* control flow > calls */

	// InvalidMethodExpr occurs when a pointer method is called but the argument
	// is not addressable.
	//
	// Example:
	//  type T struct {}
	//
	//  func (*T) m() int { return 1 }
	//
	//  var _ = T.m(T{})
	InvalidMethodExpr

	// WrongArgCount occurs when too few or too many arguments are passed by a
	// function call.
	//
	// Example:
	//  func f(i int) {}
	//  var x = f()
	WrongArgCount

	// InvalidCall occurs when an expression is called that is not of function
	// type.
	//
	// Example:
	//  var x = "x"
	//  var y = x()
	InvalidCall

	/* control flow > suspended */

	// UnusedResults occurs when a restricted expression-only built-in function
	// is suspended via go or defer. Such a suspension discards the results of
	// these side-effect free built-in functions, and therefore is ineffectual.
	//
	// Example:
	//  func f(a []int) int {
	//  	defer len(a)
	//  	return i
	//  }
	UnusedResults

	// InvalidDefer occurs when a deferred expression is not a function call,
	// for example if the expression is a type conversion.
	//
	// Example:
	//  func f(i int) int {
	//  	defer int32(i)
	//  	return i
	//  }
	InvalidDefer

	// InvalidGo occurs when a go expression is not a function call, for example
	// if the expression is a type conversion.
	//
	// Example:
	//  func f(i int) int {
	//  	go int32(i)
	//  	return i
	//  }
	InvalidGo

	// All codes below were added in Go 1.17.

	/* decl */

	// BadDecl occurs when a declaration has invalid syntax.
	BadDecl

	// RepeatedDecl occurs when an identifier occurs more than once on the left
	// hand side of a short variable declaration.
	//
	// Example:
	//  func _() {
	//  	x, y, y := 1, 2, 3
	//  }
	RepeatedDecl

	/* unsafe */

	// InvalidUnsafeAdd occurs when unsafe.Add is called with a
	// length argument that is not of integer type.
	//
	// Example:
	//  import "unsafe"
	//
	//  var p unsafe.Pointer
	//  var _ = unsafe.Add(p, float64(1))
	InvalidUnsafeAdd

	// InvalidUnsafeSlice occurs when unsafe.Slice is called with a
	// pointer argument that is not of pointer type or a length argument
	// that is not of integer type, negative, or out of bounds.
	//
	// Example:
	//  import "unsafe"
	//
	//  var x int
	//  var _ = unsafe.Slice(x, 1)
	//
	// Example:
	//  import "unsafe"
	//
	//  var x int
	//  var _ = unsafe.Slice(&x, float64(1))
	//
	// Example:
	//  import "unsafe"
	//
	//  var x int
	//  var _ = unsafe.Slice(&x, -1)
	//
	// Example:
	//  import "unsafe"
	//
	//  var x int
	//  var _ = unsafe.Slice(&x, uint64(1) << 63)
	InvalidUnsafeSlice

	// All codes below were added in Go 1.18.

	/* features */

	// UnsupportedFeature occurs when a language feature is used that is not
	// supported at this Go version.
	UnsupportedFeature

	/* type params */

	// NotAGenericType occurs when a non-generic type is used where a generic
	// type is expected: in type or function instantiation.
	//
	// Example:
	//  type T int
	//
	//  var _ T[int]
	NotAGenericType

	// WrongTypeArgCount occurs when a type or function is instantiated with an
	// incorrect number of type arguments, including when a generic type or
	// function is used without instantiation.
	//
	// Errors involving failed type inference are assigned other error codes.
	//
	// Example:
	//  type T[p any] int
	//
	//  var _ T[int, string]
	//
	// Example:
	//  func f[T any]() {}
	//
	//  var x = f
	WrongTypeArgCount

	// CannotInferTypeArgs occurs when type or function type argument inference
	// fails to infer all type arguments.
	//
	// Example:
	//  func f[T any]() {}
	//
	//  func _() {
	//  	f()
	//  }
	//
	// Example:
	//   type N[P, Q any] struct{}
	//
	//   var _ N[int]
	CannotInferTypeArgs

	// InvalidTypeArg occurs when a type argument does not satisfy its
	// corresponding type parameter constraints.
	//
	// Example:
	//  type T[P ~int] struct{}
	//
	//  var _ T[string]
	InvalidTypeArg // arguments? InferenceFailed

	// InvalidInstanceCycle occurs when an invalid cycle is detected
	// within the instantiation graph.
	//
	// Example:
	//  func f[T any]() { f[*T]() }
	InvalidInstanceCycle

	// InvalidUnion occurs when an embedded union or approximation element is
	// not valid.
	//
	// Example:
	//  type _ interface {
	//   	~int | interface{ m() }
	//  }
	InvalidUnion

	// MisplacedConstraintIface occurs when a constraint-type interface is used
	// outside of constraint position.
	//
	// Example:
	//   type I interface { ~int }
	//
	//   var _ I
	MisplacedConstraintIface

	// InvalidMethodTypeParams occurs when methods have type parameters.
	//
	// It cannot be encountered with an AST parsed using go/parser.
	InvalidMethodTypeParams

	// MisplacedTypeParam occurs when a type parameter is used in a place where
	// it is not permitted.
	//
	// Example:
	//  type T[P any] P
	//
	// Example:
	//  type T[P any] struct{ *P }
	MisplacedTypeParam

	// InvalidUnsafeSliceData occurs when unsafe.SliceData is called with
	// an argument that is not of slice type. It also occurs if it is used
	// in a package compiled for a language version before go1.20.
	//
	// Example:
	//  import "unsafe"
	//
	//  var x int
	//  var _ = unsafe.SliceData(x)
	InvalidUnsafeSliceData

	// InvalidUnsafeString occurs when unsafe.String is called with
	// a length argument that is not of integer type, negative, or
	// out of bounds. It also occurs if it is used in a package
	// compiled for a language version before go1.20.
	//
	// Example:
	//  import "unsafe"
	//
	//  var b [10]byte
	//  var _ = unsafe.String(&b[0], -1)
	InvalidUnsafeString

	// InvalidUnsafeStringData occurs if it is used in a package
	// compiled for a language version before go1.20.
	_ // not used anymore

)
