// Copyright 2024 The Go Authors. All rights reserved.
// Use of this source code is governed by a BSD-style
// license that can be found in the LICENSE file.

package typesinternal

import (
	"fmt"
	"go/ast"
	"go/token"
	"go/types"
	"strings"
)

// ZeroString returns the string representation of the zero value for any type t.
// The boolean result indicates whether the type is or contains an invalid type
// or a non-basic (constraint) interface type.
//
// Even for invalid input types, ZeroString may return a partially correct
// string representation. The caller should use the returned isValid boolean
// to determine the validity of the expression.
//
// When assigning to a wider type (such as 'any'), it's the caller's
// responsibility to handle any necessary type conversions.
//
// This string can be used on the right-hand side of an assignment where the
// left-hand side has that explicit type.
// References to named types are qualified by an appropriate (optional)
// qualifier function.
// Exception: This does not apply to tuples. Their string representation is
// informational only and cannot be used in an assignment.
//
// See [ZeroExpr] for a variant that returns an [ast.Expr].
func ZeroString(t types.Type, qual types.Qualifier) (_ string, isValid bool) {
	switch t := t.(type) {
	case *types.Basic:
		switch {
		case t.Info()&types.IsBoolean != 0:
			return "false", true
		case t.Info()&types.IsNumeric != 0:
			return "0", true
		case t.Info()&types.IsString != 0:
			return `""`, true
		case t.Kind() == types.UnsafePointer:
			fallthrough
		case t.Kind() == types.UntypedNil:
			return "nil", true
		case t.Kind() == types.Invalid:
			return "invalid", false
		default:
			panic(fmt.Sprintf("ZeroString for unexpected type %v", t))
		}

	case *types.Pointer, *types.Slice, *types.Chan, *types.Map, *types.Signature:
		return "nil", true

	case *types.Interface:
		if !t.IsMethodSet() {
			return "invalid", false
		}
		return "nil", true

	case *types.Named:
		switch under := t.Underlying().(type) {
		case *types.Struct, *types.Array:
			return types.TypeString(t, qual) + "{}", true
		default:
			return ZeroString(under, qual)
		}

	case *types.Alias:
		switch t.Underlying().(type) {
		case *types.Struct, *types.Array:
			return types.TypeString(t, qual) + "{}", true
		default:
			// A type parameter can have alias but alias type's underlying type
			// can never be a type parameter.
			// Use types.Unalias to preserve the info of type parameter instead
			// of call Underlying() going right through and get the underlying
			// type of the type parameter which is always an interface.
			return ZeroString(types.Unalias(t), qual)
		}

	case *types.Array, *types.Struct:
		return types.TypeString(t, qual) + "{}", true

	case *types.TypeParam:
		// Assumes func new is not shadowed.
		return "*new(" + types.TypeString(t, qual) + ")", true

	case *types.Tuple:
		// Tuples are not normal values.
		// We are currently format as "(t[0], ..., t[n])". Could be something else.
		isValid := true
		components := make([]string, t.Len())
		for i := 0; i < t.Len(); i++ {
			comp, ok := ZeroString(t.At(i).Type(), qual)

			components[i] = comp
			isValid = isValid && ok
		}
		return "(" + strings.Join(components, ", ") + ")", isValid

	case *types.Union:
		// Variables of these types cannot be created, so it makes
		// no sense to ask for their zero value.
		panic(fmt.Sprintf("invalid type for a variable: %v", t))

	default:
		panic(t) // unreachable.
	}
}

// ZeroExpr returns the ast.Expr representation of the zero value for any type t.
// The boolean result indicates whether the type is or contains an invalid type
// or a non-basic (constraint) interface type.
//
// Even for invalid input types, ZeroExpr may return a partially correct ast.Expr
// representation. The caller should use the returned isValid boolean to determine
// the validity of the expression.
//
// This function is designed for types suitable for variables and should not be
// used with Tuple or Union types.References to named types are qualified by an
// appropriate (optional) qualifier function.
//
// See [ZeroString] for a variant that returns a string.
func ZeroExpr(t types.Type, qual types.Qualifier) (_ ast.Expr, isValid bool) {
	switch t := t.(type) {
	case *types.Basic:
		switch {
		case t.Info()&types.IsBoolean != 0:
			return &ast.Ident{Name: "false"}, true
		case t.Info()&types.IsNumeric != 0:
			return &ast.BasicLit{Kind: token.INT, Value: "0"}, true
		case t.Info()&types.IsString != 0:
			return &ast.BasicLit{Kind: token.STRING, Value: `""`}, true
		case t.Kind() == types.UnsafePointer:
			fallthrough
		case t.Kind() == types.UntypedNil:
			return ast.NewIdent("nil"), true
		case t.Kind() == types.Invalid:
			return &ast.BasicLit{Kind: token.STRING, Value: `"invalid"`}, false
		default:
			panic(fmt.Sprintf("ZeroExpr for unexpected type %v", t))
		}

	case *types.Pointer, *types.Slice, *types.Chan, *types.Map, *types.Signature:
		return ast.NewIdent("nil"), true

	case *types.Interface:
		if !t.IsMethodSet() {
			return &ast.BasicLit{Kind: token.STRING, Value: `"invalid"`}, false
		}
		return ast.NewIdent("nil"), true

	case *types.Named:
		switch under := t.Underlying().(type) {
		case *types.Struct, *types.Array:
			return &ast.CompositeLit{
				Type: TypeExpr(t, qual),
			}, true
		default:
			return ZeroExpr(under, qual)
		}

	case *types.Alias:
		switch t.Underlying().(type) {
		case *types.Struct, *types.Array:
			return &ast.CompositeLit{
				Type: TypeExpr(t, qual),
			}, true
		default:
			return ZeroExpr(types.Unalias(t), qual)
		}

	case *types.Array, *types.Struct:
		return &ast.CompositeLit{
			Type: TypeExpr(t, qual),
		}, true

	case *types.TypeParam:
		return &ast.StarExpr{ // *new(T)
			X: &ast.CallExpr{
				// Assumes func new is not shadowed.
				Fun: ast.NewIdent("new"),
				Args: []ast.Expr{
					ast.NewIdent(t.Obj().Name()),
				},
			},
		}, true

	case *types.Tuple:
		// Unlike ZeroString, there is no ast.Expr can express tuple by
		// "(t[0], ..., t[n])".
		panic(fmt.Sprintf("invalid type for a variable: %v", t))

	case *types.Union:
		// Variables of these types cannot be created, so it makes
		// no sense to ask for their zero value.
		panic(fmt.Sprintf("invalid type for a variable: %v", t))

	default:
		panic(t) // unreachable.
	}
}

// IsZeroExpr uses simple syntactic heuristics to report whether expr
// is a obvious zero value, such as 0, "", nil, or false.
// It cannot do better without type information.
func IsZeroExpr(expr ast.Expr) bool {
	switch e := expr.(type) {
	case *ast.BasicLit:
		return e.Value == "0" || e.Value == `""`
	case *ast.Ident:
		return e.Name == "nil" || e.Name == "false"
	default:
		return false
	}
}

// TypeExpr returns syntax for the specified type. References to named types
// are qualified by an appropriate (optional) qualifier function.
// It may panic for types such as Tuple or Union.
func TypeExpr(t types.Type, qual types.Qualifier) ast.Expr {
	switch t := t.(type) {
	case *types.Basic:
		switch t.Kind() {
		case types.UnsafePointer:
			return &ast.SelectorExpr{X: ast.NewIdent(qual(types.NewPackage("unsafe", "unsafe"))), Sel: ast.NewIdent("Pointer")}
		default:
			return ast.NewIdent(t.Name())
		}

	case *types.Pointer:
		return &ast.UnaryExpr{
			Op: token.MUL,
			X:  TypeExpr(t.Elem(), qual),
		}

	case *types.Array:
		return &ast.ArrayType{
			Len: &ast.BasicLit{
				Kind:  token.INT,
				Value: fmt.Sprintf("%d", t.Len()),
			},
			Elt: TypeExpr(t.Elem(), qual),
		}

	case *types.Slice:
		return &ast.ArrayType{
			Elt: TypeExpr(t.Elem(), qual),
		}

	case *types.Map:
		return &ast.MapType{
			Key:   TypeExpr(t.Key(), qual),
			Value: TypeExpr(t.Elem(), qual),
		}

	case *types.Chan:
		dir := ast.ChanDir(t.Dir())
		if t.Dir() == types.SendRecv {
			dir = ast.SEND | ast.RECV
		}
		return &ast.ChanType{
			Dir:   dir,
			Value: TypeExpr(t.Elem(), qual),
		}

	case *types.Signature:
		var params []*ast.Field
		for i := 0; i < t.Params().Len(); i++ {
			params = append(params, &ast.Field{
				Type: TypeExpr(t.Params().At(i).Type(), qual),
				Names: []*ast.Ident{
					{
						Name: t.Params().At(i).Name(),
					},
				},
			})
		}
		if t.Variadic() {
			last := params[len(params)-1]
			last.Type = &ast.Ellipsis{Elt: last.Type.(*ast.ArrayType).Elt}
		}
		var returns []*ast.Field
		for i := 0; i < t.Results().Len(); i++ {
			returns = append(returns, &ast.Field{
				Type: TypeExpr(t.Results().At(i).Type(), qual),
			})
		}
		return &ast.FuncType{
			Params: &ast.FieldList{
				List: params,
			},
			Results: &ast.FieldList{
				List: returns,
			},
		}

	case *types.TypeParam:
		pkgName := qual(t.Obj().Pkg())
		if pkgName == "" || t.Obj().Pkg() == nil {
			return ast.NewIdent(t.Obj().Name())
		}
		return &ast.SelectorExpr{
			X:   ast.NewIdent(pkgName),
			Sel: ast.NewIdent(t.Obj().Name()),
		}

	// types.TypeParam also implements interface NamedOrAlias. To differentiate,
	// case TypeParam need to be present before case NamedOrAlias.
	// TODO(hxjiang): remove this comment once TypeArgs() is added to interface
	// NamedOrAlias.
	case NamedOrAlias:
		var expr ast.Expr = ast.NewIdent(t.Obj().Name())
		if pkgName := qual(t.Obj().Pkg()); pkgName != "." && pkgName != "" {
			expr = &ast.SelectorExpr{
				X:   ast.NewIdent(pkgName),
				Sel: expr.(*ast.Ident),
			}
		}

		// TODO(hxjiang): call t.TypeArgs after adding method TypeArgs() to
		// typesinternal.NamedOrAlias.
		if hasTypeArgs, ok := t.(interface{ TypeArgs() *types.TypeList }); ok {
			if typeArgs := hasTypeArgs.TypeArgs(); typeArgs != nil && typeArgs.Len() > 0 {
				var indices []ast.Expr
				for i := range typeArgs.Len() {
					indices = append(indices, TypeExpr(typeArgs.At(i), qual))
				}
				expr = &ast.IndexListExpr{
					X:       expr,
					Indices: indices,
				}
			}
		}

		return expr

	case *types.Struct:
		return ast.NewIdent(t.String())

	case *types.Interface:
		return ast.NewIdent(t.String())

	case *types.Union:
		if t.Len() == 0 {
			panic("Union type should have at least one term")
		}
		// Same as go/ast, the return expression will put last term in the
		// Y field at topmost level of BinaryExpr.
		// For union of type "float32 | float64 | int64", the structure looks
		// similar to:
		// {
		// 	X: {
		// 		X: float32,
		// 		Op: |
		// 		Y: float64,
		// 	}
		// 	Op: |,
		// 	Y: int64,
		// }
		var union ast.Expr
		for i := range t.Len() {
			term := t.Term(i)
			termExpr := TypeExpr(term.Type(), qual)
			if term.Tilde() {
				termExpr = &ast.UnaryExpr{
					Op: token.TILDE,
					X:  termExpr,
				}
			}
			if i == 0 {
				union = termExpr
			} else {
				union = &ast.BinaryExpr{
					X:  union,
					Op: token.OR,
					Y:  termExpr,
				}
			}
		}
		return union

	case *types.Tuple:
		panic("invalid input type types.Tuple")

	default:
		panic("unreachable")
	}
}
