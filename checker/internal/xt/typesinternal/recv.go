// Copyright 2024 The Go Authors. All rights reserved.
// Use of this source code is governed by a BSD-style
// license that can be found in the LICENSE file.

package typesinternal

import (
	"go/types"
)

// ReceiverNamed returns the named type (if any) associated with the
// type of recv, which may be of the form N or *N, or aliases thereof.
// It also reports whether a Pointer was present.
//
// The named result may be nil in ill-typed code.
func ReceiverNamed(recv *types.Var) (isPtr bool, named *types.Named) {
	t := recv.Type()
	if ptr, ok := types.Unalias(t).(*types.Pointer); ok {
		isPtr = true
		t = ptr.Elem()
	}
	named, _ = types.Unalias(t).(*types.Named)
	return
}

// Unpointer returns T given *T or an alias thereof.
// For all other types it is the identity function.
// It does not look at underlying types.
// The result may be an alias.
//
// Use this function to strip off the optional pointer on a receiver
// in a field or method selection, without losing the named type
// (which is needed to compute the method set).
//
// See also [typeparams.MustDeref], which removes one level of
// indirection from the type, regardless of named types (analogous to
// a LOAD instruction).
func Unpointer(t types.Type) types.Type {
	if ptr, ok := types.Unalias(t).(*types.Pointer); ok {
		return ptr.Elem()
	}
	return t
}
