// Copyright 2024 The Go Authors. All rights reserved.
// Use of this source code is governed by a BSD-style
// license that can be found in the LICENSE file.

package typesinternal

import (
	"fmt"
	"go/types"

	"golang.org/x/tools/go/types/typeutil"
)

// ForEachElement calls f for type T and each type reachable from its
// type through reflection. It does this by recursively stripping off
// type constructors; in addition, for each named type N, the type *N
// is added to the result as it may have additional methods.
//
// The caller must provide an initially empty set used to de-duplicate
// identical types, potentially across multiple calls to ForEachElement.
// (Its final value holds all the elements seen, matching the arguments
// passed to f.)
//
// TODO(adonovan): share/harmonize with go/callgraph/rta.
func ForEachElement(rtypes *typeutil.Map, msets *typeutil.MethodSetCache, T types.Type, f func(types.Type)) {
	var visit func(T types.Type, skip bool)
	visit = func(T types.Type, skip bool) {
		if !skip {
			if seen, _ := rtypes.Set(T, true).(bool); seen {
				return // de-dup
			}

			f(T) // notify caller of new element type
		}

		// Recursion over signatures of each method.
		tmset := msets.MethodSet(T)
		for i := 0; i < tmset.Len(); i++ {
			sig := tmset.At(i).Type().(*types.Signature)
			// It is tempting to call visit(sig, false)
			// but, as noted in golang.org/cl/65450043,
			// the Signature.Recv field is ignored by
			// types.Identical and typeutil.Map, which
			// is confusing at best.
			//
			// More importantly, the true signature rtype
			// reachable from a method using reflection
			// has no receiver but an extra ordinary parameter.
			// For the Read method of io.Reader we want:
			//   func(Reader, []byte) (int, error)
			// but here sig is:
			//   func([]byte) (int, error)
			// with .Recv = Reader (though it is hard to
			// notice because it doesn't affect Signature.String
			// or types.Identical).
			//
			// TODO(adonovan): construct and visit the correct
			// non-method signature with an extra parameter
			// (though since unnamed func types have no methods
			// there is essentially no actual demand for this).
			//
			// TODO(adonovan): document whether or not it is
			// safe to skip non-exported methods (as RTA does).
			visit(sig.Params(), true)  // skip the Tuple
			visit(sig.Results(), true) // skip the Tuple
		}

		switch T := T.(type) {
		case *types.Alias:
			visit(types.Unalias(T), skip) // emulates the pre-Alias behavior

		case *types.Basic:
			// nop

		case *types.Interface:
			// nop---handled by recursion over method set.

		case *types.Pointer:
			visit(T.Elem(), false)

		case *types.Slice:
			visit(T.Elem(), false)

		case *types.Chan:
			visit(T.Elem(), false)

		case *types.Map:
			visit(T.Key(), false)
			visit(T.Elem(), false)

		case *types.Signature:
			if T.Recv() != nil {
				panic(fmt.Sprintf("Signature %s has Recv %s", T, T.Recv()))
			}
			visit(T.Params(), true)  // skip the Tuple
			visit(T.Results(), true) // skip the Tuple

		case *types.Named:
			// A pointer-to-named type can be derived from a named
			// type via reflection.  It may have methods too.
			visit(types.NewPointer(T), false)

			// Consider 'type T struct{S}' where S has methods.
			// Reflection provides no way to get from T to struct{S},
			// only to S, so the method set of struct{S} is unwanted,
			// so set 'skip' flag during recursion.
			visit(T.Underlying(), true) // skip the unnamed type

		case *types.Array:
			visit(T.Elem(), false)

		case *types.Struct:
			for i, n := 0, T.NumFields(); i < n; i++ {
				// TODO(adonovan): document whether or not
				// it is safe to skip non-exported fields.
				visit(T.Field(i).Type(), false)
			}

		case *types.Tuple:
			for i, n := 0, T.Len(); i < n; i++ {
				visit(T.At(i).Type(), false)
			}

		case *types.TypeParam, *types.Union:
			// forEachReachable must not be called on parameterized types.
			panic(T)

		default:
			panic(T)
		}
	}
	visit(T, false)
}
