// Copyright 2024 The Go Authors. All rights reserved.
// Use of this source code is governed by a BSD-style
// license that can be found in the LICENSE file.

package typesinternal

import (
	"go/ast"
	"go/types"
	"strconv"
)

// FileQualifier returns a [types.Qualifier] function that qualifies
// imported symbols appropriately based on the import environment of a given
// file.
// If the same package is imported multiple times, the last appearance is
// recorded.
func FileQualifier(f *ast.File, pkg *types.Package) types.Qualifier {
	// Construct mapping of import paths to their defined names.
	// It is only necessary to look at renaming imports.
	imports := make(map[string]string)
	for _, imp := range f.Imports {
		if imp.Name != nil && imp.Name.Name != "_" {
			path, _ := strconv.Unquote(imp.Path.Value)
			imports[path] = imp.Name.Name
		}
	}

	// Define qualifier to replace full package paths with names of the imports.
	return func(p *types.Package) string {
		if p == nil || p == pkg {
			return ""
		}

		if name, ok := imports[p.Path()]; ok {
			if name == "." {
				return ""
			} else {
				return name
			}
		}

		// If there is no local renaming, fall back to the package name.
		return p.Name()
	}
}
