// Copyright 2024 The Go Authors. All rights reserved.
// Use of this source code is governed by a BSD-style
// license that can be found in the LICENSE file.

package typesinternal

import (
	"go/types"

	"verif/checker/internal/xt/stdlib"
	"verif/checker/internal/xt/versions"
)

// TooNewStdSymbols computes the set of package-level symbols
// exported by pkg that are not available at the specified version.
// The result maps each symbol to its minimum version.
//
// The pkg is allowed to contain type errors.
func TooNewStdSymbols(pkg *types.Package, version string) map[types.Object]string {
	disallowed := make(map[types.Object]string)

	// Pass 1: package-level symbols.
	symbols := stdlib.PackageSymbols[pkg.Path()]
	for _, sym := range symbols {
		symver := sym.Version.String()
		if versions.Before(version, symver) {
			switch sym.Kind {
			case stdlib.Func, stdlib.Var, stdlib.Const, stdlib.Type:
				disallowed[pkg.Scope().Lookup(sym.Name)] = symver
			}
		}
	}

	// Pass 2: fields and methods.
	//
	// We allow fields and methods if their associated type is
	// disallowed, as otherwise we would report false positives
	// for compatibility shims. Consider:
	//
	//   //go:build go1.22
	//   type T struct { F std.Real } // correct new API
	//
	//   //go:build !go1.22
	//   type T struct { F fake } // shim
	//   type fake struct { ... }
	//   func (fake) M () {}
	//
	// These alternative declarations of T use either the std.Real
	// type, introduced in go1.22, or a fake type, for the field
	// F. (The fakery could be arbitrarily deep, involving more
	// nested fields and methods than are shown here.) Clients
	// that use the compatibility shim T will compile with any
	// version of go, whether older or newer than go1.22, but only
	// the newer version will use the std.Real implementation.
	//
	// Now consider a reference to method M in new(T).F.M() in a
	// module that requires a minimum of go1.21. The analysis may
	// occur using a version of Go higher than 1.21, selecting the
	// first version of T, so the method M is Real.M. This would
	// spuriously cause the analyzer to report a reference to a
	// too-new symbol even though this expression compiles just
	// fine (with the fake implementation) using go1.21.
	for _, sym := range symbols {
		symVersion := sym.Version.String()
		if !versions.Before(version, symVersion) {
			continue // allowed
		}

		var obj types.Object
		switch sym.Kind {
		case stdlib.Field:
			typename, name := sym.SplitField()
			if t := pkg.Scope().Lookup(typename); t != nil && disallowed[t] == "" {
				obj, _, _ = types.LookupFieldOrMethod(t.Type(), false, pkg, name)
			}

		case stdlib.Method:
			ptr, recvname, name := sym.SplitMethod()
			if t := pkg.Scope().Lookup(recvname); t != nil && disallowed[t] == "" {
				obj, _, _ = types.LookupFieldOrMethod(t.Type(), ptr, pkg, name)
			}
		}
		if obj != nil {
			disallowed[obj] = symVersion
		}
	}

	return disallowed
}
