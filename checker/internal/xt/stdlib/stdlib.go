// Copyright 2022 The Go Authors. All rights reserved.
// Use of this source code is governed by a BSD-style
// license that can be found in the LICENSE file.

//go:generate go run generate.go

// Package stdlib provides a table of all exported symbols in the
// standard library, along with the version at which they first
// appeared.
package stdlib

import (
	"fmt"
	"strings"
)

type Symbol struct {
	Name    string
	Kind    Kind
	Version Version // Go version that first included the symbol
}

// A Kind indicates the kind of a symbol:
// function, variable, constant, type, and so on.
type Kind int8

const (
	Invalid Kind = iota // Example name:
	Type                // "Buffer"
	Func                // "Println"
	Var                 // "EOF"
	Const               // "Pi"
	Field               // "Point.X"
	Method              // "(*Buffer).Grow"
)

func (kind Kind) String() string {
	return [...]string{
		Invalid: "invalid",
		Type:    "type",
		Func:    "func",
		Var:     "var",
		Const:   "const",
		Field:   "field",
		Method:  "method",
	}[kind]
}

// A Version represents a version of Go of the form "go1.%d".
type Version int8

// String returns a version string of the form "go1.23", without allocating.
func (v Version) String() string { return versions[v] }

var versions [30]string // (increase constant as needed)

func init() {
	for i := range versions {
		versions[i] = fmt.Sprintf("go1.%d", i)
	}
}

// HasPackage reports whether the specified package path is part of
// the standard library's public API.
func HasPackage(path string) bool {
	_, ok := PackageSymbols[path]
	return ok
}

// SplitField splits the field symbol name into type and field
// components. It must be called only on Field symbols.
//
// Example: "File.Package" -> ("File", "Package")
func (sym *Symbol) SplitField() (typename, name string) {
	if sym.Kind != Field {
		panic("not a field")
	}
	typename, name, _ = strings.Cut(sym.Name, ".")
	return
}

// SplitMethod splits the method symbol name into pointer, receiver,
// and method components. It must be called only on Method symbols.
//
// Example: "(*Buffer).Grow" -> (true, "Buffer", "Grow")
func (sym *Symbol) SplitMethod() (ptr bool, recv, name string) {
	if sym.Kind != Method {
		panic("not a method")
	}
	recv, name, _ = strings.Cut(sym.Name, ".")
	recv = recv[len("(") : len(recv)-len(")")]
	ptr = recv[0] == '*'
	if ptr {
		recv = recv[len("*"):]
	}
	return
}
