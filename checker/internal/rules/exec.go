package rules

import (
	"fmt"
	"go/constant"
	"go/token"
	"go/types"
	"regexp"
	"strings"

	"golang.org/x/tools/go/ssa"

	"verif/checker/internal/an"
)

// execModel describes one executor: a function that enters user code through
// an invokerFn value.
type execModel struct {
	fn      *ssa.Function
	kind    string // "invoke", "ctor", "dec"
	name    string
	sink    ssa.CallInstruction
	build   *ssa.Call // paramList.BuildList call that feeds the sink's arguments
	extract *ssa.Call // resultList.ExtractList call that consumes the sink's results
	// flag
	flagType, flagField string
	doneVal             string // normalised constant meaning "done"
}

func (m *execModel) flagNorm() string { return "p:n." + m.flagField }

var knownEnum = map[string]struct{ typ, val string }{
	"decoratorReady":   {"decoratorState", "0"},
	"decoratorOnStack": {"decoratorState", "1"},
	"decoratorCalled":  {"decoratorState", "2"},
}

func digConst(c *an.Ctx, name string) (string, bool) {
	o := c.P.Dig.Pkg.Scope().Lookup(name)
	k, ok := o.(*types.Const)
	if !ok {
		// a renamed constant of an enumeration the rules know: the decorator states are told apart by type and
		// value (frozen from the tree the rules were written against) when exactly one constant of that type has it
		if want, known := knownEnum[name]; known {
			var hit *types.Const
			n := 0
			sc := c.P.Dig.Pkg.Scope()
			for _, nm := range sc.Names() {
				if kk, isK := sc.Lookup(nm).(*types.Const); isK && an.IsDigNamed(kk.Type(), want.typ) && kk.Val().String() == want.val {
					hit = kk
					n++
				}
			}
			if n == 1 {
				return hit.Val().String(), true
			}
		}
		return "", false
	}
	if k.Val().Kind() == constant.Int {
		return k.Val().String(), true
	}
	return k.Val().String(), true
}

func isCallTo(v ssa.Value, name string) (*ssa.Call, bool) {
	call, ok := v.(*ssa.Call)
	if !ok {
		return nil, false
	}
	return call, an.CalleeName(call) == name
}

// models builds the executor models. Problems are reported under rule.
func models(c *an.Ctx, rule string) []*execModel {
	var out []*execModel
	exs := executors(c)
	if !c.Floor(rule, "executors (functions calling through an invokerFn)", len(exs), 3) {
		return nil
	}
	for _, fn := range exs {
		c.See(fn)
		m := &execModel{fn: fn, name: an.ShortName(fn)}
		switch m.name {
		case "(*dig.Scope).Invoke":
			m.kind = "invoke"
		case "(*dig.constructorNode).Call":
			m.kind = "ctor"
			m.flagType, m.flagField, m.doneVal = "constructorNode", "called", "true"
		case "(*dig.decoratorNode).Call":
			m.kind = "dec"
			m.flagType, m.flagField = "decoratorNode", "state"
			v, ok := digConst(c, "decoratorCalled")
			if !ok {
				c.Und(rule, "anchor decoratorCalled", "constant not found")
				continue
			}
			m.doneVal = v
		default:
			c.BadAt(rule, "unknown executor "+m.name, "a function other than Scope.Invoke, constructorNode.Call and decoratorNode.Call calls user code through an invokerFn; none of the executor rules (arguments complete, run once, staged commit, callbacks) is known to hold for it", c.P.Pos(fn.Pos()), nil)
			continue
		}
		sinks := an.Sinks(fn, "invokerFn")
		if len(sinks) != 1 {
			c.BadAt(rule, m.name+" has a single user-code entry", fmt.Sprintf("%d calls through an invokerFn in one executor: the function could run more than once per execution", len(sinks)), c.P.Pos(fn.Pos()), nil)
			continue
		}
		m.sink = sinks[0]
		args := m.sink.Common().Args
		if len(args) == 2 {
			if ex, ok := an.Resolve(args[1]).(*ssa.Extract); ok && ex.Index == 0 {
				if call, ok := isCallTo(ex.Tuple, "(dig.paramList).BuildList"); ok {
					m.build = call
				}
			}
		}
		if sv, ok := m.sink.(ssa.Value); ok {
			for _, r := range an.Referrers(sv) {
				if call, ok := r.(*ssa.Call); ok && an.CalleeName(call) == "(dig.resultList).ExtractList" {
					m.extract = call
				}
			}
		}
		out = append(out, m)
	}
	return out
}

var reInvokePL = regexp.MustCompile(`^dig\.newParamList\(reflect\.TypeOf\(p:function\), iface\(p:s\)\)#0$`)

// ruleMArgs: the user function is entered only with a complete, freshly built
// argument list of its own parameter list (C01 M-once/args provenance, C03,
// C04 M-args).
func ruleMArgs(rule string) RuleFn {
	return func(c *an.Ctx) {
		c.Rule(rule, "E-DOM/E-FLOW per executor: the call through the invoker is not in a loop; its function operand is reflect.ValueOf of the node's own function (n.ctor / n.dcor / the function parameter of Invoke); its argument operand is result #0 of BuildList on the node's own parameter list (n.paramList / n.params / newParamList(TypeOf(function), s)) evaluated in the executor's view (c / the decorator's scope / s); every path from entry to the call crosses the nil edge of BuildList's error result")
		for _, m := range models(c, rule) {
			pre := m.name + ": "
			if m.build == nil {
				c.Bad(rule, pre+"arguments come from BuildList", "the argument operand of the user-function call is not result #0 of paramList.BuildList: "+an.Norm(m.sink.Common().Args[1]), m.sink, nil)
				continue
			}
			c.OK(rule, pre+"arguments come from BuildList", an.Norm(m.build), m.sink)
			// function operand
			fop := an.Norm(m.sink.Common().Args[0])
			wantF := map[string]string{"invoke": "reflect.ValueOf(p:function)", "ctor": "reflect.ValueOf(p:n.ctor)", "dec": "reflect.ValueOf(p:n.dcor)"}[m.kind]
			c.Check(fop == wantF, rule, pre+"function operand is the node's own function", fop, "function operand is "+fop+", expected "+wantF+": a different function than the registered one would run", m.sink, nil)
			// receiver of BuildList = own param list
			recv := an.Norm(m.build.Common().Args[0])
			okRecv := false
			switch m.kind {
			case "invoke":
				okRecv = reInvokePL.MatchString(recv)
			case "ctor":
				okRecv = recv == "p:n.paramList"
			case "dec":
				okRecv = recv == "p:n.params"
			}
			c.Check(okRecv, rule, pre+"BuildList on the executor's own parameter list", recv, "BuildList receiver is "+recv+": arguments are built for a different parameter list", m.build, nil)
			// view
			view := an.Norm(m.build.Common().Args[1])
			okView := false
			switch m.kind {
			case "invoke":
				okView = view == "iface(p:s)"
			case "ctor":
				okView = view == "p:c"
			case "dec":
				okView = view == "iface(p:n.s)" || view == "p:s"
			}
			c.Check(okView, rule, pre+"arguments are built in the executor's view", view, "BuildList evaluates in "+view+": dependencies are resolved as seen from the wrong scope", m.build, nil)
			// dominance by nil edge
			gates := an.NewGates().AddEdges(an.NilErrEdges(m.fn, m.build, 1)...)
			if gates.Len() == 0 {
				c.Bad(rule, pre+"user function entered only after BuildList succeeded", "no branch tests BuildList's error result", m.build, nil)
			} else if hit, path := an.PathTo(m.fn, nil, an.IsInstr(m.sink), gates); hit != nil {
				c.Bad(rule, pre+"user function entered only after BuildList succeeded", "a path reaches the user-function call without crossing the err==nil edge of BuildList", m.sink, an.BlockPath(c.P, path))
			} else {
				c.OK(rule, pre+"user function entered only after BuildList succeeded", fmt.Sprintf("%d nil-edge(s) cut all paths", gates.Len()), m.sink)
			}
			c.Check(!an.InLoop(m.sink), rule, pre+"user function call is not in a loop", "straight-line", "the call through the invoker lies on a CFG cycle: the function may run more than once per execution", m.sink, nil)
		}
	}
}

// provablyNonNil reports whether the returned error value v is non-nil at ret
// given that the path did not execute `avoid`.
func provablyNonNil(fn *ssa.Function, ret ssa.Instruction, v ssa.Value, avoid ssa.Instruction) bool {
	v = an.Resolve(v)
	if _, ok := v.(*ssa.MakeInterface); ok {
		return true
	}
	if c, ok := v.(*ssa.Const); ok && c.IsNil() {
		return false
	}
	want := "(" + an.Norm(v) + " != nil)"
	g := an.NewGates().AddEdges(an.EdgesWhere(fn, an.FactIs(want))...)
	if avoid != nil {
		g.AddInstr(avoid)
	}
	hit, _ := an.PathTo(fn, nil, an.IsInstr(ret), g)
	return hit == nil
}

// ruleMOnce: when Invoke returns nil the function was called (exactly once).
func ruleMOnce(rule string) RuleFn {
	return func(c *an.Ctx) {
		c.Rule(rule, "in Scope.Invoke every Return that is reachable without passing the call through the invoker returns a provably non-nil error (a freshly made dig error, or a value tested != nil on all such paths): a nil result implies the function was called; together with not-in-loop, exactly once")
		for _, m := range models(c, rule) {
			if m.kind != "invoke" {
				continue
			}
			n := 0
			an.Instrs(m.fn, func(in ssa.Instruction) {
				ret, ok := in.(*ssa.Return)
				if !ok || len(ret.Results) != 1 {
					return
				}
				if in.Block().Comment == "recover" {
					return
				}
				hit, path := an.PathTo(m.fn, nil, an.IsInstr(ret), an.NewGates().AddInstr(m.sink))
				if hit == nil {
					return
				}
				n++
				cons := fmt.Sprintf("%s: return #%d before the call is an error", m.name, n)
				if provablyNonNil(m.fn, ret, ret.Results[0], m.sink) {
					c.OK(rule, cons, an.Norm(ret.Results[0]), ret)
				} else {
					c.Bad(rule, cons, "Invoke can return "+an.Norm(ret.Results[0])+" (possibly nil) without having called the function", ret, an.BlockPath(c.P, path))
				}
			})
			c.Floor(rule, "early returns of Invoke", n, 5)
		}
	}
}

// ruleMShallow: constructor executor is entered only if its direct
// dependencies are available; errMissingDependencies only from that verdict.
func ruleMShallow(rule string) RuleFn {
	return func(c *an.Ctx) {
		c.Rule(rule, "in constructorNode.Call, BuildList and the user-function call are dominated by the nil edge of shallowCheckDependencies(view, own paramList) with the same view and list as BuildList; every errMissingDependencies value in the module is constructed on a non-nil edge of a shallowCheckDependencies result with that result as Reason (W-missingdeps), so errors.As(err, *errMissingDependencies) matches only dig's own verdict")
		for _, m := range models(c, rule) {
			if m.kind != "ctor" || m.build == nil {
				continue
			}
			pre := m.name + ": "
			var shallow *ssa.Call
			for _, k := range an.CallsNamed(m.fn, "dig.shallowCheckDependencies") {
				if call, ok := k.(*ssa.Call); ok {
					a := call.Common().Args
					if an.Norm(a[0]) == an.Norm(m.build.Common().Args[1]) && an.Norm(a[1]) == an.Norm(m.build.Common().Args[0]) {
						shallow = call
					}
				}
			}
			if shallow == nil {
				c.Bad(rule, pre+"direct dependencies checked before building", "no shallowCheckDependencies(view, paramList) call with BuildList's view and list: a constructor with unavailable direct dependencies could be entered, and optional parameters could not tell missing dependencies from failures", m.build, nil)
				continue
			}
			g := an.NewGates().AddEdges(an.NilErrEdges(m.fn, shallow, -1)...)
			if hit, path := an.PathTo(m.fn, nil, an.IsInstr(m.build), g); hit != nil || g.Len() == 0 {
				c.Bad(rule, pre+"direct dependencies checked before building", "BuildList reachable without crossing the nil edge of shallowCheckDependencies", m.build, an.BlockPath(c.P, path))
			} else {
				c.OK(rule, pre+"direct dependencies checked before building", an.Norm(shallow), shallow)
			}
		}
		// W-missingdeps over the whole module
		n := 0
		for _, fn := range c.P.Funcs {
			an.Instrs(fn, func(in ssa.Instruction) {
				al, ok := in.(*ssa.Alloc)
				if !ok || !isConstruction(al) || !an.IsDigNamed(al.Type(), "errMissingDependencies") {
					return
				}
				n++
				cons := "errMissingDependencies constructed in " + an.ShortName(fn)
				var reason ssa.Value
				for _, r := range an.Referrers(al) {
					if fa, ok := r.(*ssa.FieldAddr); ok && an.FieldName(fa.X.Type(), fa.Field) == "Reason" {
						for _, rr := range an.Referrers(fa) {
							if st, ok := rr.(*ssa.Store); ok {
								reason = an.Resolve(st.Val)
							}
						}
					}
				}
				call, ok := reason.(*ssa.Call)
				if reason == nil || !ok || an.CalleeName(call) != "dig.shallowCheckDependencies" {
					c.Bad(rule, cons, "Reason is not the result of shallowCheckDependencies: "+fmt.Sprint(reason), al, nil)
					return
				}
				g := an.NewGates().AddEdges(an.NonNilErrEdges(fn, call, -1)...)
				if hit, path := an.PathTo(fn, nil, an.IsInstr(al), g); hit != nil || g.Len() == 0 {
					c.Bad(rule, cons, "constructed on a path that does not cross the non-nil edge of shallowCheckDependencies", al, an.BlockPath(c.P, path))
				} else {
					c.OK(rule, cons, "under shallowCheckDependencies != nil", al)
				}
			})
		}
		c.Floor(rule, "errMissingDependencies construction sites", n, 2)
	}
}

// failureReturns lists the Return instructions reachable from `from` without
// crossing the given edges.
func returnsAfter(fn *ssa.Function, from ssa.Instruction, cut []an.Edge) []*ssa.Return {
	var out []*ssa.Return
	g := an.NewGates().AddEdges(cut...)
	for {
		hit, _ := an.PathTo(fn, from, func(i ssa.Instruction) bool {
			_, ok := i.(*ssa.Return)
			return ok
		}, g)
		if hit == nil {
			return out
		}
		out = append(out, hit.(*ssa.Return))
		g.AddInstr(hit)
	}
}

func fieldStore(al *ssa.Alloc, field string) ssa.Value {
	for _, r := range an.Referrers(al) {
		if fa, ok := r.(*ssa.FieldAddr); ok && an.FieldName(fa.X.Type(), fa.Field) == field {
			for _, rr := range an.Referrers(fa) {
				if st, ok := rr.(*ssa.Store); ok && st.Addr == ssa.Value(fa) {
					return st.Val
				}
			}
		}
	}
	return nil
}

// compositeOf returns the Alloc of a composite literal that v (an interface
// or struct value) was made from, if v is iface(load(alloc)) or load(alloc).
func compositeOf(v ssa.Value) *ssa.Alloc {
	v = an.Resolve(v)
	if mi, ok := v.(*ssa.MakeInterface); ok {
		v = mi.X
	}
	if ld, ok := v.(*ssa.UnOp); ok && ld.Op == token.MUL {
		if al, ok := ld.X.(*ssa.Alloc); ok {
			return al
		}
	}
	if al, ok := v.(*ssa.Alloc); ok {
		return al
	}
	return nil
}

// ruleRootCause (C07/C13/C20): a failing constructor's own error is the
// Reason of errConstructorFailed; a failing decorator's own error is returned;
// ExtractList returns the function's own error result.
func ruleRootCause(rule string) RuleFn {
	return func(c *an.Ctx) {
		c.Rule(rule, "E-FLOW: (a) in constructorNode.Call every return on the non-nil side of ExtractList's error returns errConstructorFailed{Reason: <that error>} (W-ctorfailed: a constructor's error is never confused with missing dependencies and stays reachable by Unwrap); (b) in decoratorNode.Call the same exits return that error itself or a dig error wrapping it as Reason; (c) every non-nil error returned by resultList.ExtractList is the value asserted out of one element of its values argument (the function's own result)")
		for _, m := range models(c, rule) {
			if m.kind == "invoke" {
				continue
			}
			pre := m.name + ": "
			if m.extract == nil {
				c.Bad(rule, pre+"results go through ExtractList", "the results of the user function are not passed to resultList.ExtractList", m.sink, nil)
				continue
			}
			rets := returnsAfter(m.fn, m.extract, an.NilErrEdges(m.fn, m.extract, -1))
			// a merged exit that is also reached on the nil edge returns the same value on both
			_ = rets
			if len(rets) == 0 {
				c.Bad(rule, pre+"failure of the function is reported", "no return on the non-nil side of ExtractList's error: a failing function would be treated as successful", m.extract, nil)
				continue
			}
			for i, r := range rets {
				cons := fmt.Sprintf("%sfailure return #%d carries the function's own error", pre, i+1)
				v := an.Resolve(r.Results[0])
				if v == ssa.Value(m.extract) && m.kind == "dec" {
					c.OK(rule, cons, "returns ExtractList's error itself", r)
					continue
				}
				al := compositeOf(v)
				if al == nil {
					c.Bad(rule, cons, "returned value "+an.Norm(v)+" is not a dig error wrapping ExtractList's error", r, nil)
					continue
				}
				reason := an.Resolve(fieldStore(al, "Reason"))
				wantT := "errConstructorFailed"
				if m.kind == "ctor" && !an.IsDigNamed(al.Type(), wantT) {
					c.Bad(rule, cons, "a failing constructor is reported as "+al.Type().String()+" rather than errConstructorFailed: optional parameters would swallow it / its cause is misclassified", r, nil)
					continue
				}
				if reason != ssa.Value(m.extract) {
					c.Bad(rule, cons, "Reason of the returned error is "+an.Norm(reason)+", not the function's own error", r, nil)
					continue
				}
				c.OK(rule, cons, "Reason = ExtractList error", r)
			}
		}
		// (c) ExtractList's returned errors
		if ex := c.Fn(rule, "(dig.resultList).ExtractList"); ex != nil {
			n := 0
			an.Instrs(ex, func(in ssa.Instruction) {
				ret, ok := in.(*ssa.Return)
				if !ok {
					return
				}
				v := an.Resolve(ret.Results[0])
				if k, ok := v.(*ssa.Const); ok && k.IsNil() {
					return
				}
				n++
				s := an.Norm(v)
				ok2 := regexp.MustCompile(`^p:values\[.*\]\.Interface\(\)\.\(error\)#0$`).MatchString(s)
				if !ok2 {
					// the scan may live in a helper that receives the values
					if k, isK := v.(*ssa.Call); isK {
						if h := an.StaticCallee(k); h != nil && c.P.InModule(h) {
							idx := -1
							for i, a := range k.Common().Args {
								if an.Norm(a) == "p:values" {
									idx = i
								}
							}
							if idx >= 0 && idx < len(h.Params) {
								pn := "p:" + an.CanonParam(h.Params[idx])
								all, any := true, false
								an.Instrs(h, func(i2 ssa.Instruction) {
									r2, isR := i2.(*ssa.Return)
									if !isR {
										return
									}
									v2 := an.Resolve(r2.Results[len(r2.Results)-1])
									if kk, isC := v2.(*ssa.Const); isC && kk.IsNil() {
										return
									}
									any = true
									if !regexp.MustCompile(`^` + regexp.QuoteMeta(pn) + `\[.*\]\.Interface\(\)\.\(error\)#0$`).MatchString(an.Norm(v2)) {
										all = false
									}
								})
								ok2 = all && any
							}
						}
					}
				}
				c.Check(ok2, rule, fmt.Sprintf("ExtractList error return #%d is the function's own error value", n), s, "ExtractList returns "+s+" which is not the error asserted out of the function's results", ret, nil)
			})
			c.Floor(rule, "error returns of ExtractList", n, 1)
		}
	}
}

// notDoneEdges returns the If-edges on which the executor's flag is known to
// be "not done".
func notDoneEdges(m *execModel) []an.Edge {
	if m.kind == "ctor" {
		return an.EdgesWhere(m.fn, an.FactIs("!"+m.flagNorm()))
	}
	return an.EdgesWhere(m.fn, an.FactIs("("+m.flagNorm()+" != "+m.doneVal+")"))
}

// ruleTypestate (E-TS): done-flags of executors.
func ruleTypestate(rule string) RuleFn {
	return func(c *an.Ctx) {
		c.Rule(rule, "E-TS per executor owning a done-flag (constructorNode.called, decoratorNode.state): (a) the user-function call is dominated by the not-done edge of a test of the flag; (b) re-entrancy: for every call site r in the executor, between that test and the user-function call, whose callees can reach the executor again (CHA), either the flag is re-tested on every path from r to the user-function call, or an in-progress marker is stored before r and every call site of the executor's interface method is guarded by a not-in-progress test on the same receiver (G-onstack); (c) the terminal store of the flag is dominated by the nil edge of ExtractList's error and no call follows it before the return; (d) the flag is written only inside its executor (and closures deferred by it)")
		ms := models(c, rule)
		for _, m := range ms {
			if m.kind == "invoke" {
				continue
			}
			pre := m.name + ": "
			nd := notDoneEdges(m)
			// (a)
			if len(nd) == 0 {
				c.Bad(rule, pre+"(a) user function runs only when not done", "no test of "+m.flagType+"."+m.flagField+" against its done value", m.sink, nil)
			} else if hit, path := an.PathTo(m.fn, nil, an.IsInstr(m.sink), an.NewGates().AddEdges(nd...)); hit != nil {
				c.Bad(rule, pre+"(a) user function runs only when not done", "a path reaches the user-function call without crossing the not-done edge of the flag test: a completed function can run again", m.sink, an.BlockPath(c.P, path))
			} else {
				c.OK(rule, pre+"(a) user function runs only when not done", "dominated by not-done edge", m.sink)
			}
			// (b) re-entrancy
			g := c.P.CHA()
			self := m.fn
			reent := 0
			an.Instrs(m.fn, func(in ssa.Instruction) {
				call, ok := in.(ssa.CallInstruction)
				if !ok || in == ssa.Instruction(m.sink) {
					return
				}
				if _, isDefer := in.(*ssa.Defer); isDefer {
					return
				}
				// must be able to reach the sink
				if hit, _ := an.PathTo(m.fn, in, an.IsInstr(m.sink), nil); hit == nil {
					return
				}
				canReenter := false
				var via []string
				for _, callee := range an.CalleesAt(g, call) {
					if callee == self {
						canReenter = true
						via = []string{an.ShortName(callee)}
						break
					}
					if p := an.CGReach(g, callee, func(f *ssa.Function) bool { return f == self }, nil); p != nil {
						canReenter = true
						via = p
						break
					}
				}
				if !canReenter {
					return
				}
				reent++
				cons := fmt.Sprintf("%s(b) re-entrant call %s is followed by a re-test of the flag or protected by an in-progress marker", pre, an.CalleeName(call))
				// option 1: re-test after r
				var later []an.Edge
				for _, e := range nd {
					// the testing block must be reachable from r
					first := e.From.Instrs[0]
					if e.From == in.Block() && indexOf(e.From, in) >= 0 {
						later = append(later, e)
						continue
					}
					if hit, _ := an.PathTo(m.fn, in, an.IsInstr(first), nil); hit != nil {
						later = append(later, e)
					}
				}
				if len(later) > 0 {
					if hit, _ := an.PathTo(m.fn, in, an.IsInstr(m.sink), an.NewGates().AddEdges(later...)); hit == nil {
						c.OK(rule, cons, "flag re-tested after the call on every path to the user function", in)
						return
					}
				}
				// option 2: marker protocol
				if m.kind == "dec" {
					onStack, _ := digConst(c, "decoratorOnStack")
					var marker *ssa.Store
					for _, st := range an.StoresToField(m.fn, m.flagType, m.flagField) {
						if an.Norm(st.Val) == onStack {
							marker = st
						}
					}
					if marker != nil {
						if hit, _ := an.PathTo(m.fn, nil, an.IsInstr(in), an.NewGates().AddInstr(marker)); hit == nil {
							c.OK(rule, cons, "in-progress marker stored before the call (call sites guarded: see G-onstack)", in)
							return
						}
					}
				}
				c.Bad(rule, cons, "building the arguments can run this very function (e.g. through a decorator of one of its dependencies, which the cycle check does not see); the flag is tested only before: the function can execute twice", in, via)
			})
			c.Floor(rule, pre+"re-entrant call sites", reent, 1)
			// (c) terminal store
			var term []*ssa.Store
			for _, st := range an.StoresToField(m.fn, m.flagType, m.flagField) {
				if an.Norm(st.Val) == m.doneVal {
					term = append(term, st)
				}
			}
			if len(term) == 0 {
				c.Bad(rule, pre+"(c) flag advances on success", "no store of the done value: the function would run on every demand", m.sink, nil)
			}
			if len(term) > 0 && m.extract != nil {
				// (d) and it advances on EVERY success: once the results were extracted without error no path reaches a
				// successful return around the store (a store under "something was staged", "not a dry run" ... leaves
				// a function that succeeded to be executed again on the next demand)
				var ti []ssa.Instruction
				for _, st := range term {
					ti = append(ti, st)
				}
				okAll := true
				var at ssa.Instruction = m.extract
				for _, e := range an.NilErrEdges(m.fn, m.extract, -1) {
					first := e.From.Succs[e.Succ].Instrs[0]
					success := func(i ssa.Instruction) bool {
						r, ok := i.(*ssa.Return)
						if !ok || len(r.Results) == 0 {
							return false
						}
						v := an.Resolve(r.Results[len(r.Results)-1])
						if k, ok := v.(*ssa.Const); ok && k.IsNil() {
							return true
						}
						return v == ssa.Value(m.extract)
					}
					isTerm := false
					for _, t := range ti {
						if t == first {
							isTerm = true
						}
					}
					if isTerm {
						continue
					}
					if success(first) {
						okAll, at = false, first
					} else if hit, _ := an.PathTo(m.fn, first, success, an.NewGates().AddInstr(ti...)); hit != nil {
						okAll, at = false, hit
					}
				}
				c.Check(okAll, rule, pre+"(d) every success stores the done value", "no successful return after the extraction avoids the store", "the function ran, its results were extracted without error, and a path returns success without storing the done value: the function is executed again on the next demand (a constructor that only feeds value groups is run once per consumer)", at, nil)
			}
			for _, st := range term {
				cons := pre + "(c) done-flag is stored only after the results were extracted without error"
				if m.extract == nil {
					c.Bad(rule, cons, "no ExtractList call", st, nil)
					continue
				}
				gates := an.NewGates().AddEdges(an.NilErrEdges(m.fn, m.extract, -1)...)
				if hit, path := an.PathTo(m.fn, nil, an.IsInstr(st), gates); hit != nil || gates.Len() == 0 {
					c.Bad(rule, cons, "the done value is stored on a path that does not cross the nil edge of ExtractList's error: a failed (or not yet run) function is marked done and never retried", st, an.BlockPath(c.P, path))
				} else {
					c.OK(rule, cons, "dominated by ExtractList err==nil", st)
				}
				// nothing that can fail after it
				bad, _ := an.PathTo(m.fn, st, func(i ssa.Instruction) bool {
					switch x := i.(type) {
					case *ssa.Call:
						_ = x
						return true
					case *ssa.Panic:
						return true
					case *ssa.Return:
						v := an.Resolve(x.Results[0])
						if k, ok := v.(*ssa.Const); ok && k.IsNil() {
							return false
						}
						// returning ExtractList's error after the store: the store is
						// only reached on its nil edge, so the value is nil here
						if m.extract != nil && v == ssa.Value(m.extract) {
							return false
						}
						return true
					}
					return false
				}, nil)
				c.Check(bad == nil, rule, pre+"(c) nothing can fail after the done-flag is stored", "only the nil return follows", "a call or error exit follows the store of the done value", st, nil)
			}
		}
		// (e) monotone: the flag never goes back from done
		for _, m := range ms {
			if m.kind == "invoke" {
				continue
			}
			owner := m.fn
			fns := append([]*ssa.Function{owner}, an.Closures(owner)...)
			for _, f := range fns {
				for _, st := range an.StoresToField(f, m.flagType, m.flagField) {
					v := an.Norm(st.Val)
					if v == m.doneVal {
						continue
					}
					cons := fmt.Sprintf("%s: (e) a store of %s into %s.%s cannot undo a completed execution", an.ShortName(f), v, m.flagType, m.flagField)
					// must be dominated by a not-done test evaluated in the same function
					var nd []an.Edge
					if m.kind == "ctor" {
						nd = an.EdgesWhere(f, an.FactIs("!p:n."+m.flagField))
					} else {
						nd = an.EdgesWhere(f, an.FactIs("(p:n."+m.flagField+" != "+m.doneVal+")"))
						if on, ok := digConst(c, "decoratorOnStack"); ok {
							nd = append(nd, an.EdgesWhere(f, an.FactIs("(p:n."+m.flagField+" == "+on+")"))...)
						}
					}
					if hit, path := an.PathTo(f, nil, an.IsInstr(st), an.NewGates().AddEdges(nd...)); hit != nil || len(nd) == 0 {
						c.Bad(rule, cons, "the flag can be set back to a not-done value although the function may already have completed (e.g. a nested execution succeeded before the outer call failed): the function runs again on the next demand", st, an.BlockPath(c.P, path))
					} else {
						c.OK(rule, cons, "only under a not-done test", st)
					}
				}
			}
		}
		// (d) single writer
		for _, ff := range [][2]string{{"constructorNode", "called"}, {"decoratorNode", "state"}} {
			owner := "(*dig." + ff[0] + ").Call"
			n := 0
			for _, fn := range c.P.Funcs {
				for _, st := range an.StoresToField(fn, ff[0], ff[1]) {
					n++
					nm := an.ShortName(fn)
					c.Check(nm == owner || strings.HasPrefix(nm, owner+"$"), rule, "(d) "+ff[0]+"."+ff[1]+" written in "+nm, "owner", "the done-flag is written outside its executor", st, nil)
				}
			}
			c.Floor(rule, "stores of "+ff[0]+"."+ff[1], n, 1)
		}
	}
}

func indexOf(b *ssa.BasicBlock, in ssa.Instruction) int {
	for i, x := range b.Instrs {
		if x == in {
			return i
		}
	}
	return -1
}

// ruleOnStack (G-onstack): every call of decorator.Call is guarded by a
// State() != decoratorOnStack test on the same decorator.
func ruleOnStack(rule string) RuleFn {
	return func(c *an.Ctx) {
		c.Rule(rule, "E-PATH (path-sensitive over phi values and branch facts): for every call site of decorator.Call, along every path from the lookup that produced the receiver (getValueDecorator / getGroupDecorator) to the call on which the receiver still denotes that lookup's result, the path crosses the State() != decoratorOnStack edge for that result; and no path from the == decoratorOnStack edge reaches the call with the same receiver")
		onStack, ok := digConst(c, "decoratorOnStack")
		if !ok {
			c.Und(rule, "anchor decoratorOnStack", "constant not found")
			return
		}
		n := 0
		for _, fn := range c.P.Funcs {
			for _, call := range an.InvokesOf(fn, "decorator", "Call") {
				n++
				c.See(fn)
				cons := "decorator.Call in " + an.ShortName(fn) + " is guarded by State() != decoratorOnStack"
				recv := call.Common().Value
				// candidate definitions: lookups whose #0 may flow to the receiver
				var defs []ssa.Value
				for _, o := range an.Origins(recv) {
					if ex, ok := o.(*ssa.Extract); ok {
						if k, ok := ex.Tuple.(*ssa.Call); ok && k.Common().IsInvoke() && strings.HasSuffix(k.Common().Method.Name(), "Decorator") {
							defs = append(defs, ex)
						}
					}
				}
				if len(defs) == 0 {
					c.Bad(rule, cons, "receiver "+an.Norm(recv)+" does not originate from a getValueDecorator/getGroupDecorator lookup", call, nil)
					continue
				}
				okAll := true
				for _, d := range defs {
					stateIs := func(f an.Fact, op string) bool {
						// a boolean predicate method of the decorator interface whose every implementation
						// returns exactly `n.state == decoratorOnStack` (or !=) is the same test
						if k, isCall := f.Cond.(*ssa.Call); isCall && k.Common().IsInvoke() && k.Common().Value == d {
							if sop, ok := onStackPredicate(c, k.Common().Method.Name(), onStack); ok {
								if f.Neg {
									sop = map[string]string{"==": "!=", "!=": "=="}[sop]
								}
								return sop == op
							}
							return false
						}
						b, ok := f.Cond.(*ssa.BinOp)
						if !ok {
							return false
						}
						k, ok := b.X.(*ssa.Call)
						if !ok || !k.Common().IsInvoke() || k.Common().Method.Name() != "State" || k.Common().Value != d {
							return false
						}
						return f.S == "("+an.Norm(b.X)+" "+op+" "+onStack+")"
					}
					ne := an.EdgesWhere(fn, func(f an.Fact) bool { return stateIs(f, "!=") })
					eq := an.EdgesWhere(fn, func(f an.Fact) bool { return stateIs(f, "==") })
					if len(ne) == 0 {
						c.Bad(rule, cons, "no State() test against decoratorOnStack on the looked-up decorator: a decorator that is being built is entered again (unbounded recursion)", call, nil)
						okAll = false
						continue
					}
					target := func(in ssa.Instruction, env *an.PEnv) bool {
						return in == ssa.Instruction(call) && env.Val(recv) == d
					}
					kill := func(in ssa.Instruction, env *an.PEnv) bool { return in == ssa.Instruction(d.(*ssa.Extract)) }
					defInstr := d.(*ssa.Extract)
					r1 := an.PathSens(an.PSQuery{Fn: fn, Start: defInstr, Target: target, Gates: an.NewGates().AddEdges(ne...), Kill: kill})
					if r1.Overflow {
						c.Und(rule, cons, "path-sensitive exploration exceeded its state bound")
						okAll = false
						continue
					}
					if r1.Found != nil {
						c.Bad(rule, cons, "a path from the decorator lookup reaches Call with the same decorator without crossing the State() != decoratorOnStack edge", call, an.BlockPath(c.P, r1.Path))
						okAll = false
						continue
					}
					for _, e := range eq {
						e := e
						r2 := an.PathSens(an.PSQuery{Fn: fn, StartEdge: &e, Target: target, Kill: kill})
						if r2.Found != nil {
							c.Bad(rule, cons, "after finding the decorator on the stack the same decorator is still called", call, an.BlockPath(c.P, r2.Path))
							okAll = false
						}
					}
				}
				if okAll {
					c.OK(rule, cons, fmt.Sprintf("%d lookup definition(s) checked path-sensitively", len(defs)), call)
				}
				// a decorator found on the stack is skipped, the search goes on with the next scope
				for _, d := range defs {
					lk := d.(*ssa.Extract).Tuple.(*ssa.Call)
					for _, l := range allLoops(fn) {
						if !l.body[lk.Block()] {
							continue
						}
						for _, e := range an.EdgesWhere(fn, func(f an.Fact) bool {
							if k, isCall := f.Cond.(*ssa.Call); isCall && k.Common().IsInvoke() && k.Common().Value == d {
								if sop, ok := onStackPredicate(c, k.Common().Method.Name(), onStack); ok {
									return (sop == "==") != f.Neg
								}
								return false
							}
							b, ok := f.Cond.(*ssa.BinOp)
							if !ok {
								return false
							}
							k, ok := b.X.(*ssa.Call)
							if !ok || !k.Common().IsInvoke() || k.Common().Method.Name() != "State" || k.Common().Value != d {
								return false
							}
							return f.S == "("+an.Norm(b.X)+" == "+onStack+")"
						}) {
							// from the on-stack edge the loop must go round again: no way out of the loop before the header
							leaves := false
							seen := map[*ssa.BasicBlock]bool{}
							stack := []*ssa.BasicBlock{e.From.Succs[e.Succ]}
							for len(stack) > 0 {
								b := stack[len(stack)-1]
								stack = stack[:len(stack)-1]
								if b == l.header || seen[b] {
									continue
								}
								seen[b] = true
								if !l.body[b] {
									leaves = true
									break
								}
								stack = append(stack, b.Succs...)
							}
							c.Check(!leaves, rule, "an on-stack decorator in "+an.ShortName(fn)+" is skipped and the search continues", "continue with the next enclosing scope", "finding the decorator on the stack ends the search: the decorators of the scopes further out are not applied, the running decorator receives the undecorated value", call, nil)
						}
					}
				}
			}
		}
		c.Floor(rule, "call sites of decorator.Call", n, 2)
	}
}

// callbackClosures finds, per executor, the deferred closure that invokes the
// Callback.
func callbackClosure(m *execModel) (*ssa.Function, *ssa.Defer) {
	for _, cl := range m.fn.AnonFuncs {
		if len(an.Sinks(cl, "Callback")) == 0 {
			continue
		}
		var def *ssa.Defer
		an.Instrs(m.fn, func(in ssa.Instruction) {
			if d, ok := in.(*ssa.Defer); ok && an.StaticCallee(d) == cl {
				def = d
			}
		})
		return cl, def
	}
	return nil, nil
}

func recoverClosure(fn *ssa.Function) (*ssa.Function, *ssa.Defer, *ssa.Call) {
	for _, cl := range fn.AnonFuncs {
		var rec *ssa.Call
		an.Instrs(cl, func(in ssa.Instruction) {
			if k, ok := in.(*ssa.Call); ok && an.CalleeName(k) == "builtin recover" {
				rec = k
			}
		})
		if rec == nil {
			continue
		}
		var def *ssa.Defer
		an.Instrs(fn, func(in ssa.Instruction) {
			if d, ok := in.(*ssa.Defer); ok && an.StaticCallee(d) == cl {
				def = d
			}
		})
		return cl, def, rec
	}
	return nil, nil, nil
}

// namedResultCell returns the Alloc of the executor's named error result.
func namedResultCell(fn *ssa.Function) *ssa.Alloc {
	var cell *ssa.Alloc
	an.Instrs(fn, func(in ssa.Instruction) {
		ret, ok := in.(*ssa.Return)
		if !ok || len(ret.Results) != 1 {
			return
		}
		if ld, ok := ret.Results[0].(*ssa.UnOp); ok && ld.Op == token.MUL {
			if al, ok := ld.X.(*ssa.Alloc); ok {
				cell = al
			}
		}
	})
	return cell
}

func freeVarRoot(v ssa.Value) ssa.Value {
	for i := 0; i < 8; i++ {
		switch x := v.(type) {
		case *ssa.UnOp:
			if x.Op == token.MUL {
				v = x.X
				continue
			}
		case *ssa.FreeVar:
			// find binding
			fn := x.Parent()
			par := fn.Parent()
			idx := -1
			for i, fv := range fn.FreeVars {
				if fv == x {
					idx = i
				}
			}
			var b ssa.Value
			if par != nil {
				an.Instrs(par, func(in ssa.Instruction) {
					if mc, ok := in.(*ssa.MakeClosure); ok && mc.Fn == fn && idx >= 0 && idx < len(mc.Bindings) {
						b = mc.Bindings[idx]
					}
				})
			}
			if b == nil {
				return v
			}
			v = b
			continue
		}
		return v
	}
	return v
}

// ruleCallback (M-cb, C20).
func ruleCallback(rule string) RuleFn {
	return func(c *an.Ctx) {
		c.Rule(rule, "M-cb per executor with a callback field: the Callback is called only inside a closure used only by one defer; that defer is dominated by the success edge of BuildList and by the not-done edge of the flag, is not in a loop, is guarded by callback != nil, and every path from it to a function exit passes the user-function call (fires exactly when the function is executed); the recover defer is registered after it (runs first, so the callback sees PanicError); inside the closure the called value is the node's own callback, Error is read from the executor's named error result (final value), Name is built from the node's own location, Runtime is clock().Since(start) where start = clock().Now() is evaluated after BuildList and no call that can reach an executor lies between Now() and the user-function call")
		nCB := 0
		ms := models(c, rule)
		execSet := map[*ssa.Function]bool{}
		for _, m := range ms {
			execSet[m.fn] = true
		}
		for _, m := range ms {
			if m.kind == "invoke" {
				continue
			}
			pre := m.name + ": "
			cl, def := callbackClosure(m)
			if cl == nil {
				c.Bad(rule, pre+"callback is invoked from a deferred closure", "no closure of the executor calls a Callback: registered callbacks never fire", m.sink, nil)
				continue
			}
			nCB++
			c.See(cl)
			// Callback sinks only in such closures
			if len(an.Sinks(m.fn, "Callback")) > 0 {
				c.Bad(rule, pre+"callback is invoked only from the deferred closure", "a Callback is called directly in the executor body", an.Sinks(m.fn, "Callback")[0], nil)
			}
			if def == nil {
				c.BadAt(rule, pre+"callback closure is deferred", "the closure calling the Callback is not the operand of a defer", c.P.Pos(cl.Pos()), nil)
				continue
			}
			if m.build == nil {
				continue
			}
			chk := func(cons string, gates *an.Gates, msg string) {
				if gates.Len() == 0 {
					c.Bad(rule, pre+cons, "no such guard in the executor", def, nil)
					return
				}
				if hit, path := an.PathTo(m.fn, nil, an.IsInstr(def), gates); hit != nil {
					c.Bad(rule, pre+cons, msg, def, an.BlockPath(c.P, path))
				} else {
					c.OK(rule, pre+cons, "dominated", def)
				}
			}
			chk("callback registered only after the arguments were built", an.NewGates().AddEdges(an.NilErrEdges(m.fn, m.build, 1)...), "the callback defer is reachable without BuildList having succeeded: it fires for functions that were never executed (unavailable dependencies)")
			chk("callback registered only when the function is not done", an.NewGates().AddEdges(notDoneEdges(m)...), "the callback defer is reachable on the cached path: it fires although the function is not executed")
			chk("callback registered only when a callback exists", an.NewGates().AddEdges(an.EdgesWhere(m.fn, an.FactIs("(p:n.callback != nil)"))...), "defer not guarded by callback != nil")
			c.Check(!an.InLoop(def), rule, pre+"callback defer is not in a loop", "straight-line", "the callback defer is in a loop: it fires more than once per execution", def, nil)
			if hit, path := an.PathTo(m.fn, def, func(i ssa.Instruction) bool { return an.IsExit(i) && i.Block().Comment != "recover" }, an.NewGates().AddInstr(m.sink)); hit != nil {
				c.Bad(rule, pre+"once registered, the function is executed before any exit", "an exit is reachable after registering the callback without executing the function: the callback fires without an execution", hit, an.BlockPath(c.P, path))
			} else {
				c.OK(rule, pre+"once registered, the function is executed before any exit", "every exit after the defer passes the call", def)
			}
			// recover defer after callback defer
			_, rdef, _ := recoverClosure(m.fn)
			if rdef != nil {
				fwd, _ := an.PathTo(m.fn, def, an.IsInstr(rdef), nil)
				back, _ := an.PathTo(m.fn, rdef, an.IsInstr(def), nil)
				c.Check(fwd != nil && back == nil, rule, pre+"recover defer is registered after the callback defer", "callback defer first", "the recover defer is registered before the callback defer: it runs after the callback, which then reports a nil error for a recovered panic", rdef, nil)
			}
			// inside the closure
			cb := an.Sinks(cl, "Callback")[0]
			c.Check(an.Norm(cb.Common().Value) == "p:n.callback", rule, pre+"the node's own callback is called", "p:n.callback", "the called value is "+an.Norm(cb.Common().Value), cb, nil)
			info := compositeOf(cb.Common().Args[0])
			if info == nil {
				c.Bad(rule, pre+"CallbackInfo literal", "argument of the callback is not a CallbackInfo literal", cb, nil)
				continue
			}
			// Error field
			errV := fieldStore(info, "Error")
			cell := namedResultCell(m.fn)
			okErr := false
			if errV != nil && cell != nil {
				if ld, ok := errV.(*ssa.UnOp); ok && ld.Op == token.MUL && freeVarRoot(ld.X) == ssa.Value(cell) {
					okErr = true
				}
			}
			c.Check(okErr, rule, pre+"CallbackInfo.Error is the final value of the executor's error result", "read from the named result inside the deferred closure", "Error is "+an.Norm(errV)+", not a read of the executor's named error result at defer time: the callback can report a stale or wrong outcome", cb, nil)
			// Name
			nameV := an.Norm(fieldStore(info, "Name"))
			okName := strings.HasPrefix(nameV, "fmt.Sprintf(")
			if okName {
				// the varargs must be location.Package and location.Name
				stores := 0
				an.Instrs(cl, func(in ssa.Instruction) {
					if st, ok := in.(*ssa.Store); ok {
						s := an.Norm(st.Val)
						if s == "iface(p:n.location.Package)" || s == "iface(p:n.location.Name)" {
							stores++
						}
					}
				})
				okName = stores == 2
			}
			c.Check(okName, rule, pre+"CallbackInfo.Name identifies the node's own function", nameV, "Name is "+nameV+" and is not built from n.location.Package and n.location.Name", cb, nil)
			// Runtime
			rt := an.Resolve(fieldStore(info, "Runtime"))
			okRT := false
			var nowCall *ssa.Call
			if k, ok := rt.(*ssa.Call); ok && k.Common().IsInvoke() && k.Common().Method.Name() == "Since" {
				a := k.Common().Args[0]
				if ld, ok := a.(*ssa.UnOp); ok && ld.Op == token.MUL {
					root := freeVarRoot(ld.X)
					if al, ok := root.(*ssa.Alloc); ok {
						if v, ok := an.CellValue(al); ok {
							if nk, ok := v.(*ssa.Call); ok && nk.Common().IsInvoke() && nk.Common().Method.Name() == "Now" && nk.Parent() == m.fn {
								nowCall = nk
								okRT = true
							}
						}
					}
				}
			}
			c.Check(okRT, rule, pre+"CallbackInfo.Runtime is clock().Since(start) with start = clock().Now() taken in the executor", an.Norm(rt), "Runtime is "+an.Norm(rt), cb, nil)
			if nowCall != nil {
				g := an.NewGates().AddEdges(an.NilErrEdges(m.fn, m.build, 1)...)
				if hit, path := an.PathTo(m.fn, nil, an.IsInstr(nowCall), g); hit != nil {
					c.Bad(rule, pre+"the clock starts after the arguments were built", "Now() is evaluated before BuildList succeeded: Runtime includes the construction of dependencies", nowCall, an.BlockPath(c.P, path))
				} else {
					c.OK(rule, pre+"the clock starts after the arguments were built", "Now() dominated by BuildList success", nowCall)
				}
				// no executor-reaching call between Now and sink
				var offender ssa.Instruction
				var via []string
				an.Instrs(m.fn, func(in ssa.Instruction) {
					call, ok := in.(*ssa.Call)
					if !ok || in == ssa.Instruction(m.sink) || in == ssa.Instruction(nowCall) || offender != nil {
						return
					}
					a, _ := an.PathTo(m.fn, nowCall, an.IsInstr(in), an.NewGates().AddInstr(m.sink))
					b, _ := an.PathTo(m.fn, in, an.IsInstr(m.sink), nil)
					if a == nil || b == nil {
						return
					}
					for _, callee := range an.CalleesAt(c.P.CHA(), call) {
						if p := an.CGReach(c.P.CHA(), callee, func(f *ssa.Function) bool { return execSet[f] }, nil); p != nil {
							offender = in
							via = p
						}
					}
				})
				c.Check(offender == nil, rule, pre+"nothing that can run other user functions lies between Now() and the call", "only cheap calls in between", "a call between Now() and the user function can execute other constructors/decorators: Runtime includes them", offender, via)
			}
		}
		c.Floor(rule, "executors with callbacks", nCB, 2)
		// option plumbing
		type flow struct{ fn, addrSuffix, val string }
		for _, f := range []flow{
			{"(dig.withCallbackOption).applyProvideOption", "&p:po.Callback", "p:o.callback"},
			{"(dig.withCallbackOption).apply", "&p:do.Callback", "p:o.callback"},
			{"(*dig.Scope).provide", ".Callback", "p:opts.Callback"},
			{"dig.newConstructorNode", ".callback", "p:opts.Callback"},
			{"dig.newDecoratorNode", ".callback", "p:opts.Callback"},
			{"dig.WithProviderCallback", ".callback", "p:callback"},
			{"dig.WithDecoratorCallback", ".callback", "p:callback"},
		} {
			fn := c.Fn(rule, f.fn)
			if fn == nil {
				continue
			}
			found := false
			an.Instrs(fn, func(in ssa.Instruction) {
				if st, ok := in.(*ssa.Store); ok && strings.HasSuffix(an.Norm(st.Addr), f.addrSuffix) && an.Norm(st.Val) == f.val {
					found = true
				}
			})
			c.Check(found, rule, "option plumbing: "+f.fn+" forwards the callback", f.val+" -> "+f.addrSuffix, "the callback given by the user does not reach the node ("+f.val+" is not stored into "+f.addrSuffix+")", nil, nil)
		}
	}
}

// ruleRecover (G-recover, C13).
func ruleRecover(rule string) RuleFn {
	return func(c *an.Ctx) {
		c.Rule(rule, "every recover() in the module sits in a closure of an executor, deferred under the true edge of a recoverFromPanics test and before the user-function call; under recover() != nil it stores PanicError{Panic: <that recover value>} into the executor's named error result; there is no other recover() (without the option panics propagate)")
		execs := map[*ssa.Function]*execModel{}
		for _, m := range models(c, rule) {
			execs[m.fn] = m
		}
		n := 0
		covered := map[*ssa.Function]bool{}
		for _, fn := range c.P.Funcs {
			an.Instrs(fn, func(in ssa.Instruction) {
				k, ok := in.(*ssa.Call)
				if !ok || an.CalleeName(k) != "builtin recover" {
					return
				}
				n++
				cons := "recover() in " + an.ShortName(fn)
				par := fn.Parent()
				m := execs[par]
				if par == nil || m == nil {
					c.Bad(rule, cons, "recover() outside a closure of an executor: panics are swallowed regardless of RecoverFromPanics", k, nil)
					return
				}
				covered[par] = true
				var def *ssa.Defer
				an.Instrs(par, func(i ssa.Instruction) {
					if d, ok := i.(*ssa.Defer); ok && an.StaticCallee(d) == fn {
						def = d
					}
				})
				if def == nil {
					c.Bad(rule, cons, "closure is not deferred", k, nil)
					return
				}
				edges := an.BoolEdges(par, func(v ssa.Value) bool { return strings.HasSuffix(an.Norm(v), ".recoverFromPanics") }, true)
				if hit, path := an.PathTo(par, nil, an.IsInstr(def), an.NewGates().AddEdges(edges...)); hit != nil || len(edges) == 0 {
					c.Bad(rule, cons, "the recover defer is registered without recoverFromPanics being true: panics are swallowed although the option is off", def, an.BlockPath(c.P, path))
					return
				}
				if hit, _ := an.PathTo(par, def, an.IsInstr(m.sink), nil); hit == nil {
					c.Bad(rule, cons, "the recover defer is registered after the user-function call", def, nil)
					return
				}
				// every path from the recoverFromPanics-true edge to the sink passes the defer
				for _, e := range edges {
					e := e
					tgt := e.From.Succs[e.Succ].Instrs[0]
					if tgt != ssa.Instruction(def) {
						if hit, path := an.PathTo(par, tgt, an.IsInstr(m.sink), an.NewGates().AddInstr(def)); hit != nil && tgt.Block() != def.Block() {
							c.Bad(rule, cons, "with recoverFromPanics on, a path reaches the user function without registering the recover defer", m.sink, an.BlockPath(c.P, path))
							return
						}
					}
				}
				// store PanicError into named result
				cell := namedResultCell(par)
				okStore := false
				okNil := false
				an.Instrs(fn, func(i ssa.Instruction) {
					st, ok := i.(*ssa.Store)
					if !ok || freeVarRoot(st.Addr) != ssa.Value(cell) {
						return
					}
					al := compositeOf(st.Val)
					if al == nil || !an.IsDigNamed(al.Type(), "PanicError") {
						return
					}
					if an.Resolve(fieldStore(al, "Panic")) != ssa.Value(k) {
						return
					}
					// "did it panic": recover() != nil, or - recover() returns nil for panic(nil) in programs built with
					// GODEBUG=panicnil=1, the default for a main module that declares go <= 1.20 - the user function
					// did not return: a captured boolean that is set only after the call, on every normal way out of it
					rec := an.EdgesWhere(fn, an.FactIs("(recover() != nil)"))
					notReturned := an.EdgesWhere(fn, func(ft an.Fact) bool {
						v := ft.Cond
						neg := ft.Neg
						for {
							if u, ok := v.(*ssa.UnOp); ok && u.Op == token.NOT {
								v, neg = u.X, !neg
								continue
							}
							break
						}
						ld, ok := v.(*ssa.UnOp)
						if !ok || ld.Op != token.MUL || !neg {
							return false
						}
						if _, isFV := ld.X.(*ssa.FreeVar); !isFV {
							return false
						}
						al, ok := freeVarRoot(ld.X).(*ssa.Alloc)
						return ok && setOnlyAfterReturn(par, al, m.sink)
					})
					g := an.NewGates().AddEdges(rec...).AddEdges(notReturned...)
					if hit, _ := an.PathTo(fn, nil, an.IsInstr(st), g); hit == nil && len(rec) > 0 {
						okStore = true
					}
					// the nil case: from recover() == nil the store is still reachable (under "did not return")
					for _, e := range an.EdgesWhere(fn, an.FactIs("(recover() == nil)", "!(recover() != nil)")) {
						first := e.From.Succs[e.Succ].Instrs[0]
						if first == ssa.Instruction(st) {
							okNil = true
						} else if hit, _ := an.PathTo(fn, first, an.IsInstr(st), nil); hit != nil && len(notReturned) > 0 {
							okNil = true
						}
					}
				})
				c.Check(okStore, rule, cons, "deferred under recoverFromPanics, before the call, stores PanicError{Panic: recover()} into the error result", "the closure does not store PanicError{Panic: <recover value>} into the executor's named error result under recover() != nil (or under a flag that says the function did not return)", k, nil)
				c.Check(okNil, rule, "panic(nil) in "+an.ShortName(par)+" is a panic", "a nil recover() value counts as a panic when the function did not return", "the handler decides by recover() != nil alone: where recover() returns nil for panic(nil) (GODEBUG=panicnil=1, the default for a main module declaring go <= 1.20 - this module declares go 1.20) a user function that panics with nil is taken to have returned normally: its results are invalid reflect.Values, a group member vanishes without an error, Invoke of a function that panicked returns nil, and the callback reports success", k, nil)
			})
		}
		c.Floor(rule, "recover() sites", n, 3)
		for f, m := range execs {
			if !covered[f] {
				c.BadAt(rule, m.name+" recovers panics when RecoverFromPanics is set", "executor has no recover closure: with the option a panic in this user function is not converted to PanicError", c.P.Pos(f.Pos()), nil)
			}
		}
		// PanicError shape (type level)
		pe := c.P.NamedType("PanicError")
		if pe == nil {
			c.Und(rule, "anchor PanicError", "type not found")
			return
		}
		ms := types.NewMethodSet(types.NewPointer(pe))
		hasWM := ms.Lookup(c.P.Dig.Pkg, "writeMessage") != nil
		hasUnwrap := ms.Lookup(c.P.Dig.Pkg, "Unwrap") != nil
		c.Check(!hasWM && !hasUnwrap, "X-panicshape", "PanicError is not a dig.Error and wraps nothing", "no writeMessage, no Unwrap", "PanicError has writeMessage/Unwrap: RootCause would not return it as the root cause / it would satisfy errors.As(dig.Error)", nil, nil)
		c.Rule("X-panicshape", "type-level: PanicError (value and pointer) has neither writeMessage (so it is not a dig.Error) nor Unwrap (so it is the root cause)")
	}
}

// derivesFromSinkResult: v is <sink>[i].Interface().(error)#0.
func derivesFromSinkResult(v ssa.Value, sink ssa.Value) bool {
	v = an.Resolve(v)
	ex, ok := v.(*ssa.Extract)
	if !ok || ex.Index != 0 {
		return false
	}
	ta, ok := ex.Tuple.(*ssa.TypeAssert)
	if !ok {
		return false
	}
	k, ok := ta.X.(*ssa.Call)
	if !ok || an.CalleeName(k) != "(reflect.Value).Interface" {
		return false
	}
	r := an.Resolve(k.Common().Args[0])
	if ld, ok := r.(*ssa.UnOp); ok && ld.Op == token.MUL {
		if ia, ok := ld.X.(*ssa.IndexAddr); ok {
			return an.Resolve(ia.X) == sink
		}
	}
	if ix, ok := r.(*ssa.Index); ok {
		return an.Resolve(ix.X) == sink
	}
	return false
}

// ruleUserErr (T-usererr, C13).
func ruleUserErr(rule string) RuleFn {
	return func(c *an.Ctx) {
		c.Rule(rule, "E-FLOW: every Return of Scope.Invoke that lies after the user-function call returns either the constant nil or the very interface value asserted out of the last result of that call (returned unchanged); a non-nil such value is never dropped: the nil return after the call is reachable only over the ==nil / not-an-error edges")
		for _, m := range models(c, rule) {
			if m.kind != "invoke" {
				continue
			}
			sv := m.sink.(ssa.Value)
			n := 0
			var userErr ssa.Value
			an.Instrs(m.fn, func(in ssa.Instruction) {
				ret, ok := in.(*ssa.Return)
				if !ok || in.Block().Comment == "recover" {
					return
				}
				if hit, _ := an.PathTo(m.fn, m.sink, an.IsInstr(ret), nil); hit == nil {
					return
				}
				n++
				v := an.Resolve(ret.Results[0])
				cons := fmt.Sprintf("%s: return #%d after the call", m.name, n)
				if k, ok := v.(*ssa.Const); ok && k.IsNil() {
					c.OK(rule, cons, "nil", ret)
					return
				}
				if derivesFromSinkResult(v, sv) {
					userErr = v
					c.OK(rule, cons, "the function's own error value, unchanged", ret)
					return
				}
				c.Bad(rule, cons, "Invoke returns "+an.Norm(v)+" after calling the function: not the function's error unchanged", ret, nil)
			})
			c.Floor(rule, "returns after the user-function call", n, 2)
			if userErr == nil {
				c.Bad(rule, m.name+": the function's error is returned", "no return of the function's own error value: errors of the invoked function are dropped", m.sink, nil)
			} else {
				// ... and it is the LAST result
				last := regexp.MustCompile(`\[\(len\(.*\) - 1\)\]\.Interface\(\)\.\(error\)#0$`).MatchString(an.Norm(userErr))
				c.Check(last, rule, m.name+": the error is taken from the function's last result", "returned[len(returned)-1]", "the returned error is "+an.Norm(userErr)+", not the last result of the function: the error of func() (T, error) is ignored", m.sink, nil)
				// nil returns after the sink must not be reachable across the err != nil edge
				ne := an.EdgesWhere(m.fn, an.FactIs("("+an.Norm(userErr)+" != nil)"))
				bad := false
				for _, e := range ne {
					tgt := e.From.Succs[e.Succ].Instrs[0]
					hit, _ := an.PathTo(m.fn, tgt, func(i ssa.Instruction) bool {
						r, ok := i.(*ssa.Return)
						if !ok {
							return false
						}
						k, isC := an.Resolve(r.Results[0]).(*ssa.Const)
						return isC && k.IsNil()
					}, nil)
					if r, ok := tgt.(*ssa.Return); ok {
						if k, isC := an.Resolve(r.Results[0]).(*ssa.Const); isC && k.IsNil() {
							hit = r
						}
					}
					if hit != nil {
						bad = true
					}
				}
				c.Check(!bad && len(ne) > 0, rule, m.name+": a non-nil function error is never replaced by nil", "non-nil edge leads only to returning it", "a nil return is reachable although the function returned a non-nil error", m.sink, nil)
			}
		}
	}
}

// ruleHomeView (HOME/VIEW, C01/C08).
func ruleHomeView(rule string) RuleFn {
	return func(c *an.Ctx) {
		c.Rule(rule, "HOME/VIEW: in constructorNode.Call the staged results are committed to the node's home scope (Commit(n.s)) with the very staging writer that ExtractList filled, which is a fresh stagingContainerWriter; every provider.Call call site passes OrigScope() of the very provider being called (a constructor's dependencies are resolved as seen from the scope it was provided to)")
		for _, m := range models(c, rule) {
			if m.kind != "ctor" || m.extract == nil {
				continue
			}
			pre := m.name + ": "
			w := an.Resolve(m.extract.Common().Args[1])
			wn := an.Norm(w)
			c.Check(wn == "iface(dig.newStagingContainerWriter())", rule, pre+"results are extracted into a fresh staging writer", wn, "ExtractList writes into "+wn+" instead of a fresh stagingContainerWriter: values of a failing constructor reach the scope before its error is seen", m.extract, nil)
			commits := an.CallsNamed(m.fn, "(*dig.stagingContainerWriter).Commit")
			if len(commits) != 1 {
				c.Bad(rule, pre+"staged results are committed once", fmt.Sprintf("%d Commit calls", len(commits)), m.extract, nil)
				continue
			}
			cm := commits[0]
			a := cm.Common().Args
			okW := "iface("+an.Norm(a[0])+")" == wn
			c.Check(okW, rule, pre+"the committed writer is the one ExtractList filled", an.Norm(a[0]), "Commit is called on "+an.Norm(a[0])+", not on the writer passed to ExtractList", cm, nil)
			c.Check(an.Norm(a[1]) == "iface(p:n.s)", rule, pre+"results are committed to the constructor's home scope", "Commit(n.s)", "results are committed to "+an.Norm(a[1])+" instead of the home scope n.s: values become visible in the wrong scope", cm, nil)
			g := an.NewGates().AddEdges(an.NilErrEdges(m.fn, m.extract, -1)...)
			if hit, path := an.PathTo(m.fn, nil, an.IsInstr(cm), g); hit != nil || g.Len() == 0 {
				c.Bad(rule, pre+"commit happens only after extraction succeeded", "Commit reachable without crossing the nil edge of ExtractList's error: values returned alongside an error are delivered", cm, an.BlockPath(c.P, path))
			} else {
				c.OK(rule, pre+"commit happens only after extraction succeeded", "dominated by err==nil", cm)
			}
		}
		n := 0
		for _, fn := range c.P.Funcs {
			for _, call := range an.InvokesOf(fn, "provider", "Call") {
				n++
				recv := an.Norm(call.Common().Value)
				arg := an.Norm(call.Common().Args[0])
				c.Check(arg == "iface("+recv+".OrigScope())", rule, "provider.Call in "+an.ShortName(fn)+" passes the provider's own original scope", arg, "provider.Call receives "+arg+" rather than OrigScope() of the provider being called: its dependencies are resolved from the wrong scope", call, nil)
			}
		}
		c.Floor(rule, "provider.Call sites", n, 2)
	}
}

// ruleStaging (C07/C12): results of a failed execution never reach a scope and
// the in-progress marker never survives an exit.
func ruleStaging(rule string) RuleFn {
	return func(c *an.Ctx) {
		c.Rule(rule, "E-ATOM (executors): for every call of resultList.ExtractList either the writer is a fresh stagingContainerWriter (committed only on success, see HOME/VIEW) or ExtractList itself cannot return an error after having called result.Extract (errors are inspected before anything is written); the transient marker decoratorNode.state = decoratorOnStack is reset by a deferred closure, registered before any further call, that stores decoratorReady unless the state is decoratorCalled - so no error return and no panic leaves the decorator marked as running")
		ex := c.Fn(rule, "(dig.resultList).ExtractList")
		if ex == nil {
			return
		}
		// does ExtractList write before it may fail?
		var offending ssa.Instruction
		var offPath []string
		an.Instrs(ex, func(in ssa.Instruction) {
			call, ok := in.(ssa.CallInstruction)
			if !ok || offending != nil {
				return
			}
			cc := call.Common()
			if !(cc.IsInvoke() && cc.Method.Name() == "Extract") {
				return
			}
			for _, x := range errorExits(ex) {
				if hit, path := an.PathTo(ex, in, an.IsInstr(x), nil); hit != nil {
					offending = in
					offPath = an.BlockPath(c.P, path)
				}
			}
		})
		n := 0
		for _, fn := range c.P.Funcs {
			for _, k := range an.CallsNamed(fn, "(dig.resultList).ExtractList") {
				n++
				w := an.Norm(an.Resolve(k.Common().Args[1]))
				cons := "ExtractList in " + an.ShortName(fn) + " cannot deliver values of a failed function"
				if w == "iface(dig.newStagingContainerWriter())" {
					c.OK(rule, cons, "writes go to a fresh staging writer", k)
					continue
				}
				if offending == nil {
					c.OK(rule, cons, "ExtractList inspects the error results before it writes anything", k)
					continue
				}
				c.Bad(rule, cons, "results are extracted straight into "+w+" and ExtractList can return the function's error after earlier results were already written: values returned alongside an error are delivered to later consumers", k, offPath)
			}
		}
		c.Floor(rule, "ExtractList call sites", n, 2)
		// transient marker
		onStack, ok1 := digConst(c, "decoratorOnStack")
		ready, ok2 := digConst(c, "decoratorReady")
		called, ok3 := digConst(c, "decoratorCalled")
		if !ok1 || !ok2 || !ok3 {
			c.Und(rule, "anchor decorator states", "constants not found")
			return
		}
		fn := c.Fn(rule, "(*dig.decoratorNode).Call")
		if fn == nil {
			return
		}
		nm := 0
		for _, st := range an.StoresToField(fn, "decoratorNode", "state") {
			if an.Norm(st.Val) != onStack {
				continue
			}
			nm++
			cons := "(*dig.decoratorNode).Call: the in-progress marker is cleared on every exit that is not a success"
			// a deferred closure that resets
			var resetDefer *ssa.Defer
			an.Instrs(fn, func(in ssa.Instruction) {
				d, ok := in.(*ssa.Defer)
				if !ok {
					return
				}
				cl := an.StaticCallee(d)
				if cl == nil || cl.Parent() != fn {
					return
				}
				for _, rs := range an.StoresToField(cl, "decoratorNode", "state") {
					if an.Norm(rs.Val) != ready || an.Norm(rs.Addr) != "&p:n.state" {
						continue
					}
					// not applied when Called: guarded by state != Called
					g := an.NewGates().AddEdges(an.EdgesWhere(cl, an.FactIs("(p:n.state != "+called+")"))...)
					g2 := an.NewGates().AddEdges(an.EdgesWhere(cl, an.FactIs("(p:n.state == "+onStack+")"))...)
					h1, _ := an.PathTo(cl, nil, an.IsInstr(rs), g)
					h2, _ := an.PathTo(cl, nil, an.IsInstr(rs), g2)
					guarded := (g.Len() > 0 && h1 == nil) || (g2.Len() > 0 && h2 == nil)
					if !guarded {
						continue
					}
					// and applied whenever not Called: no exit of the closure on the != Called edge without the store
					resetDefer = d
				}
			})
			if resetDefer == nil {
				c.Bad(rule, cons, "state is set to decoratorOnStack and only ever advanced on success: after a failed or panicking run the decorator stays 'on stack', is silently skipped by every later resolution and never applied again", st, nil)
				continue
			}
			// registered before any call that follows the marker (or before the marker)
			firstCall := func(i ssa.Instruction) bool {
				if i == ssa.Instruction(resetDefer) {
					return false
				}
				switch i.(type) {
				case *ssa.Call, *ssa.Return, *ssa.Panic:
					return true
				}
				return false
			}
			hit, path := an.PathTo(fn, st, firstCall, an.NewGates().AddInstr(resetDefer))
			pre, _ := an.PathTo(fn, nil, an.IsInstr(st), an.NewGates().AddInstr(resetDefer))
			if hit != nil && pre != nil {
				c.Bad(rule, cons, "a call or exit follows the marker store before the resetting defer is registered", hit, an.BlockPath(c.P, path))
			} else {
				c.OK(rule, cons, "deferred reset registered before anything can fail", resetDefer)
			}
		}
		c.Floor(rule, "in-progress marker stores", nm, 1)
	}
}

// onStackPredicate reports whether every implementation (in the module) of
// the decorator-interface method `name` is a pure predicate with the single
// result `recv.state == decoratorOnStack` or `recv.state != decoratorOnStack`;
// it returns the operator.
func onStackPredicate(c *an.Ctx, name, onStack string) (string, bool) {
	op := ""
	found := 0
	for _, t := range c.P.Implementers("decorator") {
		var fn *ssa.Function
		for _, f := range c.P.Funcs {
			if f.Name() == name && f.Signature.Recv() != nil && f.Parent() == nil && types.Identical(deref(f.Signature.Recv().Type()), deref(t)) {
				fn = f
			}
		}
		if fn == nil {
			return "", false
		}
		found++
		nret := 0
		good := true
		an.Instrs(fn, func(in ssa.Instruction) {
			switch x := in.(type) {
			case *ssa.Return:
				nret++
				if len(x.Results) != 1 {
					good = false
					return
				}
				b, ok := x.Results[0].(*ssa.BinOp)
				if !ok || (b.Op != token.EQL && b.Op != token.NEQ) {
					good = false
					return
				}
				l, r := an.Norm(b.X), an.Norm(b.Y)
				if !(strings.HasSuffix(l, ".state") && strings.HasPrefix(l, "p:") && r == onStack) {
					good = false
					return
				}
				o := b.Op.String()
				if op != "" && op != o {
					good = false
				}
				op = o
			case *ssa.Store, *ssa.MapUpdate, ssa.CallInstruction:
				good = false
			}
		})
		if !good || nret != 1 {
			return "", false
		}
	}
	return op, found > 0 && op != ""
}

func deref(t types.Type) types.Type {
	if p, ok := t.(*types.Pointer); ok {
		return p.Elem()
	}
	return t
}

// setOnlyAfterReturn: the local boolean al of executor par starts false and becomes true only after the
// user-function call `sink` returned: every store is a constant, no store of true is reachable without passing the
// sink, and every normal return after the sink passes a store of true.
func setOnlyAfterReturn(par *ssa.Function, al *ssa.Alloc, sink ssa.Instruction) bool {
	var trues []ssa.Instruction
	ok := true
	for _, r := range an.Referrers(al) {
		st, isStore := r.(*ssa.Store)
		if !isStore || st.Addr != ssa.Value(al) {
			continue
		}
		k, isConst := st.Val.(*ssa.Const)
		if !isConst || k.Value == nil {
			ok = false
			continue
		}
		if k.Value.String() == "true" {
			if st.Parent() != par {
				ok = false
			}
			trues = append(trues, st)
		}
	}
	if !ok || len(trues) == 0 || sink == nil {
		return false
	}
	for _, t := range trues {
		if hit, _ := an.PathTo(par, nil, an.IsInstr(t), an.NewGates().AddInstr(sink)); hit != nil {
			return false
		}
	}
	normalReturn := func(i ssa.Instruction) bool {
		_, isRet := i.(*ssa.Return)
		return isRet && i.Block().Comment != "recover"
	}
	hit, _ := an.PathTo(par, sink, normalReturn, an.NewGates().AddInstr(trues...))
	return hit == nil
}
