package rules

import (
	"fmt"
	"go/types"
	"os"
	"regexp"
	"sort"
	"strings"

	"golang.org/x/tools/go/ssa"

	"verif/checker/internal/an"
)

// E-REFL: partial reflect operations must have their Kind/validity
// precondition established on every path.

type reflCtx struct {
	c     *an.Ctx
	kinds map[string]string // name -> normalised constant
	depth int
	stack map[*ssa.Function]bool
}

// atCallSites re-poses an obligation about parameter p of fn at every static
// call site of fn (the function must not be exported, have its address taken
// or be called dynamically): check(caller, site, argument) must hold at all of
// them. This is how an obligation travels through an extracted helper.
func (r *reflCtx) atCallSites(fn *ssa.Function, p *ssa.Parameter, check func(caller *ssa.Function, site ssa.Instruction, arg ssa.Value) (bool, string)) (bool, string) {
	if fn.Parent() != nil {
		return false, ""
	}
	if o := fn.Object(); o != nil && o.Exported() {
		return false, ""
	}
	if r.stack == nil {
		r.stack = map[*ssa.Function]bool{}
	}
	if r.stack[fn] || len(r.stack) > 3 {
		return false, ""
	}
	r.stack[fn] = true
	defer delete(r.stack, fn)
	idx := -1
	for i, q := range fn.Params {
		if q == p {
			idx = i
		}
	}
	if idx < 0 {
		return false, ""
	}
	n := 0
	ok := true
	how := ""
	for _, g := range r.c.P.Funcs {
		an.Instrs(g, func(in ssa.Instruction) {
			for _, op := range in.Operands(nil) {
				if *op != ssa.Value(fn) {
					continue
				}
				k, isCall := in.(ssa.CallInstruction)
				if !isCall || k.Common().Value != ssa.Value(fn) {
					ok = false
					continue
				}
				n++
				good, h := check(g, in, k.Common().Args[idx])
				if !good {
					ok = false
				}
				how = h
			}
		})
	}
	if n == 0 || !ok {
		return false, ""
	}
	return true, fmt.Sprintf("established at all %d call site(s) of %s (%s)", n, an.ShortName(fn), how)
}

func newReflCtx(c *an.Ctx) *reflCtx {
	r := &reflCtx{c: c, kinds: map[string]string{}}
	if rp := c.P.SSA.ImportedPackage("reflect"); rp != nil {
		for _, k := range []string{"Array", "Chan", "Func", "Interface", "Map", "Ptr", "Pointer", "Slice", "String", "Struct", "UnsafePointer"} {
			if o, ok := rp.Pkg.Scope().Lookup(k).(*types.Const); ok {
				r.kinds[k] = o.Val().String()
			}
		}
	}
	return r
}

// contracts: function -> parameter name -> required kinds. "dyn" contracts
// speak about the dynamic type of an interface{} parameter (non-nil, of that
// kind); "type" contracts about a reflect.Type parameter; "value" about a
// reflect.Value parameter.
type contract struct {
	param string
	mode  string // "dyn", "type", "value"
	kinds []string
}

var contracts = map[string][]contract{
	"dig.newParamList":                    {{"ctype", "type", []string{"Func"}}},
	"dig.newResultList":                   {{"ctype", "type", []string{"Func"}}},
	"dig.newParamObject":                  {{"t", "type", []string{"Struct"}}},
	"dig.newResultObject":                 {{"t", "type", []string{"Struct"}}},
	"dig.newConstructorNode":              {{"ctor", "dyn", []string{"Func"}}},
	"dig.newDecoratorNode":                {{"dcor", "dyn", []string{"Func"}}},
	"(*dig.Scope).provide":                {{"ctor", "dyn", []string{"Func"}}},
	"dig/internal/digreflect.InspectFunc": {{"function", "dyn", []string{"Func"}}},
	"dig.dryInvoker":                      {{"fn", "value", []string{"Func"}}},
	"dig.defaultInvoker":                  {{"fn", "value", []string{"Func"}}},
}

// field invariants of IR types: the Type field's kind.
var fieldKind = map[string]string{
	"paramGroupedSlice.Type": "Slice",
	"paramObject.Type":       "Struct",
	"resultObject.Type":      "Struct",
}

func (r *reflCtx) guardEdges(fn *ssa.Function, expr string, kinds []string) []an.Edge {
	var texts []string
	for _, k := range kinds {
		if v, ok := r.kinds[k]; ok {
			texts = append(texts, "("+expr+".Kind() == "+v+")")
		}
	}
	return an.EdgesWhere(fn, an.FactIs(texts...))
}

func dominated(fn *ssa.Function, at ssa.Instruction, edges []an.Edge) bool {
	if len(edges) == 0 {
		return false
	}
	hit, _ := an.PathTo(fn, nil, an.IsInstr(at), an.NewGates().AddEdges(edges...))
	return hit == nil
}

func contains(xs []string, x string) bool {
	for _, y := range xs {
		if y == x {
			return true
		}
	}
	return false
}

func subset(have []string, want []string) bool {
	for _, h := range have {
		if !contains(want, h) {
			return false
		}
	}
	return len(have) > 0
}

var reAsElem = regexp.MustCompile(`\.(As|ResultAs)\[[^\]]*\]$`)

// dynHasKind: the interface{} value a is non-nil and its dynamic type has one
// of the kinds, at instruction `at` of fn.
func (r *reflCtx) dynHasKind(fn *ssa.Function, at ssa.Instruction, a ssa.Value, kinds []string) (bool, string) {
	a = an.Resolve(a)
	n := an.Norm(a)
	// local guards
	nn := an.EdgesWhere(fn, an.FactIs("(reflect.TypeOf("+n+") != nil)"))
	kk := r.guardEdges(fn, "reflect.TypeOf("+n+")", kinds)
	if dominated(fn, at, nn) && dominated(fn, at, kk) {
		return true, "local guard: TypeOf(" + n + ") != nil and Kind() in " + strings.Join(kinds, "|")
	}
	// contract parameter
	if p, ok := a.(*ssa.Parameter); ok {
		for _, ct := range contracts[an.ShortName(fn)] {
			if ct.param == an.CanonParam(p) && ct.mode == "dyn" && subset(ct.kinds, kinds) {
				return true, "contract of " + an.ShortName(fn) + ": " + p.Name() + " is a non-nil " + strings.Join(ct.kinds, "|")
			}
		}
		// closures see the parent's parameters
	}
	if fv := fn.Parent(); fv != nil {
		if p, ok := a.(*ssa.Parameter); ok && p.Parent() == fv {
			for _, ct := range contracts[an.ShortName(fv)] {
				if ct.param == an.CanonParam(p) && ct.mode == "dyn" && subset(ct.kinds, kinds) {
					return true, "contract of " + an.ShortName(fv)
				}
			}
			// or the parent's local guards dominate the closure's creation
			var mk ssa.Instruction
			an.Instrs(fv, func(in ssa.Instruction) {
				if mc, ok := in.(*ssa.MakeClosure); ok && mc.Fn == fn {
					mk = in
				}
			})
			if mk != nil {
				return r.dynHasKind(fv, mk, a, kinds)
			}
		}
	}
	if p, ok := a.(*ssa.Parameter); ok && p.Parent() == fn {
		if good, how := r.atCallSites(fn, p, func(g *ssa.Function, site ssa.Instruction, arg ssa.Value) (bool, string) {
			return r.dynHasKind(g, site, arg, kinds)
		}); good {
			return true, how
		}
	}
	// node fields set under contract
	if n == "p:n.ctor" || n == "p:n.dcor" {
		if contains(kinds, "Func") {
			return true, "field invariant: " + n + " is the function validated at registration (stored only by its constructor under that function's contract)"
		}
	}
	// elements of the validated As list are non-nil pointers (to interfaces)
	if reAsElem.MatchString(n) && contains(kinds, "Ptr") {
		return true, "field invariant: elements of As were validated by provideOptions.Validate (non-nil pointer to interface)"
	}
	return false, "dynamic type of " + n + " is not established"
}

// typeHasKind: the reflect.Type value v has one of the kinds at `at`.
func (r *reflCtx) typeHasKind(fn *ssa.Function, at ssa.Instruction, v ssa.Value, kinds []string) (bool, string) {
	r.depth++
	defer func() { r.depth-- }()
	if r.depth > 6 {
		return false, "too deep"
	}
	v = an.Resolve(v)
	n := an.Norm(v)
	if dominated(fn, at, r.guardEdges(fn, n, kinds)) {
		return true, "local guard: " + n + ".Kind() in " + strings.Join(kinds, "|")
	}
	if r.kindFactDominates(fn, at, n, kinds) {
		return true, "local guard (path-sensitive over correlated tests): " + n + ".Kind() in " + strings.Join(kinds, "|")
	}
	if contains(kinds, "Struct") {
		pred := an.EdgesWhere(fn, an.FactIs("dig.IsIn(iface("+n+"))", "dig.IsOut(iface("+n+"))", "dig.IsIn("+n+")", "dig.IsOut("+n+")"))
		if dominated(fn, at, pred) {
			return true, "predicate implication: IsIn/IsOut(" + n + ") true implies a struct (embedsType returns true only for the embedded struct type itself or a struct embedding it)"
		}
	}
	switch x := v.(type) {
	case *ssa.Parameter:
		for _, ct := range contracts[an.ShortName(fn)] {
			if ct.param == an.CanonParam(x) && ct.mode == "type" && subset(ct.kinds, kinds) {
				return true, "contract of " + an.ShortName(fn) + ": " + x.Name() + " is a " + strings.Join(ct.kinds, "|")
			}
		}
		if x.Parent() == fn {
			if good, how := r.atCallSites(fn, x, func(g *ssa.Function, site ssa.Instruction, arg ssa.Value) (bool, string) {
				return r.typeHasKind(g, site, arg, kinds)
			}); good {
				return true, how
			}
		}
	case *ssa.Call:
		cc := x.Common()
		name := an.CalleeName(x)
		switch {
		case name == "reflect.TypeOf":
			return r.dynHasKind(fn, at, cc.Args[0], kinds)
		case name == "(reflect.Value).Type":
			return r.valueHasKind(fn, at, cc.Args[0], kinds)
		case name == "reflect.PtrTo" || name == "reflect.PointerTo":
			if contains(kinds, "Ptr") {
				return true, "PointerTo yields a pointer type"
			}
		case name == "reflect.SliceOf":
			if contains(kinds, "Slice") {
				return true, "SliceOf yields a slice type"
			}
		case cc.IsInvoke() && cc.Method.Name() == "Elem" && an.IsNamed(cc.Value.Type(), "reflect", "Type"):
			// TypeOf(as).Elem() for a validated As element is an interface type
			inner := an.Resolve(cc.Value)
			if k, ok := inner.(*ssa.Call); ok && an.CalleeName(k) == "reflect.TypeOf" && reAsElem.MatchString(an.Norm(an.Resolve(k.Common().Args[0]))) && contains(kinds, "Interface") {
				return true, "field invariant: As elements are pointers to interfaces (provideOptions.Validate)"
			}
		}
	case *ssa.UnOp:
		// load of a global or of an IR field
		if g, ok := x.X.(*ssa.Global); ok {
			k := map[string]string{"_errType": "Interface", "_inType": "Struct", "_outType": "Struct", "_inPtrType": "Ptr", "_outPtrType": "Ptr"}[g.Name()]
			if k != "" && contains(kinds, k) {
				return true, "package-level type constant " + g.Name() + " is a " + k + " type (initialised from a type literal)"
			}
		}
		if fa, ok := x.X.(*ssa.FieldAddr); ok {
			if nt, ok := derefNamed(fa.X.Type()); ok {
				key := nt.Obj().Name() + "." + an.FieldName(fa.X.Type(), fa.Field)
				if k, ok := fieldKind[key]; ok && contains(kinds, k) {
					return true, "field invariant: " + key + " is a " + k + " type (established where the value is constructed, rule E-REFL/inv)"
				}
			}
		}
	case *ssa.Field:
		if nt, ok := derefNamed(x.X.Type()); ok {
			key := nt.Obj().Name() + "." + an.FieldName(x.X.Type(), x.Field)
			if k, ok := fieldKind[key]; ok && contains(kinds, k) {
				return true, "field invariant: " + key + " is a " + k + " type"
			}
		}
	}
	return false, "kind of " + n + " is not established"
}

// kindCalls lists the Kind() calls in fn whose receiver normalises to recv.
func kindCalls(fn *ssa.Function, recv string) []*ssa.Call {
	var out []*ssa.Call
	an.Instrs(fn, func(in ssa.Instruction) {
		k, ok := in.(*ssa.Call)
		if !ok {
			return
		}
		cc := k.Common()
		if cc.IsInvoke() && cc.Method.Name() == "Kind" && an.Norm(cc.Value) == recv {
			out = append(out, k)
		} else if f := an.StaticCallee(k); f != nil && f.Name() == "Kind" && len(cc.Args) == 1 && an.Norm(cc.Args[0]) == recv {
			out = append(out, k)
		}
	})
	return out
}

// kindFactDominates: on every path from entry to `at` (explored
// path-sensitively, so that a flag tested twice is consistent and conditions
// computed as values are understood) some test recv.Kind() == K (K in kinds)
// has come out true.
func (r *reflCtx) kindFactDominates(fn *ssa.Function, at ssa.Instruction, recv string, kinds []string) bool {
	kcs := kindCalls(fn, recv)
	if len(kcs) == 0 {
		return false
	}
	var keys []string
	for _, kc := range kcs {
		for _, k := range kinds {
			if v, ok := r.kinds[k]; ok {
				keys = append(keys, an.FactKeyEq(kc, v))
			}
		}
	}
	res := an.PathSens(an.PSQuery{Fn: fn, Target: func(in ssa.Instruction, env *an.PEnv) bool {
		if in != at {
			return false
		}
		for _, k := range keys {
			if env.Facts[k] {
				return false
			}
		}
		return true
	}})
	if os.Getenv("DIGDEBUG") != "" && res.Found != nil {
		fmt.Println("DEBUG kindFactDominates", an.ShortName(fn), recv, keys, an.BlockPath(r.c.P, res.Path), res.Env)
	}
	return res.Found == nil && !res.Overflow
}

// valueHasKind: the reflect.Value v is valid and has one of the kinds.
func (r *reflCtx) valueHasKind(fn *ssa.Function, at ssa.Instruction, v ssa.Value, kinds []string) (bool, string) {
	v = an.Resolve(v)
	n := an.Norm(v)
	if dominated(fn, at, r.guardEdges(fn, n, kinds)) {
		return true, "local guard on " + n
	}
	switch x := v.(type) {
	case *ssa.Parameter:
		for _, ct := range contracts[an.ShortName(fn)] {
			if ct.param == an.CanonParam(x) && ct.mode == "value" && subset(ct.kinds, kinds) {
				return true, "contract of " + an.ShortName(fn) + ": " + x.Name() + " is a " + strings.Join(ct.kinds, "|") + " value"
			}
		}
		if x.Parent() == fn {
			if good, how := r.atCallSites(fn, x, func(g *ssa.Function, site ssa.Instruction, arg ssa.Value) (bool, string) {
				return r.valueHasKind(g, site, arg, kinds)
			}); good {
				return true, how
			}
		}
	case *ssa.Extract:
		// the value half of a comma-ok lookup in a scope's value stores, used under its ok edge: what was stored
		// there came out of a user function through the invoker and is a valid reflect.Value (of any kind)
		if lk, ok := x.Tuple.(*ssa.Call); ok && x.Index == 0 && lk.Common().IsInvoke() && an.IsDigNamed(lk.Common().Value.Type(), "containerStore") &&
			strings.HasPrefix(lk.Common().Method.Name(), "getDecorated") && len(kinds) >= 10 {
			okE := an.BoolEdges(fn, func(v ssa.Value) bool {
				ex, isEx := v.(*ssa.Extract)
				return isEx && ex.Tuple == ssa.Value(lk) && ex.Index == 1
			}, true)
			if dominated(fn, at, okE) {
				return true, "found in a scope's store (ok edge): a valid value"
			}
		}
	case *ssa.Call:
		name := an.CalleeName(x)
		switch name {
		case "reflect.ValueOf":
			return r.dynHasKind(fn, at, x.Common().Args[0], kinds)
		case "reflect.New":
			if contains(kinds, "Ptr") {
				return true, "reflect.New yields a pointer value"
			}
		case "(reflect.Value).Elem":
			inner := an.Resolve(x.Common().Args[0])
			if k, ok := inner.(*ssa.Call); ok && an.CalleeName(k) == "reflect.New" {
				return r.typeHasKind(fn, at, k.Common().Args[0], kinds)
			}
		}
	}
	return false, "kind of value " + n + " is not established"
}

type reflOp struct {
	kinds []string
	onArg bool // the obligation is on argument 0 (Implements)
}

var typeOps = map[string]reflOp{
	"NumIn": {[]string{"Func"}, false}, "In": {[]string{"Func"}, false}, "IsVariadic": {[]string{"Func"}, false},
	"NumOut": {[]string{"Func"}, false}, "Out": {[]string{"Func"}, false},
	"NumField": {[]string{"Struct"}, false}, "Field": {[]string{"Struct"}, false},
	"Elem":       {[]string{"Array", "Chan", "Map", "Ptr", "Pointer", "Slice"}, false},
	"Len":        {[]string{"Array"}, false},
	"Key":        {[]string{"Map"}, false},
	"Implements": {[]string{"Interface"}, true},
}

var valueOps = map[string]reflOp{
	"Pointer": {[]string{"Chan", "Func", "Map", "Ptr", "Pointer", "Slice", "UnsafePointer"}, false},
	"Len":     {[]string{"Array", "Chan", "Map", "Slice", "String"}, false},
	"Index":   {[]string{"Array", "Slice", "String"}, false},
	"Field":   {[]string{"Struct"}, false},
	"Elem":    {[]string{"Interface", "Ptr", "Pointer"}, false},
	"Type":    {[]string{"Array", "Chan", "Func", "Interface", "Map", "Ptr", "Pointer", "Slice", "String", "Struct", "UnsafePointer"}, false},
}

// assumed sites: (function, op, receiver) -> reason. These rely on invariants
// about run-time values that the rules cannot establish; they are listed, not
// hidden.
var reflAssumed = []struct{ fn, op, recv, why string }{
	{"(dig.resultObject).Extract", "Field", "p:v", "assumed: the value handed to a result's Extract has the static type the result node was built from (ctype.Out(i)), a struct for resultObject"},
	{"(dig.resultGrouped).Extract", "Len", "p:v", "assumed: same; Flatten is only set for slice-typed results (checked: E-REFL/inv flatten)"},
	{"(dig.resultGrouped).Extract", "Index", "p:v", "assumed: same"},
	{"(dig.resultGrouped).Extract", "Elem", "p:rt.Type", "assumed: the decorated branch is reached only for the results of a decorator, and Decorate admits a grouped result only if its Type is a slice (findResultKeys, checked by E-REFL there and by G-typed-store for flatten)"},
	{"(dig.paramObject).Build", "Field", "", "assumed: dest is reflect.New(po.Type).Elem() with po.Type a struct (field invariant)"},
	{"(*dig.Scope).Invoke", "Type", "", "assumed: values returned by the invoker are valid reflect.Values"},
	{"(dig.provideAsOption).String", "", "", "out of scope: String() of an option value is never called by dig on unvalidated input"},
	{"(*dig/internal/dot.Graph).AddCtor", "Elem", "", "assumed: a dot.Param with a non-empty Group comes from paramGroupedSlice.DotParam, whose Type is the slice type (field invariant)"},
	{"dig.init", "", "", "package initialisation from type literals"},
}

func assumedSite(fn, op, recv string) (string, bool) {
	for _, a := range reflAssumed {
		if a.fn == fn && (a.op == "" || a.op == op) && (a.recv == "" || a.recv == recv) {
			return a.why, true
		}
	}
	return "", false
}

// ruleRefl (E-REFL).
func ruleRefl(rule string) RuleFn {
	return func(c *an.Ctx) {
		c.Rule(rule, "E-REFL: every call of a partial reflect operation in non-test code (Type.{NumIn,In,IsVariadic,NumOut,Out}: Func; Type.{NumField,Field}: Struct; Type.Elem: Array|Chan|Map|Ptr|Slice; Type.Len: Array; Type.Implements(u): u Interface; Value.Pointer: Chan|Func|Map|Ptr|Slice|UnsafePointer; Value.{Len,Index,Field,Elem}; Value.Type on a possibly invalid Value) is discharged by (i) a dominating Kind test on the same normalised value, (ii) a function contract (frozen table, re-posed and checked at every call site of that function), (iii) a field invariant of an IR type, checked where values of that type are constructed, (iv) the implication IsIn/IsOut(t) => struct, or is listed as assumed with its reason; anything else is a violation")
		r := newReflCtx(c)
		if len(r.kinds) < 8 {
			c.Und(rule, "anchor reflect.Kind constants", "reflect package not loaded")
			return
		}
		nSites, nAssumed := 0, 0
		for _, fn := range c.P.Funcs {
			fname := an.ShortName(fn)
			an.Instrs(fn, func(in ssa.Instruction) {
				k, ok := in.(*ssa.Call)
				if !ok {
					return
				}
				cc := k.Common()
				var op reflOp
				var opname string
				var recv ssa.Value
				isType := false
				if cc.IsInvoke() && an.IsNamed(cc.Value.Type(), "reflect", "Type") {
					o, ok := typeOps[cc.Method.Name()]
					if !ok {
						return
					}
					op, opname, recv, isType = o, cc.Method.Name(), cc.Value, true
					if op.onArg {
						recv = cc.Args[0]
					}
				} else if f := an.StaticCallee(k); f != nil && f.Signature.Recv() != nil && an.IsNamed(f.Signature.Recv().Type(), "reflect", "Value") {
					o, ok := valueOps[f.Name()]
					if !ok {
						return
					}
					op, opname, recv = o, f.Name(), cc.Args[0]
				} else {
					return
				}
				nSites++
				rn := an.Norm(an.Resolve(recv))
				kind := "Value"
				if isType {
					kind = "Type"
				}
				cons := fmt.Sprintf("%s: reflect.%s.%s on %s", fname, kind, opname, rn)
				var good bool
				var how string
				if isType {
					good, how = r.typeHasKind(fn, in, recv, op.kinds)
				} else {
					good, how = r.valueHasKind(fn, in, recv, op.kinds)
				}
				if good {
					c.OK(rule, cons, how, in)
					return
				}
				if why, ok := assumedSite(fname, opname, rn); ok {
					nAssumed++
					c.OK(rule, cons, why, in)
					return
				}
				c.Bad(rule, cons, "no dominating Kind test, contract, field invariant or predicate establishes the precondition ("+how+"): this reflect call panics for some accepted input", in, nil)
			})
		}
		c.Floor(rule, "partial reflect operation sites", nSites, 40)
		c.Notes = append(c.Notes, fmt.Sprintf("E-REFL: %d sites, %d of them discharged by a listed assumption", nSites, nAssumed))
		// contracts at call sites
		names := make([]string, 0, len(contracts))
		for n := range contracts {
			names = append(names, n)
		}
		sort.Strings(names)
		for _, cn := range names {
			target := c.P.Func(cn)
			if target == nil {
				c.Und(rule, "anchor "+cn, "contract function not found")
				continue
			}
			for _, ct := range contracts[cn] {
				idx := -1
				for i, p := range target.Params {
					if an.CanonParam(p) == ct.param {
						idx = i
					}
				}
				if idx < 0 {
					c.Und(rule, "anchor "+cn+" parameter "+ct.param, "parameter not found")
					continue
				}
				ncs := 0
				for _, fn := range c.P.Funcs {
					an.Instrs(fn, func(in ssa.Instruction) {
						k, ok := in.(ssa.CallInstruction)
						if !ok {
							return
						}
						var arg ssa.Value
						if an.StaticCallee(k) == target {
							arg = k.Common().Args[idx]
						} else if (cn == "dig.dryInvoker" || cn == "dig.defaultInvoker") && an.SinkKind(in) == "invokerFn" {
							arg = k.Common().Args[0]
						} else {
							return
						}
						ncs++
						cons := fmt.Sprintf("contract %s(%s: %s %s) at call in %s", cn, ct.param, ct.mode, strings.Join(ct.kinds, "|"), an.ShortName(fn))
						var good bool
						var how string
						switch ct.mode {
						case "dyn":
							good, how = r.dynHasKind(fn, in, arg, ct.kinds)
						case "type":
							good, how = r.typeHasKind(fn, in, arg, ct.kinds)
						case "value":
							good, how = r.valueHasKind(fn, in, arg, ct.kinds)
						}
						if good {
							c.OK(rule, cons, how, in)
						} else {
							c.Bad(rule, cons, "the caller passes "+an.Norm(arg)+" without having established the callee's precondition ("+how+"): the callee's unguarded reflect calls panic on bad input", in, nil)
						}
					})
				}
				if cn != "dig.defaultInvoker" && cn != "dig.dryInvoker" {
					c.Floor(rule, "call sites of "+cn, ncs, 1)
				}
			}
		}
		// field invariants at construction sites
		r.checkInvariants(rule)
	}
}

func (r *reflCtx) checkInvariants(rule string) {
	c := r.c
	// paramGroupedSlice.Type is a slice: in every function constructing one with a
	// non-error return, the Type value is kind-tested.
	type inv struct{ typ, field, kind string }
	for _, iv := range []inv{{"paramGroupedSlice", "Type", "Slice"}, {"paramObject", "Type", "Struct"}, {"resultObject", "Type", "Struct"}} {
		n := 0
		for _, fn := range c.P.Funcs {
			an.Instrs(fn, func(in ssa.Instruction) {
				st, ok := in.(*ssa.Store)
				if !ok {
					return
				}
				fa, ok := st.Addr.(*ssa.FieldAddr)
				if !ok || !an.IsDigNamed(fa.X.Type(), iv.typ) || an.FieldName(fa.X.Type(), fa.Field) != iv.field {
					return
				}
				n++
				cons := fmt.Sprintf("inv: %s.%s set in %s is a %s type whenever the value is returned without error", iv.typ, iv.field, an.ShortName(fn), iv.kind)
				// every non-error return reachable after the store is dominated by the kind guard (or contract)
				bad := false
				how := ""
				for _, ret := range returnsAfter(fn, st, nil) {
					if isErrorExit(ret) {
						continue
					}
					ok, h := r.typeHasKind(fn, ret, st.Val, []string{iv.kind})
					how = h
					if !ok {
						bad = true
					}
				}
				c.Check(!bad, rule, cons, how, "a "+iv.typ+" whose "+iv.field+" is not a "+iv.kind+" type can be returned without error: later unguarded "+iv.field+".Elem()/NumField() calls panic", st, nil)
				// the value under construction must not escape (be handed to a call
				// or converted to an interface) before its Type was validated
				if al, ok := fa.X.(*ssa.Alloc); ok {
					for _, rr := range an.Referrers(al) {
						var esc ssa.Instruction
						switch x := rr.(type) {
						case *ssa.MakeInterface:
							esc = x
						case ssa.CallInstruction:
							for _, a := range x.Common().Args {
								if a == ssa.Value(al) {
									esc = x
								}
							}
						}
						if esc == nil {
							continue
						}
						if hit, _ := an.PathTo(fn, st, an.IsInstr(esc), nil); hit == nil {
							continue
						}
						ok, _ := r.typeHasKind(fn, esc, st.Val, []string{iv.kind})
						c.Check(ok, rule, fmt.Sprintf("inv: the %s under construction in %s is published only after its %s was validated", iv.typ, an.ShortName(fn), iv.field), "escape dominated by the kind test", "the half-built "+iv.typ+" is handed out (e.g. registered as a graph node) before "+iv.field+" is known to be a "+iv.kind+" type: if validation then fails, code that trusts the invariant ("+iv.field+".Elem()) panics on it later", esc, nil)
					}
				}
			})
		}
		c.Floor(rule, "construction sites of "+iv.typ+"."+iv.field, n, 1)
	}
	// As validation loop
	if v := c.Fn(rule, "(*dig.provideOptions).Validate"); v != nil {
		var loop *rangeLoop
		for _, l := range rangeLoops(v) {
			if l.over == "p:o.As" {
				loop = l
			}
		}
		cons := "inv: provideOptions.Validate accepts only non-nil pointers to interfaces in As"
		if loop == nil {
			c.BadAt(rule, cons, "no loop over o.As", c.P.Pos(v.Pos()), nil)
		} else {
			body := loop.header.Succs[0]
			elem := "reflect.TypeOf(p:o.As[" // prefix
			var need [][]an.Edge
			need = append(need, an.EdgesWhere(v, func(f an.Fact) bool { return strings.HasPrefix(f.S, "("+elem) && strings.HasSuffix(f.S, ") != nil)") }))
			need = append(need, an.EdgesWhere(v, func(f an.Fact) bool {
				return strings.HasPrefix(f.S, "("+elem) && strings.HasSuffix(f.S, ".Kind() == "+r.kinds["Ptr"]+")")
			}))
			need = append(need, an.EdgesWhere(v, func(f an.Fact) bool {
				return strings.HasPrefix(f.S, "("+elem) && strings.HasSuffix(f.S, ".Elem().Kind() == "+r.kinds["Interface"]+")")
			}))
			good := true
			for _, edges := range need {
				if len(edges) == 0 {
					good = false
					continue
				}
				hit, _ := an.PathTo(v, body.Instrs[0], func(i ssa.Instruction) bool {
					if i.Block() == loop.header {
						return true
					}
					ret, ok := i.(*ssa.Return)
					return ok && !isErrorExit(ret)
				}, an.NewGates().AddEdges(edges...))
				if hit != nil {
					good = false
				}
			}
			c.Check(good && len(loop.earlyExits()) >= 0, rule, cons, "each element: TypeOf != nil, Kind == Ptr, Elem().Kind() == Interface", "an As element that is nil, not a pointer or not a pointer to an interface can pass validation: reflect.TypeOf(as).Elem() / Implements panic later", loop.header.Instrs[0], nil)
		}
	}
	// flatten invariant: resultGrouped.Flatten=true only with slice-typed results
	nfl := 0
	for _, fn := range c.P.Funcs {
		an.Instrs(fn, func(in ssa.Instruction) {
			st, ok := in.(*ssa.Store)
			if !ok {
				return
			}
			fa, ok := st.Addr.(*ssa.FieldAddr)
			if !ok || !an.IsDigNamed(fa.X.Type(), "resultGrouped") || an.FieldName(fa.X.Type(), fa.Field) != "Flatten" {
				return
			}
			nfl++
			// the declared type of the result in this function
			tv := "p:t"
			if an.ShortName(fn) == "dig.newResultGrouped" {
				tv = "p:f.Type"
			}
			var kindKeys []string
			for _, kc := range kindCalls(fn, tv) {
				kindKeys = append(kindKeys, an.FactKeyEq(kc, r.kinds["Slice"]))
			}
			flatKey := an.FactKeyVal(an.Resolve(st.Val))
			bad := false
			for _, ret := range returnsAfter(fn, st, nil) {
				if isErrorExit(ret) {
					continue
				}
				ret := ret
				res := an.PathSens(an.PSQuery{Fn: fn, Target: func(i ssa.Instruction, env *an.PEnv) bool {
					if i != ssa.Instruction(ret) {
						return false
					}
					if f, known := env.Facts[flatKey]; known && !f {
						return false // not flattened on this path
					}
					for _, k := range kindKeys {
						if env.Facts[k] {
							return false
						}
					}
					return true
				}})
				if res.Found != nil || res.Overflow {
					bad = true
				}
			}
			c.Check(!bad, rule, "inv: a flattened group result in "+an.ShortName(fn)+" is declared with a slice type", "Flatten implies Kind()==Slice on every successful return", "flatten can be accepted for a non-slice result: Extract's v.Len()/v.Index(i) panic", st, nil)
		})
	}
	c.Floor(rule, "construction sites of resultGrouped.Flatten", nfl, 2)
}

// ruleP1: entry validation of the user function argument.
func ruleP1(rule string) RuleFn {
	return func(c *an.Ctx) {
		c.Rule(rule, "P1 entry validation: in every exported method of Scope/Container whose first parameter is the user function (interface{}), that value is passed to a function of the dig module or to reflect.ValueOf only at sites dominated by reflect.TypeOf(x) != nil and reflect.TypeOf(x).Kind() == reflect.Func on it, and by !reflect.ValueOf(x).IsNil() (a typed nil func passes the first two); passing it to fmt for the error message, to reflect.TypeOf, or delegating to the same-named method of Scope is allowed")
		r := newReflCtx(c)
		n := 0
		for _, fn := range publicRoots(c) {
			if fn.Signature.Recv() == nil || fn.Signature.Params().Len() == 0 {
				continue
			}
			p0 := fn.Signature.Params().At(0)
			if _, ok := p0.Type().Underlying().(*types.Interface); !ok || p0.Type().String() != "interface{}" && p0.Type().String() != "any" {
				continue
			}
			switch fn.Name() {
			case "Provide", "Decorate", "Invoke":
			default:
				continue
			}
			n++
			pn := "p:" + p0.Name()
			if len(fn.Params) > 1 {
				pn = "p:" + an.CanonParam(fn.Params[1])
			}
			an.Instrs(fn, func(in ssa.Instruction) {
				k, ok := in.(ssa.CallInstruction)
				if !ok {
					return
				}
				uses := false
				for _, a := range k.Common().Args {
					if an.Norm(a) == pn {
						uses = true
					}
				}
				if !uses {
					return
				}
				callee := an.StaticCallee(k)
				name := an.CalleeName(k)
				if name == "reflect.TypeOf" {
					return
				}
				if name == "dig.describeValue" {
					// the formatter of REJECTED values takes anything by design; what it may do with it is T-no-format's business
					return
				}
				if callee != nil && callee.Name() == fn.Name() && an.IsDigNamed(callee.Signature.Recv().Type(), "Scope") {
					c.OK(rule, an.ShortName(fn)+" delegates to "+an.ShortName(callee), "delegation", in)
					return
				}
				if !(name == "reflect.ValueOf" || (callee != nil && c.P.InModule(callee)) || k.Common().IsInvoke()) {
					return
				}
				cons := an.ShortName(fn) + ": user function reaches " + name + " only after nil/Func validation"
				var arg ssa.Value
				for _, a := range k.Common().Args {
					if an.Norm(a) == pn {
						arg = a
					}
				}
				good, how := r.dynHasKind(fn, in, arg, []string{"Func"})
				if good {
					c.OK(rule, cons, how, in)
					// a typed nil func value passes both checks above
					nn := an.EdgesWhere(fn, an.FactIs("!reflect.ValueOf("+pn+").IsNil()", "(reflect.ValueOf("+pn+").Pointer() != 0)"))
					cons2 := an.ShortName(fn) + ": user function reaches " + name + " only if it is not a nil function value"
					if isNilProbe(in) {
						// the ValueOf(x) that only feeds the IsNil/Pointer test itself
					} else if dominated(fn, in, nn) {
						c.OK(rule, cons2, "dominated by !reflect.ValueOf(f).IsNil()", in)
					} else {
						c.Bad(rule, cons2, "a typed nil function such as (func() int)(nil) has a non-nil type of kind Func and is accepted: its location is nil (runtime.FuncForPC(0)), which Visualize and the callback closures dereference, and executing it panics with 'call of nil function' instead of returning an error", in, nil)
					}
				} else {
					c.Bad(rule, cons, "the value given by the user is handed to "+name+" without the untyped-nil and Kind()==Func checks that Provide and Invoke perform: nil or a non-function makes it panic instead of returning an error", in, nil)
				}
			})
		}
		c.Floor(rule, "public entry methods taking a user function", n, 6)
	}
}

// isNilProbe: a reflect.ValueOf call whose result is used only as the
// receiver of IsNil, Pointer, Kind or IsValid (the guard's own evaluation).
func isNilProbe(in ssa.Instruction) bool {
	k, ok := in.(*ssa.Call)
	if !ok || an.CalleeName(k) != "reflect.ValueOf" {
		return false
	}
	refs := an.Referrers(k)
	if len(refs) == 0 {
		return false
	}
	for _, r := range refs {
		c, ok := r.(*ssa.Call)
		if !ok {
			return false
		}
		switch an.CalleeName(c) {
		case "(reflect.Value).IsNil", "(reflect.Value).Pointer", "(reflect.Value).Kind", "(reflect.Value).IsValid":
		default:
			return false
		}
	}
	return true
}
