package rules

import (
	"fmt"
	"go/types"
	"strings"

	"golang.org/x/tools/go/ssa"

	"verif/checker/internal/an"
)

// digErrorTypes lists the named types of package dig implementing digError.
func digErrorTypes(c *an.Ctx) []*types.Named {
	var out []*types.Named
	for _, t := range c.P.Implementers("digError") {
		if p, ok := t.(*types.Pointer); ok {
			t = p.Elem()
		}
		if n, ok := t.(*types.Named); ok {
			out = append(out, n)
		}
	}
	return out
}

// ruleUnwrap (X-unwrap) and closed error family.
func ruleUnwrap(rule string) RuleFn {
	return func(c *an.Ctx) {
		c.Rule(rule, "X-unwrap: every dig error type (implementer of digError) that is a struct with an error-typed field has an Unwrap method returning exactly that field, so RootCause and errors.Is/As traverse the whole chain; RootCause walks with errors.As(err, *Error) and errors.Unwrap; closed error family: non-test dig code never calls errors.New or fmt.Errorf (every failure originating in dig is a digError)")
		ets := digErrorTypes(c)
		if !c.Floor(rule, "dig error types", len(ets), 9) {
			return
		}
		for _, n := range ets {
			st, ok := n.Underlying().(*types.Struct)
			if !ok {
				continue
			}
			var ef []string
			for i := 0; i < st.NumFields(); i++ {
				if st.Field(i).Type().String() == "error" {
					ef = append(ef, st.Field(i).Name())
				}
			}
			if len(ef) == 0 {
				continue
			}
			cons := "dig." + n.Obj().Name() + " unwraps to its " + strings.Join(ef, "/") + " field"
			fn := c.P.Func("(dig." + n.Obj().Name() + ").Unwrap")
			if fn == nil {
				c.BadAt(rule, cons, "no Unwrap method: the wrapped cause is unreachable for RootCause, errors.Is and errors.As", c.P.Pos(n.Obj().Pos()), nil)
				continue
			}
			good := false
			nret := 0
			an.Instrs(fn, func(in ssa.Instruction) {
				if r, ok := in.(*ssa.Return); ok {
					nret++
					if an.Norm(r.Results[0]) == "p:e."+ef[0] {
						good = true
					}
				}
			})
			c.Check(good && nret == 1 && len(ef) == 1, rule, cons, "return e."+ef[0], "Unwrap does not return the wrapped error field", nil, nil)
		}
		// errors.New / fmt.Errorf
		n := 0
		for _, fn := range c.P.Funcs {
			for _, k := range an.CallsNamed(fn, "errors.New", "fmt.Errorf") {
				n++
				c.Bad(rule, "closed error family: "+an.ShortName(fn), "a foreign error is manufactured with "+an.CalleeName(k)+": a failure originating in dig does not satisfy errors.As(dig.Error)", k, nil)
			}
		}
		if n == 0 {
			c.OKAt(rule, "closed error family: no errors.New / fmt.Errorf in the module", fmt.Sprintf("%d functions scanned", len(c.P.Funcs)), "-")
		}
		// RootCause shape
		if rc := c.Fn(rule, "dig.RootCause"); rc != nil {
			as := an.CallsNamed(rc, "errors.As")
			uw := an.CallsNamed(rc, "errors.Unwrap")
			okAs := len(as) == 1
			if okAs {
				mi, isMI := as[0].Common().Args[1].(*ssa.MakeInterface)
				okAs = isMI && strings.HasSuffix(mi.X.Type().String(), "dig.Error")
			}
			c.Check(okAs && len(uw) >= 1, rule, "RootCause follows the chain of dig.Error values", "errors.As(err, *Error) / errors.Unwrap", "RootCause no longer walks the chain with errors.As(err, *dig.Error) and errors.Unwrap", nil, nil)
			// it returns either the last dig error (when nothing is wrapped) or the first non-dig error
			nret := 0
			good := true
			an.Instrs(rc, func(in ssa.Instruction) {
				if r, ok := in.(*ssa.Return); ok {
					nret++
					s := an.Norm(an.Resolve(r.Results[0]))
					// the argument itself, the current dig error (a local cell / merged value), or what Unwrap returned
					if !(strings.HasPrefix(s, "φ") || strings.Contains(s, "new:") || s == "p:err" || strings.HasPrefix(s, "errors.Unwrap(")) {
						good = false
					}
				}
			})
			c.Check(good && nret >= 2, rule, "RootCause returns the innermost error", "returns: the argument / the last dig error / the first foreign cause", "RootCause returns something other than its argument, the dig error it stopped at, or that error's cause", nil, nil)
		}
	}
}

// isForeignErrResult: v is the error result of a static call to a function
// outside the module.
func isForeignErrResult(c *an.Ctx, v ssa.Value) (*ssa.Call, bool) {
	if v == nil || v.Type().String() != "error" {
		return nil, false
	}
	var call *ssa.Call
	switch x := v.(type) {
	case *ssa.Extract:
		call, _ = x.Tuple.(*ssa.Call)
	case *ssa.Call:
		call = x
	}
	if call == nil {
		return nil, false
	}
	f := an.StaticCallee(call)
	if f == nil || c.P.InModule(f) {
		return nil, false
	}
	if an.ShortName(f) == "errors.Unwrap" {
		// a projection of its argument, not a source of errors
		return nil, false
	}
	return call, true
}

// ruleForeignCause (T-foreign-cause).
func ruleForeignCause(rule string) RuleFn {
	return func(c *an.Ctx) {
		c.Rule(rule, "T-foreign-cause (taint, path-sensitive on phi values): the error result of a call to a function outside the module (strconv, url, ...) never becomes the wrapped field of a dig error (argument 2 of newErrInvalidInput, or a Reason/Cause field of an error literal) and is never returned as an error by a module function while it is non-nil; otherwise RootCause returns it and the rejection is not a dig.Error")
		nWrap := 0
		for _, fn := range c.P.Funcs {
			// (a) wrapped fields
			an.Instrs(fn, func(in ssa.Instruction) {
				var wrapped ssa.Value
				switch x := in.(type) {
				case *ssa.Call:
					if an.CalleeName(x) == "dig.newErrInvalidInput" {
						wrapped = x.Common().Args[1]
					}
				case *ssa.Store:
					if fa, ok := x.Addr.(*ssa.FieldAddr); ok && x.Val.Type().String() == "error" {
						if n, ok := derefNamed(fa.X.Type()); ok && isDigErr(c, n) {
							wrapped = x.Val
						}
					}
				}
				if wrapped == nil {
					return
				}
				nWrap++
				for _, o := range an.Origins(an.Resolve(wrapped)) {
					if k, bad := isForeignErrResult(c, o); bad {
						c.Bad(rule, "wrapped cause in "+an.ShortName(fn)+" originates in dig or user code", "the error of "+an.CalleeName(k)+" is wrapped as the cause of a dig error: RootCause returns a foreign error that is not a dig.Error", in, nil)
						return
					}
				}
			})
			// (b) returned errors
			an.Instrs(fn, func(in ssa.Instruction) {
				r, ok := in.(*ssa.Return)
				if !ok || len(r.Results) == 0 {
					return
				}
				last := r.Results[len(r.Results)-1]
				if last.Type().String() != "error" {
					return
				}
				for _, o := range an.Origins(an.Resolve(last)) {
					k, bad := isForeignErrResult(c, o)
					if !bad {
						continue
					}
					// can the return be reached with this value while it is non-nil?
					idx := -1
					if ex, ok := o.(*ssa.Extract); ok {
						idx = ex.Index
					}
					g := an.NewGates().AddEdges(an.NilErrEdges(fn, k, idx)...)
					var start ssa.Instruction = k
					if ex, ok := o.(*ssa.Extract); ok {
						start = ex
					}
					res := an.PathSens(an.PSQuery{Fn: fn, Start: start, Gates: g, Target: func(i ssa.Instruction, env *an.PEnv) bool {
						return i == ssa.Instruction(r) && env.Val(last) == o
					}})
					if res.Found != nil || res.Overflow {
						c.Bad(rule, "errors returned by "+an.ShortName(fn)+" originate in dig or user code", "the non-nil error of "+an.CalleeName(k)+" can be returned unwrapped: a dig-originated rejection that is not a dig.Error", r, an.BlockPath(c.P, res.Path))
						return
					}
				}
			})
		}
		if c.Floor(rule, "sites wrapping a cause into a dig error", nWrap, 15) {
			c.OKAt(rule, "all wrapped causes and returned errors scanned", fmt.Sprintf("%d wrapping sites, %d functions", nWrap, len(c.P.Funcs)), "-")
		}
	}
}

func derefNamed(t types.Type) (*types.Named, bool) {
	if p, ok := t.Underlying().(*types.Pointer); ok {
		t = p.Elem()
	}
	n, ok := t.(*types.Named)
	return n, ok
}

func isDigErr(c *an.Ctx, n *types.Named) bool {
	for _, e := range digErrorTypes(c) {
		if e.Obj() == n.Obj() {
			return true
		}
	}
	return false
}
