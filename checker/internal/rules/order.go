package rules

import (
	"fmt"
	"go/token"
	"regexp"
	"strings"

	"golang.org/x/tools/go/ssa"

	"verif/checker/internal/an"
)

// ---------------------------------------------------------------------------
// L-soft-last: abstract interpretation of the order in which paramObject.Build
// builds its fields.

type ordClass int

const (
	ordEmpty ordClass = iota // no elements
	ordNS                    // only non-soft fields
	ordS                     // only soft groups
	ordNSS                   // non-soft fields followed by soft groups
	ordAny                   // order not established
)

func (o ordClass) String() string {
	return [...]string{"empty", "non-soft*", "soft*", "non-soft* soft*", "unordered"}[o]
}

func ordConcat(a, b ordClass) ordClass {
	switch {
	case a == ordEmpty:
		return b
	case b == ordEmpty:
		return a
	case a == ordAny || b == ordAny:
		return ordAny
	case a == ordNS && b == ordNS:
		return ordNS
	case a == ordNS && (b == ordS || b == ordNSS):
		return ordNSS
	case a == ordS && b == ordS:
		return ordS
	case a == ordNSS && b == ordS:
		return ordNSS
	}
	return ordAny
}

func ordJoin(a, b ordClass) ordClass {
	if a == b {
		return a
	}
	if a == ordEmpty {
		return b
	}
	if b == ordEmpty {
		return a
	}
	if a == ordAny || b == ordAny {
		return ordAny
	}
	return ordNSS // NS|S|NSS alternatives all satisfy non-soft* soft*
}

type ordAnalysis struct {
	fn    *ssa.Function
	memo  map[ssa.Value]ordClass
	dirty map[ssa.Value]bool // slices whose elements are overwritten in place
	why   []string
}

func isVarargsOf(v ssa.Value) (ssa.Value, bool) {
	sl, ok := v.(*ssa.Slice)
	if !ok {
		return nil, false
	}
	al, ok := sl.X.(*ssa.Alloc)
	if !ok || al.Comment != "varargs" {
		return nil, false
	}
	var elem ssa.Value
	n := 0
	for _, r := range an.Referrers(al) {
		if ia, ok := r.(*ssa.IndexAddr); ok {
			for _, rr := range an.Referrers(ia) {
				if st, ok := rr.(*ssa.Store); ok && st.Addr == ssa.Value(ia) {
					elem = st.Val
					n++
				}
			}
		}
	}
	if n != 1 {
		return nil, false
	}
	return elem, true
}

// elemClass classifies the field value e at the site where it is appended.
func (a *ordAnalysis) elemClass(e ssa.Value, site ssa.Instruction) ordClass {
	en := an.Norm(e)
	okT := an.EdgesWhere(a.fn, an.FactIs(en+".Param.(dig.paramGroupedSlice)#1"))
	softT := an.EdgesWhere(a.fn, an.FactIs(en+".Param.(dig.paramGroupedSlice)#0.Soft"))
	okF := an.EdgesWhere(a.fn, an.FactIs("!"+en+".Param.(dig.paramGroupedSlice)#1"))
	softF := an.EdgesWhere(a.fn, an.FactIs("!"+en+".Param.(dig.paramGroupedSlice)#0.Soft"))
	if len(okT) > 0 && len(softT) > 0 {
		h1, _ := an.PathTo(a.fn, nil, an.IsInstr(site), an.NewGates().AddEdges(okT...))
		h2, _ := an.PathTo(a.fn, nil, an.IsInstr(site), an.NewGates().AddEdges(softT...))
		if h1 == nil && h2 == nil {
			return ordS
		}
	}
	if len(okF)+len(softF) > 0 {
		h, _ := an.PathTo(a.fn, nil, an.IsInstr(site), an.NewGates().AddEdges(okF...).AddEdges(softF...))
		if h == nil {
			return ordNS
		}
	}
	// the test may be packaged as a predicate function or closure applied to the element
	var pT, pF []an.Edge
	for _, e := range an.EdgesWhere(a.fn, func(f an.Fact) bool { return true }) {
		f, _ := an.EdgeFact(e)
		v := f.Cond
		neg := f.Neg
		for {
			if u, ok := v.(*ssa.UnOp); ok && u.Op == token.NOT {
				v, neg = u.X, !neg
				continue
			}
			break
		}
		k, ok := v.(*ssa.Call)
		if !ok || len(k.Common().Args) != 1 || an.Norm(k.Common().Args[0]) != en {
			continue
		}
		p := an.StaticCallee(k)
		if p == nil || !isSoftPredicate(p) {
			continue
		}
		if neg {
			pF = append(pF, e)
		} else {
			pT = append(pT, e)
		}
	}
	if len(pT) > 0 {
		if h, _ := an.PathTo(a.fn, nil, an.IsInstr(site), an.NewGates().AddEdges(pT...)); h == nil {
			return ordS
		}
	}
	if len(pF) > 0 {
		if h, _ := an.PathTo(a.fn, nil, an.IsInstr(site), an.NewGates().AddEdges(pF...)); h == nil {
			return ordNS
		}
	}
	a.why = append(a.why, "element "+en+" appended without a decided soft/non-soft test")
	return ordAny
}

func (a *ordAnalysis) class(v ssa.Value) ordClass {
	if c, ok := a.memo[v]; ok {
		return c
	}
	a.memo[v] = ordEmpty // bottom for fixpoints through phis
	c := a.compute(v)
	if a.dirty[v] {
		c = ordAny
	}
	a.memo[v] = c
	return c
}

func (a *ordAnalysis) compute(v ssa.Value) ordClass {
	switch x := v.(type) {
	case *ssa.Const:
		if x.IsNil() {
			return ordEmpty
		}
	case *ssa.Phi:
		c := ordEmpty
		for i := 0; i < 4; i++ { // small fixpoint
			n := ordEmpty
			for _, e := range x.Edges {
				n = ordJoin(n, a.class(e))
			}
			if a.dirty[x] {
				n = ordAny
			}
			if n == c {
				break
			}
			c = n
			a.memo[x] = c
			// invalidate dependants computed from the stale value
			for k := range a.memo {
				if k != ssa.Value(x) {
					if _, isPhi := k.(*ssa.Phi); !isPhi {
						delete(a.memo, k)
					}
				}
			}
		}
		return c
	case *ssa.Call:
		if b, ok := x.Common().Value.(*ssa.Builtin); ok && b.Name() == "append" {
			args := x.Common().Args
			base := a.class(args[0])
			if e, ok := isVarargsOf(args[1]); ok {
				return ordConcat(base, a.elemClass(an.Resolve(e), x))
			}
			return ordConcat(base, a.class(args[1]))
		}
	case *ssa.MakeSlice:
		if k, ok := x.Len.(*ssa.Const); ok && k.Int64() == 0 {
			return ordEmpty
		}
	case *ssa.Slice:
		if k, ok := x.High.(*ssa.Const); ok && x.High != nil && k.Int64() == 0 {
			return ordEmpty
		}
	}
	a.why = append(a.why, "slice value "+an.Norm(v)+" has no established order")
	return ordAny
}

// ruleSoftLast (C11).
func ruleSoftLast(rule string) RuleFn {
	return func(c *an.Ctx) {
		c.Rule(rule, "L-soft-last (abstract interpretation over the order classes empty / non-soft* / soft* / non-soft* soft* / unordered of the slice values built by appends, phis and concatenations in paramObject.Build; an element is classified by the dominating type/Soft tests at its append site; overwriting elements in place or any construct the domain does not model yields 'unordered'): the slice whose elements paramObject.Build builds in order has class non-soft* soft*, i.e. every soft group field is built after every other field of the same parameter object, so it sees the members contributed by the constructors those fields required")
		fn := c.Fn(rule, "(dig.paramObject).Build")
		if fn == nil {
			return
		}
		builds := methodCalls(fn, "(dig.paramObjectField).Build")
		if len(builds) != 1 {
			c.BadAt(rule, "paramObject.Build builds its fields through one loop", fmt.Sprintf("%d paramObjectField.Build call sites", len(builds)), c.P.Pos(fn.Pos()), nil)
			return
		}
		recv := an.Resolve(builds[0].Common().Args[0])
		var list ssa.Value
		switch x := recv.(type) {
		case *ssa.UnOp:
			if ia, ok := x.X.(*ssa.IndexAddr); ok && x.Op == token.MUL {
				list = ia.X
			}
		case *ssa.Index:
			list = x.X
		}
		if list == nil {
			c.Bad(rule, "paramObject.Build iterates a field list", "the built field is not an element of a slice: "+an.Norm(recv), builds[0], nil)
			return
		}
		a := &ordAnalysis{fn: fn, memo: map[ssa.Value]ordClass{}, dirty: map[ssa.Value]bool{}}
		// in-place element overwrites
		an.Instrs(fn, func(in ssa.Instruction) {
			if st, ok := in.(*ssa.Store); ok {
				if ia, ok := st.Addr.(*ssa.IndexAddr); ok {
					if _, isArr := ia.X.(*ssa.Alloc); !isArr {
						a.dirty[ia.X] = true
						a.why = append(a.why, "elements of "+an.Norm(ia.X)+" are overwritten in place at "+c.P.InstrPos(st))
					}
				}
			}
			if k, ok := in.(*ssa.Call); ok {
				if b, ok := k.Common().Value.(*ssa.Builtin); ok && b.Name() == "copy" {
					a.dirty[k.Common().Args[0]] = true
					a.why = append(a.why, "copy into "+an.Norm(k.Common().Args[0]))
				}
			}
		})
		cl := a.class(list)
		cons := "paramObject.Build builds soft value groups after all other fields"
		if cl == ordAny {
			c.Bad(rule, cons, "the order of the list the fields are built from is not 'non-soft fields, then soft groups' ("+strings.Join(dedupe(a.why), "; ")+"): a soft group can be built before a sibling field whose constructor feeds it and miss that member", builds[0], nil)
		} else {
			c.OK(rule, cons, "order class of "+an.Norm(list)+": "+cl.String(), builds[0])
		}
	}
}

func dedupe(xs []string) []string {
	seen := map[string]bool{}
	var out []string
	for _, x := range xs {
		if !seen[x] {
			seen[x] = true
			out = append(out, x)
		}
	}
	return out
}

// ---------------------------------------------------------------------------
// X-ir-immutable: resolution and introspection never write into the IR.

var reIRSlice = regexp.MustCompile(`^(p|fv):[A-Za-z_]+((\.[A-Za-z_]+)|(\[[^\]]*\])|(#\d+)|(\.\([^)]*\)))*\.(Params|Fields|FieldOrders|Results|resultIndexes|As)(\[[^\]]*:[^\]]*\])*$`)

var irTypes = []string{"paramList", "paramObject", "resultList", "resultObject", "resultSingle", "resultGrouped"}

// isIRFieldSelection: v selects a field of a value of one of the IR struct types.
func isIRFieldSelection(v ssa.Value) bool {
	var base ssa.Value
	switch x := v.(type) {
	case *ssa.UnOp:
		if fa, ok := x.X.(*ssa.FieldAddr); ok && x.Op == token.MUL {
			base = fa.X
		}
	case *ssa.Field:
		base = x.X
	case *ssa.Slice:
		return isIRFieldSelection(an.Resolve(x.X))
	}
	if base == nil {
		return false
	}
	for _, t := range irTypes {
		if an.IsDigNamed(base.Type(), t) {
			return true
		}
	}
	return false
}

func derivesFromIRSlice(v ssa.Value) (string, bool) {
	seen := map[ssa.Value]bool{}
	var walk func(v ssa.Value) (string, bool)
	walk = func(v ssa.Value) (string, bool) {
		if v == nil || seen[v] {
			return "", false
		}
		seen[v] = true
		v = an.Resolve(v)
		if s := an.Norm(v); reIRSlice.MatchString(s) && isIRFieldSelection(v) {
			return s, true
		}
		switch x := v.(type) {
		case *ssa.Slice:
			return walk(x.X)
		case *ssa.Phi:
			for _, e := range x.Edges {
				if s, ok := walk(e); ok {
					return s, true
				}
			}
		case *ssa.Call:
			if b, ok := x.Common().Value.(*ssa.Builtin); ok && b.Name() == "append" {
				// append(x, ...) may return x's backing array
				return walk(x.Common().Args[0])
			}
		}
		return "", false
	}
	return walk(v)
}

func ruleIRImmutable(rule string) RuleFn {
	return func(c *an.Ctx) {
		c.Rule(rule, "X-ir-immutable: outside the IR constructors, no function appends to, or stores into an element of, a slice that is (a reslice of) a slice field of an incoming param/result IR value (Params, Fields, FieldOrders, Results, resultIndexes, As). IR values are passed by value but their slices share backing arrays, so such a write changes the registered node for every later Build, Extract, DotParam/DotResult and Info - the same function would no longer yield the same wiring, order or introspection")
		n := 0
		bad := 0
		for _, fn := range c.P.Funcs {
			an.Instrs(fn, func(in ssa.Instruction) {
				switch x := in.(type) {
				case *ssa.Call:
					b, ok := x.Common().Value.(*ssa.Builtin)
					if !ok || b.Name() != "append" {
						return
					}
					n++
					// appending the IR slice's elements to something else is a read
					if s, ok := derivesFromIRSlice(x.Common().Args[0]); ok {
						bad++
						c.Bad(rule, "append in "+an.ShortName(fn)+" does not write into IR storage", "append's destination "+an.Norm(x.Common().Args[0])+" shares the backing array of "+s+": building or inspecting a node rewrites the node itself (reordered/overwritten fields show up in later Builds and in Info)", x, nil)
					}
				case *ssa.Store:
					ia, ok := x.Addr.(*ssa.IndexAddr)
					if !ok {
						return
					}
					n++
					if s, ok := derivesFromIRSlice(ia.X); ok {
						bad++
						c.Bad(rule, "element store in "+an.ShortName(fn)+" does not write into IR storage", "an element of "+s+" is overwritten", x, nil)
					}
				}
			})
		}
		if c.Floor(rule, "append/element-store sites scanned", n, 40) && bad == 0 {
			c.OKAt(rule, "no function writes into the slices of an incoming IR value", fmt.Sprintf("%d append/element-store sites scanned", n), "-")
		}
	}
}

// ---------------------------------------------------------------------------
// X-rootcause: sibling agreement of the failure-marking functions of
// internal/dot.

func ruleRootCauseSiblings(rule string) RuleFn {
	return func(c *an.Ctx) {
		c.Rule(rule, "X-rootcause (cross-check of siblings): every function of internal/dot that marks failures (calls Graph.failNode or stores rootCause/transitiveFailure into an ErrorType field) decides 'root cause' by one and the same predicate, len(dg.Failed.RootCauses) == 0, evaluated at function entry before anything is recorded; the rootCause constant is stored only under that predicate and transitiveFailure only under its negation")
		const want = "(len(p:dg.Failed.RootCauses) == 0)"
		n := 0
		for _, fn := range c.P.Funcs {
			if fn.Pkg == nil || fn.Pkg.Pkg.Path() != an.ModPath+"/internal/dot" {
				continue
			}
			var preds []ssa.Value
			var sites []ssa.Instruction
			for _, k := range an.CallsNamed(fn, "(*dig/internal/dot.Graph).failNode") {
				preds = append(preds, k.Common().Args[2])
				sites = append(sites, k)
			}
			var stores []*ssa.Store
			an.Instrs(fn, func(in ssa.Instruction) {
				st, ok := in.(*ssa.Store)
				if !ok {
					return
				}
				fa, ok := st.Addr.(*ssa.FieldAddr)
				if !ok || an.FieldName(fa.X.Type(), fa.Field) != "ErrorType" {
					return
				}
				if k, ok := st.Val.(*ssa.Const); ok && k.Value != nil && (k.Int64() == 1 || k.Int64() == 2) {
					stores = append(stores, st)
				}
			})
			if len(preds) == 0 && len(stores) == 0 {
				continue
			}
			if fn.Name() == "failNode" {
				continue
			}
			n++
			c.See(fn)
			name := an.ShortName(fn)
			var pv ssa.Value
			good := true
			for i, p := range preds {
				if an.Norm(p) != want {
					good = false
					c.Bad(rule, name+" decides root cause like its siblings", "failNode is called with "+an.Norm(p)+" instead of "+want+": a failure caused by an earlier root cause (e.g. a missing type, which has no constructor) is coloured as a second root cause", sites[i], nil)
				}
				pv = p
			}
			if good && len(preds) > 0 {
				// evaluated before anything is recorded: in the entry block
				if in, ok := pv.(ssa.Instruction); ok && in.Block().Index != 0 {
					good = false
					c.Bad(rule, name+" decides root cause like its siblings", "the predicate is evaluated after the function has already started recording failures", in, nil)
				}
			}
			for _, st := range stores {
				k := st.Val.(*ssa.Const).Int64()
				tEdges := an.EdgesWhere(fn, an.FactIs(want))
				fEdges := an.EdgesWhere(fn, an.FactIs("(len(p:dg.Failed.RootCauses) > 0)"))
				edges := tEdges
				if k == 2 {
					edges = fEdges
				}
				if hit, _ := an.PathTo(fn, nil, an.IsInstr(st), an.NewGates().AddEdges(edges...)); hit != nil || len(edges) == 0 {
					good = false
					c.Bad(rule, name+" colours by the shared root-cause predicate", fmt.Sprintf("ErrorType %d is stored without the matching outcome of %s", k, want), st, nil)
				}
			}
			if good {
				c.OK(rule, name+" decides root cause like its siblings", want+" at entry", fn.Blocks[0].Instrs[0])
			}
		}
		c.Floor(rule, "failure-marking functions in internal/dot", n, 3)
	}
}

// isSoftPredicate: p takes one paramObjectField and returns exactly
// "its Param is a paramGroupedSlice and that slice is Soft".
func isSoftPredicate(p *ssa.Function) bool {
	if len(p.Params) != 1 || len(p.Blocks) == 0 || p.Signature.Results().Len() != 1 {
		return false
	}
	q := "p:" + an.CanonParam(p.Params[0])
	okFact := q + ".Param.(dig.paramGroupedSlice)#1"
	softExpr := q + ".Param.(dig.paramGroupedSlice)#0.Soft"
	okT := an.EdgesWhere(p, an.FactIs(okFact))
	var isSoftVal func(v ssa.Value, at ssa.Instruction) bool
	isSoftVal = func(v ssa.Value, at ssa.Instruction) bool {
		v = an.Resolve(v)
		if an.Norm(v) == softExpr {
			// must be evaluated under ok
			in, isIn := v.(ssa.Instruction)
			if !isIn || len(okT) == 0 {
				return false
			}
			h, _ := an.PathTo(p, nil, an.IsInstr(in), an.NewGates().AddEdges(okT...))
			return h == nil
		}
		if ph, ok := v.(*ssa.Phi); ok {
			soft := false
			for _, e := range ph.Edges {
				if k, isC := e.(*ssa.Const); isC && k.Value != nil && k.Value.String() == "false" {
					continue
				}
				if isSoftVal(e, at) {
					soft = true
					continue
				}
				return false
			}
			return soft
		}
		return false
	}
	nSoft, n := 0, 0
	good := true
	an.Instrs(p, func(in ssa.Instruction) {
		r, ok := in.(*ssa.Return)
		if !ok {
			return
		}
		n++
		v := an.Resolve(r.Results[0])
		if k, isC := v.(*ssa.Const); isC && k.Value != nil && k.Value.String() == "false" {
			return
		}
		if isSoftVal(v, r) {
			nSoft++
			return
		}
		good = false
	})
	return good && nSoft > 0 && n > 0
}
