package rules

import (
	"fmt"
	"go/token"
	"regexp"
	"strings"

	"golang.org/x/tools/go/ssa"

	"verif/checker/internal/an"
)

// Rules about the resolution functions of param.go.

func invokeNamed(fn *ssa.Function, method string) []*ssa.Call {
	var out []*ssa.Call
	an.Instrs(fn, func(in ssa.Instruction) {
		if k, ok := in.(*ssa.Call); ok && k.Common().IsInvoke() && k.Common().Method.Name() == method {
			out = append(out, k)
		}
	})
	return out
}

func methodCalls(fn *ssa.Function, name string) []*ssa.Call {
	var out []*ssa.Call
	for _, k := range an.CallsNamed(fn, name) {
		if c, ok := k.(*ssa.Call); ok {
			out = append(out, c)
		}
	}
	return out
}

// rangeLoop describes a lowered `for ... range X` loop over a slice.
type rangeLoop struct {
	header *ssa.BasicBlock
	over   string
	body   map[*ssa.BasicBlock]bool
}

var reRangeCond = regexp.MustCompile(`^\(\(φt\d+ \+ 1\) < len\((.*)\)\)$`)

var reIndexCond = regexp.MustCompile(`^\(φt\d+ < len\((.*)\)\)$`)

// isCountingPhi: cond is `i < len(X)` where i is a phi of 0 and i+1.
func isCountingPhi(cond ssa.Value) bool {
	bo, ok := cond.(*ssa.BinOp)
	if !ok {
		return false
	}
	ph, ok := bo.X.(*ssa.Phi)
	if !ok || len(ph.Edges) != 2 {
		return false
	}
	zero, inc := false, false
	for _, e := range ph.Edges {
		if k, ok := e.(*ssa.Const); ok && k.Value != nil && k.Value.String() == "0" {
			zero = true
		}
		if b, ok := e.(*ssa.BinOp); ok && b.Op == token.ADD && b.X == ssa.Value(ph) {
			if k, ok := b.Y.(*ssa.Const); ok && k.Value != nil && k.Value.String() == "1" {
				inc = true
			}
		}
	}
	return zero && inc
}

func rangeLoops(fn *ssa.Function) []*rangeLoop {
	var out []*rangeLoop
	for _, b := range fn.Blocks {
		if len(b.Instrs) == 0 {
			continue
		}
		iff, ok := b.Instrs[len(b.Instrs)-1].(*ssa.If)
		if !ok {
			continue
		}
		m := reRangeCond.FindStringSubmatch(an.CondString(iff.Cond, false))
		if m == nil || b.Comment != "rangeindex.loop" {
			// a hand-written index loop: for i := 0; i < len(X); i++
			m = reIndexCond.FindStringSubmatch(an.CondString(iff.Cond, false))
			if m == nil || b.Comment != "for.loop" || !isCountingPhi(iff.Cond) {
				continue
			}
		}
		l := &rangeLoop{header: b, over: m[1], body: map[*ssa.BasicBlock]bool{}}
		// body: blocks reachable from the true successor that can reach the header
		var fwd []*ssa.BasicBlock
		seen := map[*ssa.BasicBlock]bool{b: true}
		stack := []*ssa.BasicBlock{b.Succs[0]}
		for len(stack) > 0 {
			x := stack[len(stack)-1]
			stack = stack[:len(stack)-1]
			if seen[x] {
				continue
			}
			seen[x] = true
			fwd = append(fwd, x)
			stack = append(stack, x.Succs...)
		}
		for _, x := range fwd {
			if reaches(x, b) {
				l.body[x] = true
			}
		}
		out = append(out, l)
	}
	return out
}

// allLoops is rangeLoops plus every other for-loop (any condition, e.g. a down-counting index or i < n):
// over is then "cond:" + the loop condition.
func allLoops(fn *ssa.Function) []*rangeLoop {
	out := rangeLoops(fn)
	have := map[*ssa.BasicBlock]bool{}
	for _, l := range out {
		have[l.header] = true
	}
	for _, b := range fn.Blocks {
		if have[b] || len(b.Instrs) == 0 || b.Comment != "for.loop" {
			continue
		}
		iff, ok := b.Instrs[len(b.Instrs)-1].(*ssa.If)
		if !ok {
			continue
		}
		l := &rangeLoop{header: b, over: "cond:" + an.CondString(iff.Cond, false), body: map[*ssa.BasicBlock]bool{}}
		seen := map[*ssa.BasicBlock]bool{b: true}
		stack := []*ssa.BasicBlock{b.Succs[0]}
		var fwd []*ssa.BasicBlock
		for len(stack) > 0 {
			x := stack[len(stack)-1]
			stack = stack[:len(stack)-1]
			if seen[x] {
				continue
			}
			seen[x] = true
			fwd = append(fwd, x)
			stack = append(stack, x.Succs...)
		}
		for _, x := range fwd {
			if reaches(x, b) {
				l.body[x] = true
			}
		}
		out = append(out, l)
	}
	return out
}

func reaches(from, to *ssa.BasicBlock) bool {
	seen := map[*ssa.BasicBlock]bool{}
	stack := []*ssa.BasicBlock{from}
	for len(stack) > 0 {
		x := stack[len(stack)-1]
		stack = stack[:len(stack)-1]
		if x == to {
			return true
		}
		if seen[x] {
			continue
		}
		seen[x] = true
		stack = append(stack, x.Succs...)
	}
	return false
}

// earlyExits lists edges leaving the loop body other than back to the header.
func (l *rangeLoop) earlyExits() []an.Edge {
	var out []an.Edge
	for b := range l.body {
		for si, s := range b.Succs {
			if !l.body[s] && s != l.header {
				out = append(out, an.Edge{From: b, Succ: si})
			}
		}
	}
	return out
}

func isNoValue(v ssa.Value) bool {
	return an.Norm(an.Resolve(v)) == "*g:_noValue"
}

// ruleDecFirst (M-dec-first, C12).
func ruleDecFirst(rule string) RuleFn {
	return func(c *an.Ctx) {
		c.Rule(rule, "M-dec-first: in paramSingle.Build every path to an undecorated source (containerStore.getValue, getValueProviders, provider.Call) first crosses the found==false edge of buildWithDecorators and then the ok==false edge of the decorated-value lookup, and the found==true edge returns buildWithDecorators' value and error unchanged; in paramGroupedSlice.Build every path to callGroupProviders / getValueGroup first crosses the nil edge of callGroupDecorators' error and then the ok==false edge of getDecoratedValues, whose ok==true edge returns the decorated slice; buildWithDecorators returns the decorated value read from the very scope whose decorator it called, under the parameter's own key")
		// single
		if fn := c.Fn(rule, "(dig.paramSingle).Build"); fn != nil {
			bwd := methodCalls(fn, "(dig.paramSingle).buildWithDecorators")
			gdv := methodCalls(fn, "(dig.paramSingle).getDecoratedValue")
			var sources []ssa.Instruction
			for _, k := range invokeNamed(fn, "getValue") {
				sources = append(sources, k)
			}
			for _, k := range invokeNamed(fn, "getValueProviders") {
				sources = append(sources, k)
			}
			for _, k := range an.InvokesOf(fn, "provider", "Call") {
				sources = append(sources, k)
			}
			if len(bwd) != 1 || len(gdv) != 1 {
				c.BadAt(rule, "paramSingle.Build consults decorators first", fmt.Sprintf("%d buildWithDecorators and %d getDecoratedValue calls: the decorator attempt or the decorated-value lookup is missing", len(bwd), len(gdv)), c.P.Pos(fn.Pos()), nil)
			} else if c.Floor(rule, "undecorated sources in paramSingle.Build", len(sources), 3) {
				g1 := an.NewGates().AddEdges(an.BoolEdges(fn, func(v ssa.Value) bool {
					ex, ok := v.(*ssa.Extract)
					return ok && ex.Tuple == ssa.Value(bwd[0]) && ex.Index == 1
				}, false)...)
				g2 := an.NewGates().AddEdges(an.BoolEdges(fn, func(v ssa.Value) bool {
					ex, ok := v.(*ssa.Extract)
					return ok && ex.Tuple == ssa.Value(gdv[0]) && ex.Index == 1
				}, false)...)
				for i, s := range sources {
					cons := fmt.Sprintf("paramSingle.Build: undecorated source #%d (%s) only after both decorated lookups missed", i+1, an.CalleeName(s.(ssa.CallInstruction)))
					h1, p1 := an.PathTo(fn, nil, an.IsInstr(s), g1)
					h2, p2 := an.PathTo(fn, nil, an.IsInstr(s), g2)
					switch {
					case g1.Len() == 0 || g2.Len() == 0:
						c.Bad(rule, cons, "the found/ok result of a decorated lookup is never tested", s, nil)
					case h1 != nil:
						c.Bad(rule, cons, "reachable without the decorator attempt having reported found==false: a consumer below a decorator can receive the undecorated value", s, an.BlockPath(c.P, p1))
					case h2 != nil:
						c.Bad(rule, cons, "reachable without the decorated-value lookup having missed: an already decorated value is bypassed", s, an.BlockPath(c.P, p2))
					default:
						c.OK(rule, cons, "dominated by found==false and ok==false", s)
					}
				}
				// order
				if hit, _ := an.PathTo(fn, nil, an.IsInstr(gdv[0]), an.NewGates().AddInstr(bwd[0])); hit != nil {
					c.Bad(rule, "paramSingle.Build: decorators are attempted before cached decorated values are read", "getDecoratedValue can run before buildWithDecorators", gdv[0], nil)
				} else {
					c.OK(rule, "paramSingle.Build: decorators are attempted before cached decorated values are read", "ordered", gdv[0])
				}
				// found==true edge returns (#0, #2); ok==true returns #0
				okRet := false
				okRet2 := false
				an.Instrs(fn, func(in ssa.Instruction) {
					r, ok := in.(*ssa.Return)
					if !ok {
						return
					}
					a, b := an.Resolve(r.Results[0]), an.Resolve(r.Results[1])
					if ea, ok := a.(*ssa.Extract); ok && ea.Tuple == ssa.Value(bwd[0]) && ea.Index == 0 {
						if eb, ok := b.(*ssa.Extract); ok && eb.Tuple == ssa.Value(bwd[0]) && eb.Index == 2 {
							okRet = true
						}
					}
					if ea, ok := a.(*ssa.Extract); ok && ea.Tuple == ssa.Value(gdv[0]) && ea.Index == 0 {
						okRet2 = true
					}
				})
				c.Check(okRet, rule, "paramSingle.Build: a found decorator's value and error are returned unchanged", "return v, err of buildWithDecorators", "no return of buildWithDecorators' (value, error)", bwd[0], nil)
				c.Check(okRet2, rule, "paramSingle.Build: a cached decorated value is returned", "return of getDecoratedValue's value", "no return of the decorated value", gdv[0], nil)
			}
		}
		// buildWithDecorators: value read from the decorating scope
		if fn := c.Fn(rule, "(dig.paramSingle).buildWithDecorators"); fn != nil {
			calls := an.InvokesOf(fn, "decorator", "Call")
			gets := invokeNamed(fn, "getDecoratedValue")
			if len(calls) == 1 && len(gets) == 1 {
				scopeArg := calls[0].Common().Args[0]
				recv := gets[0].Common().Value
				c.Check(scopeArg == recv, rule, "buildWithDecorators: the decorated value is read from the scope whose decorator ran", an.Norm(recv), "the decorator is called with "+an.Norm(scopeArg)+" but the value is read from "+an.Norm(recv), gets[0], nil)
				a := gets[0].Common().Args
				c.Check(an.Norm(a[0]) == "p:ps.Name" && an.Norm(a[1]) == "p:ps.Type", rule, "buildWithDecorators: decorated value looked up under the parameter's own key", "(ps.Name, ps.Type)", "looked up under ("+an.Norm(a[0])+", "+an.Norm(a[1])+")", gets[0], nil)
				// on success the returned value is that lookup's #0
				okRet := false
				an.Instrs(fn, func(in ssa.Instruction) {
					if r, ok := in.(*ssa.Return); ok {
						if ex, ok := an.Resolve(r.Results[0]).(*ssa.Extract); ok && ex.Tuple == ssa.Value(gets[0]) && ex.Index == 0 {
							okRet = true
						}
					}
				})
				c.Check(okRet, rule, "buildWithDecorators: returns the decorated value", "v = decoratingScope.getDecoratedValue(...)", "the decorated value is not what is returned", gets[0], nil)
				// the decorating scope is the store in which the decorator was found
				dlook := invokeNamed(fn, "getValueDecorator")
				if len(dlook) == 1 {
					same := false
					for _, o := range an.Origins(scopeArg) {
						if o == dlook[0].Common().Value {
							same = true
						}
					}
					c.Check(same, rule, "buildWithDecorators: the decorator is called with the scope it was found in", an.Norm(dlook[0].Common().Value), "decorator.Call receives a scope other than the one whose getValueDecorator found it", calls[0], nil)
				}
			} else {
				c.BadAt(rule, "buildWithDecorators shape", fmt.Sprintf("%d decorator.Call, %d getDecoratedValue", len(calls), len(gets)), c.P.Pos(fn.Pos()), nil)
			}
		}
		// grouped
		if fn := c.Fn(rule, "(dig.paramGroupedSlice).Build"); fn != nil {
			cgd := methodCalls(fn, "(dig.paramGroupedSlice).callGroupDecorators")
			gdv := methodCalls(fn, "(dig.paramGroupedSlice).getDecoratedValues")
			var sources []ssa.Instruction
			for _, k := range methodCalls(fn, "(dig.paramGroupedSlice).callGroupProviders") {
				sources = append(sources, k)
			}
			for _, k := range invokeNamed(fn, "getValueGroup") {
				sources = append(sources, k)
			}
			for _, k := range invokeNamed(fn, "getGroupProviders") {
				sources = append(sources, k)
			}
			if len(cgd) != 1 || len(gdv) != 1 {
				c.BadAt(rule, "paramGroupedSlice.Build consults decorators first", fmt.Sprintf("%d callGroupDecorators and %d getDecoratedValues calls", len(cgd), len(gdv)), c.P.Pos(fn.Pos()), nil)
			} else if c.Floor(rule, "undecorated sources in paramGroupedSlice.Build", len(sources), 2) {
				g1 := an.NewGates().AddEdges(an.NilErrEdges(fn, cgd[0], -1)...)
				g2 := an.NewGates().AddEdges(an.BoolEdges(fn, func(v ssa.Value) bool {
					ex, ok := v.(*ssa.Extract)
					return ok && ex.Tuple == ssa.Value(gdv[0]) && ex.Index == 1
				}, false)...)
				for i, s := range sources {
					cons := fmt.Sprintf("paramGroupedSlice.Build: undecorated source #%d (%s) only after group decorators ran and no decorated group exists", i+1, an.CalleeName(s.(ssa.CallInstruction)))
					h1, p1 := an.PathTo(fn, nil, an.IsInstr(s), g1)
					h2, p2 := an.PathTo(fn, nil, an.IsInstr(s), g2)
					switch {
					case g1.Len() == 0 || g2.Len() == 0:
						c.Bad(rule, cons, "the result of a decorated lookup is never tested", s, nil)
					case h1 != nil:
						c.Bad(rule, cons, "reachable without callGroupDecorators having succeeded", s, an.BlockPath(c.P, p1))
					case h2 != nil:
						c.Bad(rule, cons, "reachable although a decorated group exists: consumers below a group decorator receive undecorated members", s, an.BlockPath(c.P, p2))
					default:
						c.OK(rule, cons, "dominated", s)
					}
				}
				if hit, _ := an.PathTo(fn, nil, an.IsInstr(gdv[0]), an.NewGates().AddInstr(cgd[0])); hit != nil {
					c.Bad(rule, "paramGroupedSlice.Build: group decorators run before decorated groups are read", "getDecoratedValues can run first", gdv[0], nil)
				} else {
					c.OK(rule, "paramGroupedSlice.Build: group decorators run before decorated groups are read", "ordered", gdv[0])
				}
				okRet := false
				an.Instrs(fn, func(in ssa.Instruction) {
					if r, ok := in.(*ssa.Return); ok {
						if ex, ok := an.Resolve(r.Results[0]).(*ssa.Extract); ok && ex.Tuple == ssa.Value(gdv[0]) && ex.Index == 0 {
							okRet = true
						}
					}
				})
				c.Check(okRet, rule, "paramGroupedSlice.Build: a decorated group is returned as is", "return decoratedItems", "the decorated slice is not returned", gdv[0], nil)
			}
		}
	}
}

// ruleSoft (G-soft, C11).
func ruleSoft(rule string) RuleFn {
	return func(c *an.Ctx) {
		c.Rule(rule, "G-soft: in paramGroupedSlice.Build every call that can reach a constructor execution (constructorNode.Call) other than through a decorator execution (CHA with decoratorNode.Call removed) is dominated by the false edge of the receiver's Soft; the Soft field is set only from parseGroupString's \"soft\" option")
		fn := c.Fn(rule, "(dig.paramGroupedSlice).Build")
		ctorCall := c.Fn(rule, "(*dig.constructorNode).Call")
		decCall := c.Fn(rule, "(*dig.decoratorNode).Call")
		if fn == nil || ctorCall == nil || decCall == nil {
			return
		}
		gates := an.NewGates().AddEdges(an.BoolEdges(fn, func(v ssa.Value) bool { return an.Norm(v) == "p:pt.Soft" }, false)...)
		n := 0
		an.Instrs(fn, func(in ssa.Instruction) {
			call, ok := in.(ssa.CallInstruction)
			if !ok {
				return
			}
			var via []string
			for _, callee := range an.CalleesAt(c.P.CHA(), call) {
				if callee == decCall {
					continue
				}
				if callee == ctorCall {
					via = []string{an.ShortName(callee)}
					break
				}
				if p := an.CGReach(c.P.CHA(), callee, func(f *ssa.Function) bool { return f == ctorCall }, func(f *ssa.Function) bool { return f == decCall }); p != nil {
					via = p
					break
				}
			}
			if via == nil {
				return
			}
			n++
			cons := "paramGroupedSlice.Build: " + an.CalleeName(call) + " (can execute constructors) only for non-soft groups"
			if gates.Len() == 0 {
				c.Bad(rule, cons, "Soft is never tested in Build: a soft group triggers its constructors", in, via)
				return
			}
			if hit, path := an.PathTo(fn, nil, an.IsInstr(in), gates); hit != nil {
				c.Bad(rule, cons, "reachable without crossing the !Soft edge: a soft group parameter runs constructors", in, append(an.BlockPath(c.P, path), via...))
			} else {
				c.OK(rule, cons, "dominated by !pt.Soft", in)
			}
		})
		c.Floor(rule, "constructor-executing calls in paramGroupedSlice.Build", n, 1)
		// Soft writers
		nw := 0
		for _, f := range c.P.Funcs {
			an.Instrs(f, func(in ssa.Instruction) {
				st, ok := in.(*ssa.Store)
				if !ok {
					return
				}
				fa, ok := st.Addr.(*ssa.FieldAddr)
				if !ok || an.FieldName(fa.X.Type(), fa.Field) != "Soft" {
					return
				}
				if an.IsDigNamed(fa.X.Type(), "paramGroupedSlice") {
					nw++
					v := an.Norm(st.Val)
					okv := an.ShortName(f) == "dig.newParamGroupedSlice" && strings.HasSuffix(v, "#0.Soft") && strings.HasPrefix(v, "dig.parseGroupString(")
					c.Check(okv, rule, "paramGroupedSlice.Soft written in "+an.ShortName(f), v, "Soft is set from "+v+", not from the parsed group tag", st, nil)
				}
				if an.IsDigNamed(fa.X.Type(), "group") {
					nw++
					g := an.NewGates().AddEdges(an.EdgesWhere(f, func(ft an.Fact) bool { return strings.HasSuffix(ft.S, ` == "soft")`) })...)
					hit, _ := an.PathTo(f, nil, an.IsInstr(st), g)
					c.Check(an.ShortName(f) == "dig.parseGroupString" && an.Norm(st.Val) == "true" && hit == nil && g.Len() > 0, rule, "group.Soft set only for the \"soft\" option", "under c == \"soft\"", "group.Soft is set outside the \"soft\" case of parseGroupString", st, nil)
				}
			})
		}
		c.Floor(rule, "writers of Soft", nw, 2)
	}
}

// ruleOptZero (G-optzero, C01/C04).
func ruleOptZero(rule string) RuleFn {
	return func(c *an.Ctx) {
		c.Rule(rule, "G-optzero: in paramSingle.Build every reflect.Zero that is returned is dominated by the true edge of ps.Optional and additionally by either len(providers)==0 for the providers that the call loop ranges over (nothing provides the key in any enclosing scope) or the true edge of errors.As(<error of provider.Call>, *errMissingDependencies) (the provider's own dependencies are unavailable); the type argument is the parameter's own type. Nowhere else in the resolution code is a zero value manufactured. So no zero value stands in for an available dependency, and an error returned by a constructor (always errConstructorFailed, rule T-rootcause) is never hidden by an optional tag")
		fn := c.Fn(rule, "(dig.paramSingle).Build")
		if fn == nil {
			return
		}
		zeros := methodCalls(fn, "reflect.Zero")
		if !c.Floor(rule, "reflect.Zero sites in paramSingle.Build", len(zeros), 2) {
			return
		}
		pcalls := an.InvokesOf(fn, "provider", "Call")
		opt := an.BoolEdges(fn, func(v ssa.Value) bool { return an.Norm(v) == "p:ps.Optional" }, true)
		// the providers value the loop ranges over
		var provBase ssa.Value
		if len(pcalls) == 1 {
			provBase = sliceBase(pcalls[0].Common().Value)
		}
		var lenZero []an.Edge
		if provBase != nil {
			lenZero = an.EdgesWhere(fn, an.FactIs("(len("+an.Norm(provBase)+") == 0)"))
		}
		var asEdges []an.Edge
		// (f) the verdict "its own dependencies are unavailable" is read off links that dig created only: a helper that
		// walks the chain by Unwrap and stops at errConstructorFailed / the first foreign link - never errors.As over the
		// whole chain, which also finds a missing-dependencies error INSIDE the error a constructor returned
		for _, k := range methodCalls(fn, "errors.As") {
			a := k.Common().Args
			if mi, ok := a[1].(*ssa.MakeInterface); ok && an.IsDigNamed(mi.X.Type(), "errMissingDependencies") {
				c.Bad(rule, "paramSingle.Build: 'missing dependencies' is recognised on dig's own links only", "errors.As(err, *errMissingDependencies) searches the whole chain, including the error a constructor returned (errConstructorFailed.Reason): a constructor that fails with an error wrapping such a dig error - e.g. the failure of a nested Invoke - is treated as 'dependencies unavailable' and an optional consumer silently gets the zero value", k, nil)
			}
		}
		if h := c.P.Func("dig.missingDependencies"); h != nil {
			c.See(h)
			if boundedMissingDeps(h) {
				for _, k := range methodCalls(fn, "dig.missingDependencies") {
					if len(pcalls) == 1 && an.Resolve(k.Common().Args[0]) == ssa.Value(pcalls[0].(*ssa.Call)) {
						kk := k
						asEdges = append(asEdges, an.BoolEdges(fn, func(v ssa.Value) bool { return v == ssa.Value(kk) }, true)...)
					}
				}
			} else {
				c.BadAt(rule, "missingDependencies follows dig's own links only", "the helper does not stop at errConstructorFailed and at foreign errors, or reports true without having found an errMissingDependencies link", c.P.Pos(h.Pos()), nil)
			}
		}
		for _, k := range methodCalls(fn, "errors.As") {
			a := k.Common().Args
			if len(pcalls) == 1 && an.Resolve(a[0]) == ssa.Value(pcalls[0].(*ssa.Call)) {
				if mi, ok := a[1].(*ssa.MakeInterface); ok && an.IsDigNamed(mi.X.Type(), "errMissingDependencies") {
					kk := k
					asEdges = append(asEdges, an.BoolEdges(fn, func(v ssa.Value) bool { return v == ssa.Value(kk) }, true)...)
				}
			}
		}
		for i, z := range zeros {
			cons := fmt.Sprintf("paramSingle.Build: zero value #%d only for an optional parameter whose provider is absent or lacks dependencies", i+1)
			c.Check(an.Norm(z.Common().Args[0]) == "p:ps.Type", rule, fmt.Sprintf("paramSingle.Build: zero value #%d has the parameter's type", i+1), "reflect.Zero(ps.Type)", "zero of "+an.Norm(z.Common().Args[0]), z, nil)
			if len(opt) == 0 {
				c.Bad(rule, cons, "ps.Optional is never tested", z, nil)
				continue
			}
			if hit, path := an.PathTo(fn, nil, an.IsInstr(z), an.NewGates().AddEdges(opt...)); hit != nil {
				c.Bad(rule, cons, "a zero value is produced for a non-optional parameter", z, an.BlockPath(c.P, path))
				continue
			}
			g := an.NewGates().AddEdges(lenZero...).AddEdges(asEdges...)
			if g.Len() == 0 {
				c.Bad(rule, cons, "neither len(providers)==0 nor errors.As(err, *errMissingDependencies) is tested", z, nil)
				continue
			}
			if hit, path := an.PathTo(fn, nil, an.IsInstr(z), g); hit != nil {
				// alternative shape: the search loop over c.storesToRoot() returns from inside as soon as a scope has
				// providers, and the zero value follows the EXHAUSTED loop (every enclosing scope was seen empty)
				if !zeroAfterExhaustedSearch(fn, z, pcalls, g) {
					c.Bad(rule, cons, "a zero value can stand in for a dependency that has a provider whose failure is not 'missing dependencies': the optional tag hides an available dependency or a constructor error", z, an.BlockPath(c.P, path))
					continue
				}
			}
			c.OK(rule, cons, "under Optional and (no provider | errMissingDependencies)", z)
		}
		// zero manufactured nowhere else in resolution code
		for _, name := range []string{"(dig.paramSingle).buildWithDecorators", "(dig.paramSingle).getDecoratedValue", "(dig.paramGroupedSlice).Build", "(dig.paramObject).Build", "(dig.paramList).BuildList", "(dig.paramObjectField).Build"} {
			f := c.Fn(rule, name)
			if f == nil {
				continue
			}
			zs := methodCalls(f, "reflect.Zero")
			c.Check(len(zs) == 0, rule, name+" manufactures no zero value", "no reflect.Zero", "reflect.Zero appears in "+name, nil, nil)
		}
		// Optional has a single writer source
		nOpt := 0
		for _, f := range c.P.Funcs {
			an.Instrs(f, func(in ssa.Instruction) {
				st, ok := in.(*ssa.Store)
				if !ok {
					return
				}
				fa, ok := st.Addr.(*ssa.FieldAddr)
				if !ok || !an.IsDigNamed(fa.X.Type(), "paramSingle") || an.FieldName(fa.X.Type(), fa.Field) != "Optional" {
					return
				}
				nOpt++
				v := an.Norm(an.Resolve(st.Val))
				c.Check(strings.HasPrefix(v, "dig.isFieldOptional(") && strings.HasSuffix(v, "#0"), rule, "paramSingle.Optional written in "+an.ShortName(f), v, "Optional is set from "+v+" rather than from the field's optional tag", st, nil)
			})
		}
		c.Floor(rule, "writers of paramSingle.Optional", nOpt, 1)
	}
}

// sliceBase strips element selection: for xs[i] returns xs.
func sliceBase(v ssa.Value) ssa.Value {
	v = an.Resolve(v)
	switch x := v.(type) {
	case *ssa.UnOp:
		if x.Op == token.MUL {
			if ia, ok := x.X.(*ssa.IndexAddr); ok {
				return ia.X
			}
		}
	case *ssa.Index:
		return x.X
	}
	return nil
}

// ruleProvenance (C03): only the parameters' own keys trigger execution.
func ruleProvenance(rule string) RuleFn {
	return func(c *an.Ctx) {
		c.Rule(rule, "E-FLOW provenance: the receiver of every provider.Call is an element of a slice that originates only from getValueProviders(ps.Name, ps.Type) resp. getGroupProviders(pt.Group, pt.Type.Elem()) of the parameter being built (never from a getAll*Providers accessor, another key or a scope field); the receiver of every decorator.Call originates only from getValueDecorator(ps.Name, ps.Type) resp. getGroupDecorator(pt.Group, pt.Type.Elem())")
		want := map[string][2]string{
			"getValueProviders": {"p:ps.Name", "p:ps.Type"},
			"getGroupProviders": {"p:pt.Group", "p:pt.Type.Elem()"},
			"getValueDecorator": {"p:ps.Name", "p:ps.Type"},
			"getGroupDecorator": {"p:pt.Group", "p:pt.Type.Elem()"},
		}
		check := func(fn *ssa.Function, call ssa.CallInstruction, what string, accessors []string, base ssa.Value) {
			cons := what + " in " + an.ShortName(fn) + " is triggered only by the parameter's own key"
			if base == nil {
				c.Bad(rule, cons, "receiver "+an.Norm(call.Common().Value)+" is not derived from a provider/decorator lookup", call, nil)
				return
			}
			n := 0
			for _, o := range an.Origins(base) {
				if k, ok := o.(*ssa.Const); ok && (k.IsNil() || k.Value == nil) {
					continue
				}
				if ex, ok := o.(*ssa.Extract); ok {
					o = ex.Tuple
				}
				k, ok := o.(*ssa.Call)
				if !ok || !k.Common().IsInvoke() || !an.IsDigNamed(k.Common().Value.Type(), "containerStore") {
					c.Bad(rule, cons, "receiver may originate from "+an.Norm(o), call, nil)
					return
				}
				m := k.Common().Method.Name()
				okm := false
				for _, a := range accessors {
					if a == m {
						okm = true
					}
				}
				if !okm {
					c.Bad(rule, cons, "receiver originates from "+m+": functions outside the demanded key's nearest providers are executed", call, nil)
					return
				}
				a := k.Common().Args
				w := want[m]
				if an.Norm(a[0]) != w[0] || an.Norm(a[1]) != w[1] {
					c.Bad(rule, cons, fmt.Sprintf("%s is asked for (%s, %s) instead of (%s, %s)", m, an.Norm(a[0]), an.Norm(a[1]), w[0], w[1]), call, nil)
					return
				}
				n++
			}
			if n == 0 {
				c.Bad(rule, cons, "no lookup feeds the receiver", call, nil)
				return
			}
			c.OK(rule, cons, fmt.Sprintf("%d lookup origin(s)", n), call)
		}
		np, nd := 0, 0
		for _, fn := range c.P.Funcs {
			for _, call := range an.InvokesOf(fn, "provider", "Call") {
				np++
				check(fn, call, "provider.Call", []string{"getValueProviders", "getGroupProviders"}, sliceBase(call.Common().Value))
			}
			for _, call := range an.InvokesOf(fn, "decorator", "Call") {
				nd++
				check(fn, call, "decorator.Call", []string{"getValueDecorator", "getGroupDecorator"}, call.Common().Value)
			}
		}
		c.Floor(rule, "provider.Call sites", np, 2)
		c.Floor(rule, "decorator.Call sites", nd, 2)
	}
}

// ruleSameInstance (C02): consumers read the one committed instance.
func ruleSameInstance(rule string) RuleFn {
	return func(c *an.Ctx) {
		c.Rule(rule, "same-instance delivery (E-FLOW on return operands): every value paramSingle.Build / buildWithDecorators / getDecoratedValue return comes from containerStore.getValue / getDecoratedValue of a scope, from reflect.Zero, or is _noValue accompanied by an error - never the fresh results of an execution; paramGroupedSlice.Build returns either the decorated group or a slice assembled by reflect.Append only from getValueGroup(pt.Group, pt.Type.Elem()) of the enclosing scopes; after a successful provider call the value is read from the scope in which the provider was found, under the parameter's own key")
		okSource := func(v ssa.Value) (bool, string) {
			v = an.Resolve(v)
			if isNoValue(v) {
				return true, "_noValue"
			}
			if ex, ok := v.(*ssa.Extract); ok && ex.Index == 0 {
				if k, ok := ex.Tuple.(*ssa.Call); ok {
					if k.Common().IsInvoke() && an.IsDigNamed(k.Common().Value.Type(), "containerStore") {
						switch k.Common().Method.Name() {
						case "getValue", "getDecoratedValue", "getDecoratedValueGroup":
							return true, k.Common().Method.Name()
						}
					}
					switch an.CalleeName(k) {
					case "(dig.paramSingle).buildWithDecorators", "(dig.paramSingle).getDecoratedValue", "(dig.paramGroupedSlice).getDecoratedValues":
						return true, an.CalleeName(k)
					}
				}
			}
			if k, ok := v.(*ssa.Call); ok && an.CalleeName(k) == "reflect.Zero" {
				return true, "reflect.Zero"
			}
			// a stored slice converted to the consumer's slice type: same elements, same backing array
			if k, ok := v.(*ssa.Call); ok && an.CalleeName(k) == "(reflect.Value).Convert" {
				if ex, ok := an.Resolve(k.Common().Args[0]).(*ssa.Extract); ok && ex.Index == 0 {
					if lk, ok := ex.Tuple.(*ssa.Call); ok && lk.Common().IsInvoke() && lk.Common().Method.Name() == "getDecoratedValueGroup" {
						return true, "getDecoratedValueGroup (converted)"
					}
				}
			}
			return false, an.Norm(v)
		}
		for _, name := range []string{"(dig.paramSingle).Build", "(dig.paramSingle).buildWithDecorators", "(dig.paramSingle).getDecoratedValue", "(dig.paramGroupedSlice).getDecoratedValues"} {
			fn := c.Fn(rule, name)
			if fn == nil {
				continue
			}
			n := 0
			an.Instrs(fn, func(in ssa.Instruction) {
				r, ok := in.(*ssa.Return)
				if !ok {
					return
				}
				n++
				for _, o := range an.Origins(an.Resolve(r.Results[0])) {
					ok, src := okSource(o)
					cons := fmt.Sprintf("%s: return #%d delivers a stored instance", name, n)
					if ok && src == "_noValue" && name == "(dig.paramSingle).Build" {
						// must come with an error
						if !noValueOnlyWithError(fn, r) {
							c.Bad(rule, cons, "_noValue is returned without an error", r, nil)
							continue
						}
					}
					c.Check(ok, rule, cons, src, "returns "+src+", which is not read from a scope's value store", r, nil)
				}
			})
			c.Floor(rule, "returns of "+name, n, 2)
		}
		// the post-call read in paramSingle.Build
		if fn := c.P.Func("(dig.paramSingle).Build"); fn != nil {
			pcalls := an.InvokesOf(fn, "provider", "Call")
			for _, k := range invokeNamed(fn, "getValue") {
				// the one after the provider loop: reachable from provider.Call
				if len(pcalls) != 1 {
					continue
				}
				if hit, _ := an.PathTo(fn, pcalls[0], an.IsInstr(k), nil); hit == nil {
					continue
				}
				if hit, _ := an.PathTo(fn, k, an.IsInstr(pcalls[0]), nil); hit != nil {
					continue // inside the search loop, not the post-call read
				}
				a := k.Common().Args
				c.Check(an.Norm(a[0]) == "p:ps.Name" && an.Norm(a[1]) == "p:ps.Type", rule, "paramSingle.Build: the built value is read under the parameter's own key", "(ps.Name, ps.Type)", "read under ("+an.Norm(a[0])+", "+an.Norm(a[1])+")", k, nil)
				// receiver = the container in which providers were found
				provBase := sliceBase(pcalls[0].Common().Value)
				okRecv := false
				if provBase != nil {
					for _, o := range an.Origins(provBase) {
						if pk, ok := o.(*ssa.Call); ok && pk.Common().IsInvoke() && pk.Common().Method.Name() == "getValueProviders" {
							for _, ro := range an.Origins(k.Common().Value) {
								if ro == pk.Common().Value {
									okRecv = true
								}
							}
						}
					}
				}
				c.Check(okRecv, rule, "paramSingle.Build: the built value is read from the scope that provides it", an.Norm(k.Common().Value), "the value is read from "+an.Norm(k.Common().Value)+", not from the store whose getValueProviders supplied the provider", k, nil)
			}
		}
		// grouped
		if fn := c.Fn(rule, "(dig.paramGroupedSlice).Build"); fn != nil {
			apps := methodCalls(fn, "reflect.Append")
			c.Floor(rule, "reflect.Append in paramGroupedSlice.Build", len(apps), 1)
			for _, a := range apps {
				v := an.Resolve(a.Common().Args[1])
				k, ok := v.(*ssa.Call)
				good := ok && k.Common().IsInvoke() && k.Common().Method.Name() == "getValueGroup" &&
					an.Norm(k.Common().Args[0]) == "p:pt.Group" && an.Norm(k.Common().Args[1]) == "p:pt.Type.Elem()" &&
					strings.HasPrefix(an.Norm(k.Common().Value), "p:c.storesToRoot()[")
				c.Check(good, rule, "paramGroupedSlice.Build: members come from getValueGroup(pt.Group, pt.Type.Elem()) of the enclosing scopes", an.Norm(v), "members appended from "+an.Norm(v), a, nil)
			}
			an.Instrs(fn, func(in ssa.Instruction) {
				r, ok := in.(*ssa.Return)
				if !ok {
					return
				}
				for _, o := range an.Origins(an.Resolve(r.Results[0])) {
					s := an.Norm(o)
					good := isNoValue(o) || strings.HasPrefix(s, "reflect.MakeSlice(p:pt.Type,") || strings.HasPrefix(s, "reflect.Append(") || s == "p:pt.getDecoratedValues(p:c)#0"
					c.Check(good, rule, "paramGroupedSlice.Build: returned slice is assembled from stored members", s, "returns "+s, r, nil)
				}
			})
		}
	}
}

// ruleNoEarlyExit (C10): every enclosing scope contributes.
func ruleNoEarlyExit(rule string) RuleFn {
	return func(c *an.Ctx) {
		c.Rule(rule, "no-early-exit: the loop over c.storesToRoot() in callGroupProviders (calling every group provider of every enclosing scope) and the concatenation loop in paramGroupedSlice.Build leave the loop only by exhausting the range or by returning a non-nil error; the inner loop over providers calls every provider (no exit other than the error return); shuffledCopy returns a fresh slice of the same length (getValueGroup hands out a copy)")
		type spec struct {
			fn, over string
			needCall string
		}
		for _, sp := range []spec{
			{"(dig.paramGroupedSlice).callGroupProviders", "p:c.storesToRoot()", "getGroupProviders"},
			{"(dig.paramGroupedSlice).Build", "p:c.storesToRoot()", "getValueGroup"},
		} {
			fn := c.Fn(rule, sp.fn)
			if fn == nil {
				continue
			}
			var loops []*rangeLoop
			inLoop := map[ssa.Instruction]bool{}
			for _, l := range rangeLoops(fn) {
				if l.over != sp.over {
					continue
				}
				has := false
				for b := range l.body {
					for _, in := range b.Instrs {
						if k, ok := in.(*ssa.Call); ok && k.Common().IsInvoke() && k.Common().Method.Name() == sp.needCall {
							has = true
							inLoop[in] = true
						}
					}
				}
				if has {
					loops = append(loops, l)
				}
			}
			cons := sp.fn + ": every enclosing scope contributes (" + sp.needCall + " for each store up to the root)"
			if len(loops) == 0 {
				c.BadAt(rule, cons, "no loop over "+sp.over+" containing "+sp.needCall+": only some of the enclosing scopes are consulted", c.P.Pos(fn.Pos()), nil)
				continue
			}
			bad := false
			// every use of the accessor sits in such a loop
			an.Instrs(fn, func(in ssa.Instruction) {
				if k, ok := in.(*ssa.Call); ok && k.Common().IsInvoke() && k.Common().Method.Name() == sp.needCall && !inLoop[in] {
					bad = true
					c.Bad(rule, cons, sp.needCall+" is also used outside a loop over "+sp.over+": that path consults only some of the enclosing scopes", in, nil)
				}
			})
			var loop *rangeLoop
			for _, loop = range loops {
				for _, e := range loop.earlyExits() {
					tgt := e.From.Succs[e.Succ]
					// every return reachable from the exit target must be an error return
					var offending *ssa.Return
					seen := map[*ssa.BasicBlock]bool{}
					stack := []*ssa.BasicBlock{tgt}
					for len(stack) > 0 {
						b := stack[len(stack)-1]
						stack = stack[:len(stack)-1]
						if seen[b] || loop.body[b] || b == loop.header {
							continue
						}
						seen[b] = true
						for _, in := range b.Instrs {
							if r, ok := in.(*ssa.Return); ok && !isErrorExit(r) {
								offending = r
							}
						}
						stack = append(stack, b.Succs...)
					}
					// leaving the loop into code that continues normally
					if offending != nil || reachesNormalContinuation(tgt, loop) {
						bad = true
						c.Bad(rule, cons, "the loop can be left early without an error (break/return inside the loop): scopes further up are skipped and their members are lost", e.From.Instrs[len(e.From.Instrs)-1], nil)
					}
				}
			}
			if !bad {
				c.OK(rule, cons, fmt.Sprintf("%d loop(s) over %s: only the exhausted-range exit and error returns", len(loops), sp.over), loop.header.Instrs[0])
			}
			// inner provider loop in callGroupProviders
			if sp.needCall == "getGroupProviders" {
				pcalls := an.InvokesOf(fn, "provider", "Call")
				if len(pcalls) == 1 {
					var inner *rangeLoop
					for _, l := range rangeLoops(fn) {
						if l != loop && l.body[pcalls[0].Block()] && len(l.body) < len(loop.body)+1 {
							if inner == nil || len(l.body) < len(inner.body) {
								inner = l
							}
						}
					}
					okInner := inner != nil
					if inner != nil {
						for _, e := range inner.earlyExits() {
							tgt := e.From.Succs[e.Succ]
							if loop.body[tgt] || tgt == loop.header {
								okInner = false // continue-outer: skips remaining providers
								continue
							}
							for _, in := range tgt.Instrs {
								if r, ok := in.(*ssa.Return); ok && !isErrorExit(r) {
									okInner = false
								}
							}
						}
					}
					c.Check(okInner, rule, sp.fn+": every provider of a scope is called", "inner loop exits only by error", "the loop over a scope's group providers can stop before all were called", pcalls[0], nil)
					// (round 14) the loop over a scope's providers is entered for every scope: no path from
					// the getGroupProviders call to the next scope goes around it, except on the edge that
					// says the list is empty
					if inner != nil {
						for gp := range inLoop {
							if !loop.body[gp.Block()] {
								continue
							}
							emptyEdge := func(b *ssa.BasicBlock) int {
								iff, ok := b.Instrs[len(b.Instrs)-1].(*ssa.If)
								if !ok {
									return -1
								}
								bo, ok := an.Resolve(iff.Cond).(*ssa.BinOp)
								if !ok {
									return -1
								}
								isLen := func(v ssa.Value) bool {
									k, ok := an.Resolve(v).(*ssa.Call)
									if !ok || len(k.Call.Args) != 1 {
										return false
									}
									if bi, ok := k.Call.Value.(*ssa.Builtin); !ok || bi.Name() != "len" {
										return false
									}
									return an.Resolve(k.Call.Args[0]) == ssa.Value(gp.(*ssa.Call))
								}
								isZero := func(v ssa.Value) bool {
									k, ok := v.(*ssa.Const)
									return ok && k.Value != nil && k.Value.ExactString() == "0"
								}
								if !(isLen(bo.X) && isZero(bo.Y)) && !(isLen(bo.Y) && isZero(bo.X)) {
									return -1
								}
								switch bo.Op {
								case token.EQL:
									return 0
								case token.NEQ:
									return 1
								case token.GTR:
									if isLen(bo.X) {
										return 1
									}
								case token.LSS:
									if isLen(bo.Y) {
										return 1
									}
								}
								return -1
							}
							around := false
							seen := map[*ssa.BasicBlock]bool{}
							stack := []*ssa.BasicBlock{gp.Block()}
							for len(stack) > 0 {
								b := stack[len(stack)-1]
								stack = stack[:len(stack)-1]
								if seen[b] || b == inner.header {
									continue
								}
								seen[b] = true
								skip := emptyEdge(b)
								for i, s := range b.Succs {
									if i == skip {
										continue
									}
									if s == loop.header {
										around = true
										continue
									}
									if loop.body[s] {
										stack = append(stack, s)
									}
								}
							}
							c.Check(!around, rule, sp.fn+": the providers of every scope are asked, whatever the scope already holds", "every path from getGroupProviders to the next scope passes through the loop over the providers (or the list is empty)", "a path from getGroupProviders to the next enclosing scope goes around the loop that calls the providers: a scope judged 'already built' (by counting stored values, a memo, a flag) is skipped, and a constructor added to it after the first request never runs - its members are missing from every later request", gp, nil)
						}
					}
				}
			}
		}
		if sc := c.Fn(rule, "dig.shuffledCopy"); sc != nil {
			ok := false
			an.Instrs(sc, func(in ssa.Instruction) {
				if r, isR := in.(*ssa.Return); isR {
					if ms, isMS := an.Resolve(r.Results[0]).(*ssa.MakeSlice); isMS && an.Norm(ms.Len) == "len(p:items)" {
						ok = true
					}
				}
			})
			c.Check(ok, rule, "shuffledCopy returns a fresh slice of the same length", "make([]reflect.Value, len(items))", "shuffledCopy does not return a freshly made slice of len(items)", nil, nil)
		}
		if gv := c.Fn(rule, "(*dig.Scope).getValueGroup"); gv != nil {
			ok := false
			an.Instrs(gv, func(in ssa.Instruction) {
				if r, isR := in.(*ssa.Return); isR {
					if k, isK := an.Resolve(r.Results[0]).(*ssa.Call); isK && an.CalleeName(k) == "dig.shuffledCopy" {
						ok = true
					}
				}
			})
			c.Check(ok, rule, "getValueGroup hands out a copy", "shuffledCopy(...)", "getValueGroup returns the stored slice itself", nil, nil)
		}
	}
}

func reachesNormalContinuation(tgt *ssa.BasicBlock, l *rangeLoop) bool {
	// the target of the header's false edge is the normal exit; an early exit
	// that merges into it continues normally.
	normal := l.header.Succs[1]
	if tgt == normal {
		return true
	}
	seen := map[*ssa.BasicBlock]bool{}
	stack := []*ssa.BasicBlock{tgt}
	for len(stack) > 0 {
		b := stack[len(stack)-1]
		stack = stack[:len(stack)-1]
		if b == normal {
			return true
		}
		if seen[b] || l.body[b] || b == l.header {
			continue
		}
		seen[b] = true
		stack = append(stack, b.Succs...)
	}
	return false
}

// ruleMissingPredicate (C04).
func ruleMissingPredicate(rule string) RuleFn {
	return func(c *an.Ctx) {
		c.Rule(rule, "missing-predicate: in findMissingDependencies a paramSingle is reported missing on exactly the path that crosses len(getAllValueProviders(p.Name,p.Type))==0, no decorated value in any enclosing scope (the walk paramSingle.Build itself uses) and !p.Optional; it recurses into the fields of a paramObject; shallowCheckDependencies returns a non-nil error iff that list is non-empty")
		fn := c.Fn(rule, "dig.findMissingDependencies")
		if fn == nil {
			return
		}
		// the append of a paramSingle
		var app ssa.Instruction
		an.Instrs(fn, func(in ssa.Instruction) {
			if st, ok := in.(*ssa.Store); ok && strings.HasSuffix(an.Norm(st.Val), ".(dig.paramSingle)#0") && strings.HasPrefix(an.Norm(st.Addr), "&new:varargs[") {
				app = in
			}
		})
		if app == nil {
			c.BadAt(rule, "findMissingDependencies reports missing paramSingles", "no append of a paramSingle to the missing list", c.P.Pos(fn.Pos()), nil)
			return
		}
		type cond struct {
			name string
			pred func(an.Fact) bool
		}
		conds := []cond{
			{"no provider in any enclosing scope", func(f an.Fact) bool {
				return regexp.MustCompile(`^\(len\(p:c\.getAllValueProviders\((.*)\.Name, (.*)\.Type\)\) == 0\)$`).MatchString(f.S)
			}},
			{"no decorated value in any enclosing scope", func(f an.Fact) bool {
				// the same walk as paramSingle.Build uses: (paramSingle).getDecoratedValue(c) looks through storesToRoot()
				return regexp.MustCompile(`^!.*\.\(dig\.paramSingle\)#0\.getDecoratedValue\(p:c\)#1$`).MatchString(f.S)
			}},
			{"not optional", func(f an.Fact) bool {
				return regexp.MustCompile(`^!.*\.\(dig\.paramSingle\)#0\.Optional$`).MatchString(f.S)
			}},
		}
		all := an.NewGates()
		for _, cd := range conds {
			edges := an.EdgesWhere(fn, cd.pred)
			cons := "findMissingDependencies: missing only if " + cd.name
			if len(edges) == 0 {
				detail := "condition not tested"
				if strings.Contains(cd.name, "decorated") && len(an.EdgesWhere(fn, func(f an.Fact) bool {
					return regexp.MustCompile(`^!p:c\.getDecoratedValue\((.*)\.Name, (.*)\.Type\)#1$`).MatchString(f.S)
				})) > 0 {
					detail = "the pre-flight check looks for a decorated value in the requesting scope only (c.getDecoratedValue), while paramSingle.Build finds it in any enclosing scope: a value that a decorator of an ancestor scope has produced, for a type nobody provides, is handed out in that scope but reported as a missing type in its descendants"
				}
				c.Bad(rule, cons, detail, app, nil)
				continue
			}
			all.AddEdges(edges...)
			if hit, path := an.PathTo(fn, nil, an.IsInstr(app), an.NewGates().AddEdges(edges...)); hit != nil {
				c.Bad(rule, cons, "a parameter can be reported missing without this condition", app, an.BlockPath(c.P, path))
			} else {
				c.OK(rule, cons, "dominates the report", app)
			}
		}
		// converse: once all three hold, the report is made (the last edge leads straight to the append)
		last := an.EdgesWhere(fn, conds[2].pred)
		conv := false
		for _, e := range last {
			tgt := e.From.Succs[e.Succ]
			if tgt == app.Block() {
				conv = true
			}
		}
		// and no further condition between: the append block has exactly one predecessor
		c.Check(conv && len(app.Block().Preds) == 1, rule, "findMissingDependencies: a parameter satisfying all three conditions is reported", "the conjunction leads straight to the report", "an additional condition guards the report: some missing dependencies are not detected before execution", app, nil)
		// recursion into paramObject
		rec := false
		for _, k := range methodCalls(fn, "dig.findMissingDependencies") {
			if k.Parent() == fn {
				an.Instrs(fn, func(in ssa.Instruction) {
					if st, ok := in.(*ssa.Store); ok && strings.Contains(an.Norm(st.Val), ".(dig.paramObject)#0.Fields[") && strings.HasSuffix(an.Norm(st.Val), ".Param") {
						rec = true
					}
				})
			}
		}
		c.Check(rec, rule, "findMissingDependencies recurses into parameter-object fields", "f.Param of every field", "fields of dig.In parameter objects are not checked", nil, nil)
		// shallowCheckDependencies
		if sh := c.Fn(rule, "dig.shallowCheckDependencies"); sh != nil {
			okNil, okErr := false, false
			an.Instrs(sh, func(in ssa.Instruction) {
				r, ok := in.(*ssa.Return)
				if !ok {
					return
				}
				v := an.Resolve(r.Results[0])
				if k, ok := v.(*ssa.Const); ok && k.IsNil() {
					g := an.NewGates().AddEdges(an.EdgesWhere(sh, func(f an.Fact) bool { return strings.HasPrefix(f.S, "(len(") && strings.HasSuffix(f.S, " == 0)") })...)
					if hit, _ := an.PathTo(sh, nil, an.IsInstr(r), g); hit == nil && g.Len() > 0 {
						okNil = true
					}
					return
				}
				if _, ok := v.(*ssa.MakeInterface); ok {
					okErr = true
				}
			})
			c.Check(okNil && okErr, rule, "shallowCheckDependencies: nil iff nothing is missing", "len(err) > 0 decides", "shallowCheckDependencies can return nil although dependencies are missing (or never returns an error)", nil, nil)
			// it asks findMissingDependencies about pl.Params in view c
			okCall := false
			for _, k := range methodCalls(sh, "dig.findMissingDependencies") {
				if an.Norm(k.Common().Args[0]) == "p:c" && strings.HasPrefix(an.Norm(k.Common().Args[1]), "p:pl.Params") {
					okCall = true
				}
			}
			c.Check(okCall, rule, "shallowCheckDependencies checks its own parameter list in its own view", "findMissingDependencies(c, pl.Params...)", "different list or view", nil, nil)
		}
	}
}

// noValueOnlyWithError: no path reaches return r with result #0 = _noValue and
// result #1 = nil. Decided path-sensitively when the operands are merged
// values (a helper with several returns that was unwrapped), otherwise by the
// dominating non-nil test.
func noValueOnlyWithError(fn *ssa.Function, r *ssa.Return) bool {
	_, p0 := an.Resolve(r.Results[0]).(*ssa.Phi)
	_, p1 := an.Resolve(r.Results[1]).(*ssa.Phi)
	if !p0 && !p1 {
		return provablyNonNil(fn, r, r.Results[1], nil)
	}
	res := an.PathSens(an.PSQuery{Fn: fn, Target: func(i ssa.Instruction, env *an.PEnv) bool {
		if i != ssa.Instruction(r) {
			return false
		}
		v := an.Resolve(env.Val(r.Results[0]))
		if !isNoValue(v) {
			return false
		}
		e := an.Resolve(env.Val(r.Results[1]))
		if _, ok := e.(*ssa.MakeInterface); ok {
			return false
		}
		if k, ok := e.(*ssa.Const); ok && k.IsNil() {
			return true
		}
		return !provablyNonNil(fn, r, e, nil)
	}})
	return res.Found == nil && !res.Overflow
}

// zeroAfterExhaustedSearch: z lies behind the exhausted exit of the loop over
// c.storesToRoot() that looks the providers up, and cannot be reached from a
// provider call or from a "this scope has providers" edge except through the
// gates (len==0 of the looked-up providers, errors.As(missing dependencies)).
func zeroAfterExhaustedSearch(fn *ssa.Function, z ssa.Instruction, pcalls []ssa.CallInstruction, gates *an.Gates) bool {
	var loop *rangeLoop
	var lookups []*ssa.Call
	for _, l := range rangeLoops(fn) {
		if l.over != "p:c.storesToRoot()" {
			continue
		}
		for b := range l.body {
			for _, in := range b.Instrs {
				if k, ok := in.(*ssa.Call); ok && k.Common().IsInvoke() && k.Common().Method.Name() == "getValueProviders" {
					loop = l
					lookups = append(lookups, k)
				}
			}
		}
	}
	if loop == nil || loop.body[z.Block()] {
		return false
	}
	// every path to z passes the exhausted exit (false edge of the loop test)
	exit := an.Edge{From: loop.header, Succ: 1}
	if hit, _ := an.PathTo(fn, nil, an.IsInstr(z), an.NewGates().AddEdges(exit)); hit != nil {
		return false
	}
	// starts: provider calls and non-empty edges of the looked-up providers
	var starts []ssa.Instruction
	for _, p := range pcalls {
		starts = append(starts, p)
	}
	for _, lk := range lookups {
		for _, e := range an.EdgesWhere(fn, an.FactIs("(len("+an.Norm(lk)+") != 0)", "(len("+an.Norm(lk)+") > 0)")) {
			starts = append(starts, e.From.Succs[e.Succ].Instrs[0])
		}
		gates.AddEdges(an.EdgesWhere(fn, an.FactIs("(len("+an.Norm(lk)+") == 0)"))...)
	}
	if len(starts) == 0 {
		return false
	}
	for _, st := range starts {
		if st == z {
			return false
		}
		if hit, _ := an.PathTo(fn, st, an.IsInstr(z), gates); hit != nil {
			return false
		}
	}
	return true
}

// boundedMissingDeps: every `return true` of the helper is dominated by a
// successful type test for errMissingDependencies; it contains a type test for
// errConstructorFailed whose success leads to `return false` without another
// Unwrap; it never calls errors.As/errors.Is.
func boundedMissingDeps(h *ssa.Function) bool {
	if len(an.CallsNamed(h, "errors.As")) > 0 || len(an.CallsNamed(h, "errors.Is")) > 0 {
		return false
	}
	isTA := func(v ssa.Value, typ string) bool {
		ex, ok := v.(*ssa.Extract)
		if !ok || ex.Index != 1 {
			return false
		}
		ta, ok := ex.Tuple.(*ssa.TypeAssert)
		return ok && an.IsDigNamed(ta.AssertedType, typ)
	}
	hit := an.BoolEdges(h, func(v ssa.Value) bool { return isTA(v, "errMissingDependencies") }, true)
	stop := an.BoolEdges(h, func(v ssa.Value) bool { return isTA(v, "errConstructorFailed") }, true)
	stopD := an.BoolEdges(h, func(v ssa.Value) bool { return isTA(v, "errDecoratorFailed") }, true)
	if len(hit) == 0 || len(stop) == 0 || len(stopD) == 0 {
		return false
	}
	stop = append(stop, stopD...)
	ok := true
	an.Instrs(h, func(in ssa.Instruction) {
		r, isR := in.(*ssa.Return)
		if !isR || len(r.Results) != 1 {
			return
		}
		if an.Norm(r.Results[0]) == "true" {
			if p, _ := an.PathTo(h, nil, an.IsInstr(r), an.NewGates().AddEdges(hit...)); p != nil {
				ok = false
			}
		}
	})
	uw := an.CallsNamed(h, "errors.Unwrap")
	var uwi []ssa.Instruction
	for _, u := range uw {
		uwi = append(uwi, u)
	}
	for _, e := range stop {
		first := e.From.Succs[e.Succ].Instrs[0]
		for _, u := range uwi {
			if first == u {
				ok = false
			}
			if p, _ := an.PathTo(h, first, an.IsInstr(u), nil); p != nil {
				ok = false
			}
		}
	}
	// the walk goes on exactly over the links dig created: Unwrap is reached over the "is a digError" edge and
	// never over its negation (a link dig did not create ends the search; a dig link that is neither of the two
	// above does not - an optional parameter is unavailable also when the dependencies of its constructor's
	// dependencies are missing)
	isDig := an.BoolEdges(h, func(v ssa.Value) bool { return isTA(v, "digError") || isTA(v, "Error") }, true)
	notDig := an.BoolEdges(h, func(v ssa.Value) bool { return isTA(v, "digError") || isTA(v, "Error") }, false)
	if len(isDig) == 0 || len(notDig) == 0 {
		return false
	}
	reach := func(es []an.Edge) bool {
		for _, e := range es {
			first := e.From.Succs[e.Succ].Instrs[0]
			for _, u := range uwi {
				if first == u {
					return true
				}
				// stay inside this iteration: do not pass the loop's other tests again
				if p, _ := an.PathTo(h, first, an.IsInstr(u), an.NewGates().AddEdges(hit...).AddEdges(stop...).AddEdges(isDig...).AddEdges(notDig...)); p != nil {
					return true
				}
			}
		}
		return false
	}
	if !reach(isDig) || reach(notDig) {
		ok = false
	}
	return ok && len(uw) > 0
}
