package rules

import (
	"fmt"
	"go/types"
	"sort"
	"strings"

	"golang.org/x/tools/go/callgraph"
	"golang.org/x/tools/go/ssa"

	"verif/checker/internal/an"
)

// sinkFuncs returns the functions (whole program) that contain a user-code
// sink instruction, with the sink kinds they contain.
func sinkFuncs(c *an.Ctx) map[*ssa.Function][]string {
	out := map[*ssa.Function][]string{}
	for _, fn := range c.P.Funcs {
		for _, s := range an.Sinks(fn) {
			out[fn] = append(out[fn], an.SinkKind(s))
		}
	}
	return out
}

// executors are the functions that call through an invokerFn value.
func executors(c *an.Ctx) []*ssa.Function {
	var out []*ssa.Function
	for _, fn := range c.P.Funcs {
		if len(an.Sinks(fn, "invokerFn")) > 0 {
			out = append(out, fn)
		}
	}
	sort.Slice(out, func(i, j int) bool { return out[i].String() < out[j].String() })
	return out
}

// publicRoots lists exported functions and exported methods of exported types
// of package dig.
func publicRoots(c *an.Ctx) []*ssa.Function {
	var out []*ssa.Function
	for _, fn := range c.P.Funcs {
		if fn.Parent() != nil || fn.Pkg != c.P.Dig || fn.Synthetic != "" {
			continue
		}
		o := fn.Object()
		if o == nil || !o.Exported() {
			continue
		}
		if recv := fn.Signature.Recv(); recv != nil {
			t := recv.Type()
			if p, ok := t.(*types.Pointer); ok {
				t = p.Elem()
			}
			if n, ok := t.(*types.Named); !ok || !n.Obj().Exported() {
				continue
			}
		}
		out = append(out, fn)
	}
	return out
}

// lazyRoots are the public entry points that must never run user code:
// everything public except Invoke.
func lazyRoots(c *an.Ctx) (roots []*ssa.Function, invoke []*ssa.Function) {
	for _, fn := range publicRoots(c) {
		if fn.Name() == "Invoke" {
			invoke = append(invoke, fn)
			continue
		}
		roots = append(roots, fn)
	}
	return
}

// ruleWReach: no user-code sink is reachable from any public entry point other
// than Invoke, in the given call graph.
func ruleWReach(rule string, graphName string) RuleFn {
	return func(c *an.Ctx) {
		if c.Tier == "thorough" && graphName == "CHA" {
			// thorough tier: both graphs must agree on "unreachable"
			defer ruleWReach(rule+"-vta", "VTA")(c)
		}
		c.Rule(rule, "E-CG must-not-reach: in the "+graphName+" call graph no function containing a user-code sink (call through invokerFn, call through Callback, reflect.Value.Call/CallSlice) is reachable from any exported function or method of package dig other than Invoke; Invoke must reach them (positive control)")
		var g *callgraph.Graph
		if graphName == "VTA" {
			g = c.P.VTA()
		} else {
			g = c.P.CHA()
		}
		sf := sinkFuncs(c)
		if !c.Floor(rule, "functions containing user-code sinks", len(sf), 4) {
			return
		}
		roots, inv := lazyRoots(c)
		if !c.Floor(rule, "public non-Invoke entry points", len(roots), 25) {
			return
		}
		isSink := func(f *ssa.Function) bool { return len(sf[f]) > 0 }
		for _, r := range roots {
			c.See(r)
			path := an.CGReach(g, r, isSink, nil)
			name := an.ShortName(r)
			if path != nil {
				last := path[len(path)-1]
				c.BadAt(rule, name+" must not reach user code", fmt.Sprintf("%s reaches %s which contains a user-code sink", name, last), c.P.Pos(r.Pos()), path)
			} else {
				c.OKAt(rule, name+" must not reach user code", "no sink function reachable in "+graphName, c.P.Pos(r.Pos()))
			}
		}
		// positive control: Invoke reaches each sink kind
		if !c.Floor(rule, "Invoke entry points", len(inv), 2) {
			return
		}
		for _, r := range inv {
			kinds := map[string]bool{}
			reach := an.CGReachSet(g, r, nil)
			for f := range reach {
				for _, k := range sf[f] {
					kinds[k] = true
				}
			}
			var ks []string
			for k := range kinds {
				ks = append(ks, k)
			}
			sort.Strings(ks)
			if kinds["invokerFn"] && kinds["Callback"] && kinds["reflect.Value.Call"] {
				c.OKAt(rule, "positive control: "+an.ShortName(r)+" reaches sinks", strings.Join(ks, ","), c.P.Pos(r.Pos()))
			} else {
				c.Und(rule, "positive control: "+an.ShortName(r)+" reaches sinks", "Invoke no longer reaches all sink kinds ("+strings.Join(ks, ",")+"): the sink definition does not match the code any more")
			}
		}
	}
}

// ruleSealedOptions: every exported option interface has an unexported method,
// so dig's calls of option methods cannot enter user code.
func ruleSealedOptions(rule string) RuleFn {
	return func(c *an.Ctx) {
		c.Rule(rule, "every exported interface of package dig whose name ends in Option has at least one unexported method: only dig can implement it, so applying options never runs user code")
		sc := c.P.Dig.Pkg.Scope()
		n := 0
		for _, nm := range sc.Names() {
			tn, ok := sc.Lookup(nm).(*types.TypeName)
			if !ok || !tn.Exported() || !strings.HasSuffix(nm, "Option") {
				continue
			}
			it, ok := tn.Type().Underlying().(*types.Interface)
			if !ok {
				continue
			}
			n++
			sealed := false
			for i := 0; i < it.NumMethods(); i++ {
				if !it.Method(i).Exported() {
					sealed = true
				}
			}
			if sealed {
				c.OKAt(rule, "interface dig."+nm+" is sealed", "has an unexported method", c.P.Pos(tn.Pos()))
			} else {
				c.BadAt(rule, "interface dig."+nm+" is sealed", "no unexported method: user types can implement it and their methods would run during registration", c.P.Pos(tn.Pos()), nil)
			}
		}
		c.Floor(rule, "exported option interfaces", n, 6)
	}
}

// ruleWSink (C17): reflect.Value.Call only in defaultInvoker; defaultInvoker
// referenced only from newScope and the DryRun option; invokerFn field written
// only by newScope, Scope.Scope (copy of parent's) and the DryRun option;
// dryInvoker has no sink.
func ruleWSink(rule string) RuleFn {
	return func(c *an.Ctx) {
		c.Rule(rule, "E-WHO: reflect.Value.Call/CallSlice occurs only in dig.defaultInvoker; dig.defaultInvoker is referenced only by dig.newScope and dryRunOption.applyOption; every call of a user constructor/decorator/function goes through an invokerFn value; dig.dryInvoker contains no sink; Scope.invokerFn is stored only in newScope (defaultInvoker), Scope.Scope (the parent's value) and dryRunOption.applyOption; it is read only by Scope.invoker, Scope.Invoke and Scope.Scope")
		def := c.Fn(rule, "dig.defaultInvoker")
		dry := c.Fn(rule, "dig.dryInvoker")
		if def == nil || dry == nil {
			return
		}
		// (1) reflect call sites
		nRef := 0
		for _, fn := range c.P.Funcs {
			for _, s := range an.Sinks(fn, "reflect.Value.Call", "reflect.Value.CallSlice") {
				nRef++
				c.Check(fn == def, rule, "reflect call in "+an.ShortName(fn), "the only reflective call site is the default invoker", "user code is called by reflection outside defaultInvoker: DryRun cannot suppress it", s, nil)
			}
		}
		c.Floor(rule, "reflect.Value.Call sites", nRef, 1)
		// (2) references to defaultInvoker / dryInvoker
		allowedDef := map[string]bool{"dig.newScope": true, "(dig.dryRunOption).applyOption": true}
		allowedDry := map[string]bool{"(dig.dryRunOption).applyOption": true}
		nDef, nDry := 0, 0
		for _, fn := range c.P.Funcs {
			an.Instrs(fn, func(in ssa.Instruction) {
				for _, op := range in.Operands(nil) {
					if *op == ssa.Value(def) {
						nDef++
						c.Check(allowedDef[an.ShortName(fn)], rule, "reference to defaultInvoker in "+an.ShortName(fn), "allowed owner", "defaultInvoker referenced outside newScope/DryRun option: a scope could execute user code although the container is dry", in, nil)
					}
					if *op == ssa.Value(dry) {
						nDry++
						c.Check(allowedDry[an.ShortName(fn)], rule, "reference to dryInvoker in "+an.ShortName(fn), "allowed owner", "dryInvoker referenced outside the DryRun option", in, nil)
					}
				}
			})
		}
		c.Floor(rule, "references to defaultInvoker", nDef, 2)
		c.Floor(rule, "references to dryInvoker", nDry, 1)
		// (3) dryInvoker contains no sink and calls nothing that reaches one
		sf := sinkFuncs(c)
		if p := an.CGReach(c.P.CHA(), dry, func(f *ssa.Function) bool { return len(sf[f]) > 0 }, nil); p != nil {
			c.BadAt(rule, "dryInvoker executes nothing", "dryInvoker reaches a user-code sink", c.P.Pos(dry.Pos()), p)
		} else {
			c.OKAt(rule, "dryInvoker executes nothing", "no sink reachable from dryInvoker (CHA)", c.P.Pos(dry.Pos()))
		}
		// in DryRun(true) branch the stored value is dryInvoker
		if ap := c.Fn(rule, "(dig.dryRunOption).applyOption"); ap != nil {
			sts := an.StoresToField(ap, "Scope", "invokerFn")
			okTrue := len(sts) > 0
			isFn := func(v ssa.Value, f *ssa.Function) bool {
				if ct, ok := v.(*ssa.ChangeType); ok {
					v = ct.X
				}
				return v == ssa.Value(f)
			}
			optTrue := an.BoolEdges(ap, func(v ssa.Value) bool {
				s := an.Norm(v)
				return s == "p:o" || s == "bool(p:o)"
			}, true)
			optFalse := an.BoolEdges(ap, func(v ssa.Value) bool {
				s := an.Norm(v)
				return s == "p:o" || s == "bool(p:o)"
			}, false)
			if len(optTrue) == 0 || len(optFalse) == 0 {
				okTrue = false
			}
			for _, st := range sts {
				st := st
				// no path stores dryInvoker without the option being true, none stores defaultInvoker with it being true
				r1 := an.PathSens(an.PSQuery{Fn: ap, Gates: an.NewGates().AddEdges(optTrue...), Target: func(in ssa.Instruction, env *an.PEnv) bool {
					return in == ssa.Instruction(st) && isFn(env.Val(st.Val), dry)
				}})
				r2 := an.PathSens(an.PSQuery{Fn: ap, Gates: an.NewGates().AddEdges(optFalse...), Target: func(in ssa.Instruction, env *an.PEnv) bool {
					return in == ssa.Instruction(st) && isFn(env.Val(st.Val), def)
				}})
				// and something is stored on every path
				if r1.Found != nil || r2.Found != nil || r1.Overflow || r2.Overflow {
					okTrue = false
				}
				for _, o := range an.Origins(st.Val) {
					if !isFn(o, dry) && !isFn(o, def) {
						okTrue = false
					}
				}
			}
			if hit, _ := an.PathTo(ap, nil, an.IsExit, func() *an.Gates {
				g := an.NewGates()
				for _, st := range sts {
					g.AddInstr(st)
				}
				return g
			}()); hit != nil {
				okTrue = false
			}
			c.Check(okTrue, rule, "DryRun(true) installs dryInvoker", "dryInvoker is stored exactly when the option is true, defaultInvoker otherwise", "DryRun(true) does not install dryInvoker exactly for a true option value (or installs something else)", nil, nil)
		}
		// (4) writers and readers of Scope.invokerFn
		writers := map[string]bool{"dig.newScope": true, "(*dig.Scope).Scope": true, "(dig.dryRunOption).applyOption": true}
		readers := map[string]bool{"(*dig.Scope).invoker": true, "(*dig.Scope).Invoke": true, "(*dig.Scope).Scope": true}
		nW, nR := 0, 0
		for _, fn := range c.P.Funcs {
			an.Instrs(fn, func(in ssa.Instruction) {
				fa, ok := in.(*ssa.FieldAddr)
				if !ok || !an.IsDigNamed(fa.X.Type(), "Scope") || an.FieldName(fa.X.Type(), fa.Field) != "invokerFn" {
					return
				}
				for _, r := range an.Referrers(fa) {
					switch x := r.(type) {
					case *ssa.Store:
						if x.Addr == ssa.Value(fa) {
							nW++
							c.Check(writers[an.ShortName(fn)], rule, "write of Scope.invokerFn in "+an.ShortName(fn), "allowed writer", "Scope.invokerFn written outside newScope/Scope.Scope/DryRun option", x, nil)
							continue
						}
						nR++
						c.Check(readers[an.ShortName(fn)], rule, "read of Scope.invokerFn in "+an.ShortName(fn), "allowed reader", "Scope.invokerFn read outside invoker()/Invoke/Scope.Scope (a mode branch?)", x, nil)
					case *ssa.UnOp:
						nR++
						c.Check(readers[an.ShortName(fn)], rule, "read of Scope.invokerFn in "+an.ShortName(fn), "allowed reader", "Scope.invokerFn read outside invoker()/Invoke/Scope.Scope (a mode branch?)", x, nil)
					default:
						c.Bad(rule, "use of &Scope.invokerFn in "+an.ShortName(fn), "address of Scope.invokerFn escapes", r, nil)
					}
				}
			})
		}
		c.Floor(rule, "writers of Scope.invokerFn", nW, 3)
		c.Floor(rule, "readers of Scope.invokerFn", nR, 3)
		// (5) in Scope.Scope the value stored into child.invokerFn is the receiver's invokerFn
		if sc := c.Fn(rule, "(*dig.Scope).Scope"); sc != nil {
			for _, st := range an.StoresToField(sc, "Scope", "invokerFn") {
				s := an.Norm(st.Val)
				c.Check(s == "p:s.invokerFn", rule, "child scope inherits the parent's invoker", "child.invokerFn = s.invokerFn", "child scope's invokerFn is "+s+", not the parent's: a child of a dry container would execute user code (or vice versa)", st, nil)
			}
		}
		// (6) executors obtain the invoker from a Scope/containerStore
		for _, ex := range executors(c) {
			for _, s := range an.Sinks(ex, "invokerFn") {
				v := an.Norm(s.Common().Value)
				ok := strings.HasSuffix(v, ".invoker()") || strings.HasSuffix(v, ".invokerFn")
				c.Check(ok, rule, "invoker used by "+an.ShortName(ex), "invoker value "+v+" is read from the scope", "invoker value "+v+" is not read from a scope's invoker()/invokerFn", s, nil)
			}
		}
	}
}
