// Package rules instantiates the analysis engines for the dig properties
// C01..C20. Every rule is anchored on roles resolved from the type-checked
// program (types, fields, interfaces, API names), never on lines or text.
package rules

import (
	"sort"

	"verif/checker/internal/an"
)

// RuleFn evaluates one rule and records obligations in the context.
type RuleFn func(c *an.Ctx)

// Property bundles the rules deciding the static part of one property.
type Property struct {
	ID          string
	Explanation string
	Assumptions []string
	Rules       []RuleFn
}

var registry = map[string]*Property{}

func register(p *Property) { registry[p.ID] = p }

// Get returns the property bundle.
func Get(id string) *Property { return registry[id] }

// IDs lists the registered properties.
func IDs() []string {
	var out []string
	for k := range registry {
		out = append(out, k)
	}
	sort.Strings(out)
	return out
}

var commonAssumptions = []string{
	"go/types, go/ssa and the CHA/VTA call graphs of golang.org/x/tools v0.29.0 are correct",
	"Go's reflect package behaves as documented",
	"dig uses no unsafe, reflect.MakeFunc, cgo or go:linkname (checked by rule X-nounsafe)",
	"single-goroutine use of a container (dig is documented as not concurrency-safe)",
	"test files are not analysed; the properties are about the library",
}

// CommonAssumptions returns the standing assumptions of every rule.
func CommonAssumptions() []string { return commonAssumptions }
