package rules

import (
	"fmt"
	"regexp"
	"strings"

	"golang.org/x/tools/go/ssa"

	"verif/checker/internal/an"
)

// Rules prompted by the author's mutant sweep (notes/sweep1.json): mechanisms
// that no earlier rule looked at. Each is a structural necessary condition.

// ruleExtractScan (E-scan): every error result is looked at before anything is delivered.
func ruleExtractScan(rule string) RuleFn {
	return func(c *an.Ctx) {
		c.Rule(rule, "E-scan: resultList.ExtractList inspects EVERY returned value whose resultIndexes entry is negative (the error-typed results, wherever they stand in the signature) - a loop over the whole values slice whose only exits are the exhausted range and the return of a non-nil error - before the loop that extracts; the error it returns is the very value asserted out of that result")
		fn := c.Fn(rule, "(dig.resultList).ExtractList")
		if fn == nil {
			return
		}
		var scan *rangeLoop
		var assert *ssa.TypeAssert
		for _, l := range rangeLoops(fn) {
			if l.over != "p:values" {
				continue
			}
			for b := range l.body {
				for _, in := range b.Instrs {
					if ta, ok := in.(*ssa.TypeAssert); ok && ta.AssertedType.String() == "error" && strings.HasPrefix(an.Norm(ta.X), "p:values[") {
						scan, assert = l, ta
					}
				}
			}
		}
		cons := "ExtractList scans every error-typed result"
		if scan == nil {
			c.BadAt(rule, cons, "no loop over the whole values slice that asserts error results: an error that is not in the inspected position is ignored and the values returned next to it are delivered", c.P.Pos(fn.Pos()), nil)
			return
		}
		why := ""
		for _, e := range scan.earlyExits() {
			tgt := e.From.Succs[e.Succ]
			r, ok := tgt.Instrs[len(tgt.Instrs)-1].(*ssa.Return)
			if !ok || !isErrorExit(r) {
				why = "the scan can stop before all values were looked at"
			}
		}
		// which values are skipped: exactly those with a non-negative index
		skipOK := false
		for b := range scan.body {
			if iff, ok := b.Instrs[len(b.Instrs)-1].(*ssa.If); ok {
				s := an.CondString(iff.Cond, false)
				if regexp.MustCompile(`^\(p:rl\.resultIndexes\[.*\] (>= 0|< 0|> -1|<= -1)\)$`).MatchString(s) {
					skipOK = true
				} else if !strings.Contains(s, ".(error)#0") {
					why = "the scan skips values by a condition other than resultIndexes[i] >= 0 (" + s + ")"
				}
			}
		}
		if !skipOK && why == "" {
			why = "the scan does not select the error results by resultIndexes[i] < 0"
		}
		// the scan precedes every Extract
		for _, k := range invokeNamed(fn, "Extract") {
			if hit, _ := an.PathTo(fn, nil, an.IsInstr(k), an.NewGates().AddInstr(scan.header.Instrs[len(scan.header.Instrs)-1])); hit != nil && why == "" {
				why = "a result is extracted on a path that has not been through the scan"
			}
		}
		c.Check(why == "", rule, cons, "loop over values; skip iff resultIndexes[i] >= 0; exit only by returning the error", why, assert, nil)
	}
}

// ruleDFSStack (G-dfs-stack): the on-stack bookkeeping of the cycle search.
func ruleDFSStack(rule string) RuleFn {
	return func(c *an.Ctx) {
		c.Rule(rule, "G-dfs-stack: in internal/graph.isAcyclic a cycle is reported only for a successor that is on the current search stack (the non-nil result that is not a recursive call's result is dominated by the true edge of info[v].OnStack), and the node's OnStack mark is cleared on every nil return that follows the exploration of its edges - otherwise a node reached twice along different paths (a diamond) is reported as a cycle: acyclic graphs rejected")
		fn := c.P.Func("dig/internal/graph.isAcyclic")
		if fn == nil {
			c.Und(rule, "anchor internal/graph.isAcyclic", "function not found")
			return
		}
		c.See(fn)
		var unstack []ssa.Instruction
		an.Instrs(fn, func(in ssa.Instruction) {
			if st, ok := in.(*ssa.Store); ok && an.Norm(st.Val) == "false" && strings.HasSuffix(an.Norm(st.Addr), "p:info[p:u].OnStack") {
				unstack = append(unstack, st)
			}
		})
		edgesCall := invokeNamed(fn, "EdgesFrom")
		if len(edgesCall) != 1 {
			c.Und(rule, "anchor EdgesFrom call in isAcyclic", "not found")
			return
		}
		rec := methodCalls(fn, "dig/internal/graph.isAcyclic")
		isRecResult := func(v ssa.Value) bool {
			for _, o := range an.Origins(an.Resolve(v)) {
				for _, k := range rec {
					if o == ssa.Value(k) {
						return true
					}
				}
			}
			return false
		}
		nNil, nCyc := 0, 0
		an.Instrs(fn, func(in ssa.Instruction) {
			r, ok := in.(*ssa.Return)
			if !ok || len(r.Results) != 1 {
				return
			}
			if hit, _ := an.PathTo(fn, edgesCall[0], an.IsInstr(r), nil); hit == nil {
				return
			}
			v := an.Resolve(r.Results[0])
			if k, isC := v.(*ssa.Const); isC && k.IsNil() {
				nNil++
				g := an.NewGates().AddInstr(unstack...)
				hit, path := an.PathTo(fn, edgesCall[0], an.IsInstr(r), g)
				c.Check(len(unstack) > 0 && hit == nil, rule, "isAcyclic clears OnStack before reporting 'no cycle through u'", "info[u].OnStack = false on the way to return nil", "a node stays marked on-stack after its edges were explored: a later path reaching it is reported as a cycle although there is none (diamond-shaped graphs rejected)", r, an.BlockPath(c.P, path))
				return
			}
			if isRecResult(v) {
				return
			}
			nCyc++
			g := an.NewGates().AddEdges(an.EdgesWhere(fn, func(f an.Fact) bool {
				return !strings.HasPrefix(f.S, "!") && regexp.MustCompile(`p:info\[.*\]\.OnStack$`).MatchString(f.S)
			})...)
			hit, path := an.PathTo(fn, edgesCall[0], an.IsInstr(r), g)
			c.Check(g.Len() > 0 && hit == nil, rule, "isAcyclic reports a cycle only for a successor on the search stack", "guarded by info[v].OnStack", "a cycle is reported for a successor that was merely visited before, not one on the current path", r, an.BlockPath(c.P, path))
		})
		c.Floor(rule, "nil returns after the edge loop", nNil, 1)
		c.Floor(rule, "cycle-reporting returns", nCyc, 1)
	}
}

// ruleCommitAll (L-commit-all): the staged results are forwarded completely.
func ruleCommitAll(rule string) RuleFn {
	return func(c *an.Ctx) {
		c.Rule(rule, "L-commit-all: stagingContainerWriter.Commit forwards every staged value and every member of every staged group: it ranges over sr.values calling setValue(k.name, k.t, v) and over sr.groups and, inside, over the whole member slice calling submitGroupedValue(k.group, k.t, member); its only branches are the three loop tests")
		fn := c.Fn(rule, "(*dig.stagingContainerWriter).Commit")
		if fn == nil {
			return
		}
		sv := invokeNamed(fn, "setValue")
		sg := invokeNamed(fn, "submitGroupedValue")
		okV := len(sv) == 1
		if okV {
			a := sv[0].Common().Args
			okV = an.Norm(a[0]) == "next(range(p:sr.values))#1.name" && an.Norm(a[1]) == "next(range(p:sr.values))#1.t" && an.Norm(a[2]) == "next(range(p:sr.values))#2"
		}
		c.Check(okV, rule, "Commit forwards every staged single value under its own key", "for k, v := range sr.values: setValue(k.name, k.t, v)", "staged values are not forwarded one to one", nil, nil)
		okG := len(sg) == 1
		if okG {
			a := sg[0].Common().Args
			okG = an.Norm(a[0]) == "next(range(p:sr.groups))#1.group" && an.Norm(a[1]) == "next(range(p:sr.groups))#1.t" &&
				regexp.MustCompile(`^next\(range\(p:sr\.groups\)\)#2\[(\(φt\d+ \+ 1\)|φt\d+)\]$`).MatchString(an.Norm(a[2]))
			in := false
			for _, l := range rangeLoops(fn) {
				if l.over == "next(range(p:sr.groups))#2" && l.body[sg[0].Block()] && len(l.earlyExits()) == 0 {
					in = true
				}
			}
			okG = okG && in
		}
		c.Check(okG, rule, "Commit forwards every member of every staged group", "for k, vs := range sr.groups: for _, v := range vs: submitGroupedValue(k.group, k.t, v)", "not every staged group member is forwarded (or not under its own key): members are lost on commit", nil, nil)
		// committed before anyone is told: the callback of an execution is deferred in the frame that also commits the
		// staged results, so it fires after the commit. A callback deferred in an inner frame (a shared "run and
		// extract" helper) fires while the results are still staged: an Invoke made from the callback sees the
		// container without the members of the constructor that has just run
		for _, f := range c.P.Funcs {
			if f.Pkg != c.P.Dig {
				continue
			}
			var commits []ssa.Instruction
			an.Instrs(f, func(in ssa.Instruction) {
				if k, ok := in.(ssa.CallInstruction); ok && an.CalleeName(k) == "(*dig.stagingContainerWriter).Commit" {
					commits = append(commits, in)
				}
			})
			if len(commits) == 0 {
				continue
			}
			top := f
			for top.Parent() != nil {
				top = top.Parent()
			}
			var walk func(g *ssa.Function)
			walk = func(g *ssa.Function) {
				an.Instrs(g, func(in ssa.Instruction) {
					d, ok := in.(*ssa.Defer)
					if !ok {
						return
					}
					cl := an.StaticCallee(d)
					if cl == nil || len(an.Sinks(cl, "Callback")) == 0 {
						return
					}
					good := false
					if g == f {
						hit, _ := an.PathTo(f, d, an.IsInstr(commits[0]), nil)
						good = hit != nil
					} else {
						// the commit sits in a literal nested in the deferring frame: it is over when that frame ends
						for a := f.Parent(); a != nil; a = a.Parent() {
							if a == g {
								good = true
							}
						}
					}
					c.Check(good, rule, "the callback of "+an.ShortName(top)+" fires after the staged results were committed", "deferred in the frame that commits", "the callback is deferred in "+an.ShortName(g)+", the staged results are committed in "+an.ShortName(f)+" after that frame has returned: the callback runs while the results are still staged, and an Invoke made from it (a soft group consumer, for one) misses the members of the constructor that has just been executed", d, nil)
				})
				for _, a := range g.AnonFuncs {
					walk(a)
				}
			}
			walk(top)
		}
		// what is staged for a group key only ever grows: every write to stagingContainerWriter.groups stores
		// append(<the list already staged under that key>, ...) - an assignment of a fresh list drops the members the
		// same constructor staged for that key before (a plain member and a flattened slice share one key)
		for _, wfn := range c.P.Funcs {
			if wfn.Signature.Recv() == nil || !an.IsDigNamed(wfn.Signature.Recv().Type(), "stagingContainerWriter") {
				continue
			}
			an.Instrs(wfn, func(in ssa.Instruction) {
				mu, ok := in.(*ssa.MapUpdate)
				if !ok || !strings.HasSuffix(an.Norm(mu.Map), ".groups") {
					return
				}
				v := an.Norm(mu.Value)
				grows := strings.HasPrefix(v, "append("+an.Norm(mu.Map)+"[")
				c.Check(grows, rule, "the staging writer only appends to a staged group ("+an.ShortName(wfn)+")", "groups[k] = append(groups[k], ...)", "a staged group list is replaced ("+v+"), not extended: members the same constructor staged under that key earlier are dropped before the commit - the constructor counts as called, and no later request can bring them back", mu, nil)
			})
		}
		n := countIfs(fn)
		c.Check(n == 3, rule, "Commit has no condition besides its loop tests", "3 loop tests", fmt.Sprintf("%d branches in Commit: some staged results can be held back", n), nil, nil)
	}
}

// ruleDecorateKeys (K-decorate): the keys a decorator is registered under.
func ruleDecorateKeys(rule string) RuleFn {
	return func(c *an.Ctx) {
		c.Rule(rule, "K-decorate: findResultKeys registers a decorator under exactly the keys resolution looks it up with: key{t: r.Type, name: r.Name} for a single result (getValueDecorator(ps.Name, ps.Type)) and key{t: r.Type.Elem(), group: r.Group} for a decorated group, whose result type is the slice type (getGroupDecorator(pt.Group, pt.Type.Elem()))")
		fn := c.Fn(rule, "dig.findResultKeys")
		if fn == nil {
			return
		}
		n := 0
		for _, kl := range keyLiterals(c) {
			if kl.fn != fn {
				continue
			}
			n++
			t := an.Norm(kl.fields["t"])
			if g, ok := kl.fields["group"]; ok {
				good := strings.HasSuffix(an.Norm(g), ".(dig.resultGrouped)#0.Group") && strings.HasSuffix(t, ".(dig.resultGrouped)#0.Type.Elem()")
				c.Check(good, rule, "findResultKeys: a group decorator is keyed by (Group, element type)", "key{t: Type.Elem(), group: Group}", "the group decorator is registered under ("+an.Norm(g)+", "+t+"), but looked up under (Group, slice element type): it is never found, the group is delivered undecorated", kl.al, nil)
			} else if nm, ok := kl.fields["name"]; ok {
				good := strings.HasSuffix(an.Norm(nm), ".(dig.resultSingle)#0.Name") && strings.HasSuffix(t, ".(dig.resultSingle)#0.Type")
				c.Check(good, rule, "findResultKeys: a value decorator is keyed by (Name, Type)", "key{t: Type, name: Name}", "the value decorator is registered under ("+an.Norm(nm)+", "+t+")", kl.al, nil)
			} else {
				c.Bad(rule, "findResultKeys: decorator keys carry a name or a group", "key literal without discriminator", kl.al, nil)
			}
		}
		c.Floor(rule, "key literals in findResultKeys", n, 2)
	}
}

// ruleDecoratedFlag (G-decorated-flag): who writes decorated and who writes plain values.
func ruleDecoratedFlag(rule string) RuleFn {
	return func(c *an.Ctx) {
		c.Rule(rule, "G-decorated-flag: the decorator executor extracts its results with decorated=true (they go to decoratedValues/decoratedGroups of its scope), the constructor executor with decorated=false (values/groups, through the staging writer); no other call site of ExtractList exists. A decorator writing plain values would overwrite the provided instance for scopes outside its subtree and leave its own consumers undecorated")
		n := 0
		for _, fn := range c.P.Funcs {
			for _, k := range an.CallsNamed(fn, "(dig.resultList).ExtractList") {
				n++
				flag := an.Norm(k.Common().Args[2])
				switch baseName(fn) {
				case "(*dig.decoratorNode).Call":
					c.Check(flag == "true", rule, "decoratorNode.Call extracts with decorated=true", "true", "the decorator's results are extracted with decorated="+flag, k, nil)
				case "(*dig.constructorNode).Call":
					c.Check(flag == "false", rule, "constructorNode.Call extracts with decorated=false", "false", "the constructor's results are extracted with decorated="+flag, k, nil)
				default:
					c.Bad(rule, "ExtractList is called by the two executors only", "ExtractList called in "+an.ShortName(fn), k, nil)
				}
			}
		}
		c.Floor(rule, "ExtractList call sites", n, 2)
	}
}

// ruleAsPrimary (X-as-primary): As lists are split into primary type and rest.
func ruleAsPrimary(rule string) RuleFn {
	return func(c *an.Ctx) {
		c.Rule(rule, "X-as-primary: where dig.As replaces the result type, the node's Type is element 0 of the collected interface list and its As field is that same list FROM ELEMENT 1 (newResultSingle and the grouped branch of newResult): every listed interface is registered exactly once - a list that still contains the primary type delivers the value twice to groups and registers the key twice")
		n := 0
		for _, nm := range []string{"dig.newResultSingle", "dig.newResult"} {
			fn := c.Fn(rule, nm)
			if fn == nil {
				continue
			}
			// stores to .As of a result node in this function
			an.Instrs(fn, func(in ssa.Instruction) {
				st, ok := in.(*ssa.Store)
				if !ok {
					return
				}
				fa, ok := st.Addr.(*ssa.FieldAddr)
				if !ok || an.FieldName(fa.X.Type(), fa.Field) != "As" {
					return
				}
				if !an.IsDigNamed(fa.X.Type(), "resultSingle") && !an.IsDigNamed(fa.X.Type(), "resultGrouped") {
					return
				}
				n++
				as := an.Norm(an.Resolve(st.Val))
				m := regexp.MustCompile(`^(.*)\[1:\]$`).FindStringSubmatch(as)
				// the Type stored into the same node on this path is list[0]
				okT := false
				if m != nil {
					an.Instrs(fn, func(in2 ssa.Instruction) {
						st2, ok := in2.(*ssa.Store)
						if !ok {
							return
						}
						fa2, ok := st2.Addr.(*ssa.FieldAddr)
						if ok && fa2.X == fa.X && an.FieldName(fa2.X.Type(), fa2.Field) == "Type" && an.Norm(an.Resolve(st2.Val)) == m[1]+"[0]" {
							okT = true
						}
					})
				}
				c.Check(m != nil && okT, rule, nm+": As holds the collected interfaces after the primary one", "Type: list[0], As: list[1:]", "As is "+as+": not the tail of the list whose head became the node's Type", st, nil)
			})
		}
		c.Floor(rule, "stores into the As field of result nodes", n, 2)
	}
}

// ruleObjectOpts (G-object-opts): result objects take no name/group option.
func ruleObjectOpts(rule string) RuleFn {
	return func(c *an.Ctx) {
		c.Rule(rule, "G-object-opts: newResultObject returns without error only if neither a Name nor a Group option was given (both tests dominate every success return): a name or group given as a Provide option applies to plain results only, exactly like the corresponding tag, which cannot be put on a dig.Out as a whole either")
		fn := c.Fn(rule, "dig.newResultObject")
		if fn == nil {
			return
		}
		for _, f := range []string{"Name", "Group"} {
			e := an.EdgesWhere(fn, func(ft an.Fact) bool {
				return ft.S == "(len(p:opts."+f+") > 0)" || ft.S == "(p:opts."+f+" != \"\")" || ft.S == "(len(p:opts."+f+") != 0)"
			})
			// every success return is unreachable once the positive edge is taken, and the positive edge exists
			bad := len(e) == 0
			for _, ed := range e {
				hit, _ := an.PathTo(fn, ed.From.Succs[ed.Succ].Instrs[0], func(i ssa.Instruction) bool {
					r, ok := i.(*ssa.Return)
					return ok && !isErrorExit(r)
				}, nil)
				if r, ok := ed.From.Succs[ed.Succ].Instrs[0].(*ssa.Return); ok && !isErrorExit(r) {
					hit = r
				}
				if hit != nil {
					bad = true
				}
			}
			// and the test lies on every path to a success return
			if !bad {
				neg := an.EdgesWhere(fn, func(ft an.Fact) bool {
					return ft.S == "(len(p:opts."+f+") <= 0)" || ft.S == "(p:opts."+f+" == \"\")" || ft.S == "(len(p:opts."+f+") == 0)" || ft.S == "!(len(p:opts."+f+") > 0)"
				})
				if hit, _ := an.PathTo(fn, nil, func(i ssa.Instruction) bool {
					r, ok := i.(*ssa.Return)
					return ok && !isErrorExit(r)
				}, an.NewGates().AddEdges(neg...)); hit != nil || len(neg) == 0 {
					bad = true
				}
			}
			c.Check(!bad, rule, "newResultObject rejects a "+f+" option", "len(opts."+f+") > 0 -> error", "a "+f+" option is accepted for a result object: the option form and the tag form of the same registration are no longer equivalent", nil, nil)
		}
	}
}

// ruleFailureColours (X-colours): which list is drawn in which colour.
func ruleFailureColours(rule string) RuleFn {
	return func(c *an.Ctx) {
		c.Rule(rule, "X-colours: visualizeGraph prints the members of Failed.RootCauses with color=red and those of Failed.TransitiveFailures with color=orange, and ErrorType.Color maps rootCause to red and transitiveFailure to orange: root causes and transitive failures cannot be told apart otherwise")
		fn := c.Fn(rule, "dig.visualizeGraph")
		if fn == nil {
			return
		}
		want := map[string]string{"p:dg.Failed.RootCauses": "red", "p:dg.Failed.TransitiveFailures": "orange"}
		seen := map[string]bool{}
		for _, l := range rangeLoops(fn) {
			col, ok := want[l.over]
			if !ok {
				continue
			}
			for b := range l.body {
				for _, in := range b.Instrs {
					k, ok := in.(ssa.CallInstruction)
					if !ok || an.CalleeName(k) != "fmt.Fprintf" {
						continue
					}
					f := constFmt(k)
					seen[l.over] = true
					c.Check(strings.Contains(f, "color="+col), rule, "visualizeGraph colours "+strings.TrimPrefix(l.over, "p:dg.Failed.")+" "+col, f, "the members of "+l.over+" are printed with "+f, k, nil)
				}
			}
		}
		c.Floor(rule, "failure lists printed by visualizeGraph", len(seen), 2)
		if cf := c.P.Func("(dig/internal/dot.ErrorType).Color"); cf != nil {
			c.See(cf)
			// each return value under the matching case
			got := map[string]string{}
			an.Instrs(cf, func(in ssa.Instruction) {
				r, ok := in.(*ssa.Return)
				if !ok {
					return
				}
				k, ok := r.Results[0].(*ssa.Const)
				if !ok || k.Value == nil {
					return
				}
				col := strings.Trim(k.Value.String(), `"`)
				for _, e := range an.EdgesWhere(cf, func(f an.Fact) bool { return strings.HasPrefix(f.S, "(p:s == ") }) {
					if e.From.Succs[e.Succ] == r.Block() {
						f, _ := an.EdgeFact(e)
						got[strings.TrimSuffix(strings.TrimPrefix(f.S, "(p:s == "), ")")] = col
					}
				}
			})
			rc, ok1 := dotConst(c, "rootCause")
			tf, ok2 := dotConst(c, "transitiveFailure")
			if ok1 && ok2 {
				c.Check(got[rc] == "red" && got[tf] == "orange", rule, "ErrorType.Color: rootCause is red, transitiveFailure orange", "red/orange", fmt.Sprintf("Color maps rootCause to %q and transitiveFailure to %q", got[rc], got[tf]), nil, nil)
			} else {
				c.Und(rule, "anchor dot.rootCause/transitiveFailure", "constants not found")
			}
		} else {
			c.Und(rule, "anchor (dot.ErrorType).Color", "function not found")
		}
	}
}

func dotConst(c *an.Ctx, name string) (string, bool) {
	sp := c.P.ModSSA[an.ModPath+"/internal/dot"]
	if sp == nil {
		return "", false
	}
	k, ok := sp.Members[name].(*ssa.NamedConst)
	if !ok || k.Value == nil || k.Value.Value == nil {
		return "", false
	}
	return k.Value.Value.String(), true
}
