package rules

import (
	"fmt"
	"go/token"
	"go/types"
	"os"
	"regexp"
	"sort"
	"strings"

	"golang.org/x/tools/go/ssa"

	"verif/checker/internal/an"
)

// varargs returns the values stored into the variadic argument of a call
// (the []interface{} built for fmt functions), in index order.
func varargs(call ssa.CallInstruction) []ssa.Value {
	args := call.Common().Args
	if len(args) == 0 {
		return nil
	}
	last := args[len(args)-1]
	sl, ok := last.(*ssa.Slice)
	if !ok {
		return nil
	}
	al, ok := sl.X.(*ssa.Alloc)
	if !ok {
		return nil
	}
	vals := map[int]ssa.Value{}
	for _, r := range an.Referrers(al) {
		ia, ok := r.(*ssa.IndexAddr)
		if !ok {
			continue
		}
		k, ok := ia.Index.(*ssa.Const)
		if !ok {
			continue
		}
		for _, rr := range an.Referrers(ia) {
			if st, ok := rr.(*ssa.Store); ok && st.Addr == ssa.Value(ia) {
				vals[int(k.Int64())] = st.Val
			}
		}
	}
	out := make([]ssa.Value, len(vals))
	for i := range out {
		out[i] = vals[i]
	}
	return out
}

// valueSet computes the dynamic types converted to the dig interface iface
// anywhere in the module (outside package initialisation).
func valueSet(c *an.Ctx, iface string) map[string]bool {
	out := map[string]bool{}
	for _, fn := range c.P.Funcs {
		if fn.Name() == "init" {
			continue
		}
		an.Instrs(fn, func(in ssa.Instruction) {
			mi, ok := in.(*ssa.MakeInterface)
			if !ok || !an.IsDigNamed(mi.Type(), iface) {
				return
			}
			out[strings.ReplaceAll(mi.X.Type().String(), an.ModPath, "dig")] = true
		})
	}
	return out
}

// frozen, reasoned exceptions of X-switch: function -> type not handled -> why.
var switchExceptions = map[string]map[string]string{
	"dig.findMissingDependencies": {
		"dig.paramGroupedSlice": "a value group is never missing (an empty group is an empty slice)",
		"dig.paramList":         "parameter lists are not nested (X-valueset)",
	},
	"dig.newParamObjectField": {"*": "assertion picks out plain values to attach name/optional tags to; objects and groups take neither"},
	"(dig.paramObject).Build": {"*": "assertion picks out soft groups for reordering; every field is still built by the loop below"},
	"(dig.connectionVisitor).Visit": {
		"dig.resultObject": "containers are descended into by walkResult; only leaves carry keys",
		"dig.resultList":   "same",
	},
	"dig.getParamOrder":               {"dig.paramList": "parameter lists are not nested (X-valueset)"},
	"(*dig.graphHolder).EdgesFrom":    {"*": "dispatch on graph node kinds, see X-orders for their value set"},
	"(*dig.Scope).Scope":              {"*": "dispatch on graph node kinds, see X-orders"},
	"(*dig.Scope).cycleDetectedError": {"*": "only constructor nodes are named in a cycle path"},
}

// ruleSwitch (X-valueset + X-switch).
func ruleSwitch(rule string) RuleFn {
	return func(c *an.Ctx) {
		c.Rule(rule, "X-valueset/X-switch: the dynamic types that flow into the param and result interfaces are computed from every MakeInterface in the module; every function that dispatches on such a value by type switch or assertion handles the whole value set, or the missing types are listed in a frozen table with a reason; dispatchers recurse into parameter/result objects through the same child slices (Fields[i].Param / Fields[i].Result / Results[i]) that Build and Extract iterate - both encodings are lowered to one IR and everything downstream is structural recursion over it")
		for _, iface := range []string{"param", "result"} {
			vs := valueSet(c, iface)
			var names []string
			for t := range vs {
				names = append(names, t)
			}
			sort.Strings(names)
			min := 3
			if !c.Floor(rule, "types flowing into "+iface, len(vs), min) {
				continue
			}
			c.OKAt(rule, "value set of "+iface, strings.Join(names, ", "), "-")
			for _, fn := range c.P.Funcs {
				handled := map[string]bool{}
				var first ssa.Instruction
				an.Instrs(fn, func(in ssa.Instruction) {
					ta, ok := in.(*ssa.TypeAssert)
					if !ok || !an.IsDigNamed(ta.X.Type(), iface) {
						return
					}
					if first == nil {
						first = in
					}
					handled[strings.ReplaceAll(ta.AssertedType.String(), an.ModPath, "dig")] = true
				})
				if first == nil {
					continue
				}
				name := an.ShortName(fn)
				exc := switchExceptions[name]
				if i := strings.Index(name, "$"); i > 0 && exc == nil {
					exc = switchExceptions[name[:i]] // closures share their parent's reasons
				}
				var missing []string
				for _, t := range names {
					if handled[t] {
						continue
					}
					if exc != nil && (exc[t] != "" || exc["*"] != "") {
						continue
					}
					missing = append(missing, t)
				}
				cons := name + " handles every kind of " + iface
				if len(missing) > 0 {
					c.Bad(rule, cons, "no case for "+strings.Join(missing, ", ")+": values of that kind are silently skipped by this dispatcher (the two encodings of a signature stop being equivalent, dependencies or keys go unnoticed)", first, nil)
				} else {
					var hs []string
					for h := range handled {
						hs = append(hs, h)
					}
					sort.Strings(hs)
					c.OK(rule, cons, strings.Join(hs, ", "), first)
				}
			}
		}
		// structural recursion through the same child slices
		type rec struct{ fn, needle, what string }
		for _, r := range []rec{
			{"dig.getParamOrder", ".(dig.paramObject)#0.Fields[", "recurses into the fields of a parameter object"},
			{"dig.findMissingDependencies", ".(dig.paramObject)#0.Fields[", "recurses into the fields of a parameter object"},
			{"dig.findResultKeys", ".(dig.resultObject)#0.Fields[", "descends into the fields of a result object"},
			{"dig.walkResult", ".(dig.resultObject)#0.Fields[", "descends into the fields of a result object"},
			{"dig.walkResult", ".(dig.resultList)#0.Results[", "descends into the results of a result list"},
		} {
			fn := c.Fn(rule, r.fn)
			if fn == nil {
				continue
			}
			found := false
			an.Instrs(fn, func(in ssa.Instruction) {
				for _, op := range in.Operands(nil) {
					if *op != nil && strings.Contains(an.Norm(*op), r.needle) {
						found = true
					}
				}
			})
			c.Check(found, rule, r.fn+" "+r.what, "iterates "+r.needle+"…]", r.fn+" no longer "+r.what, nil, nil)
		}
		type iter struct{ fn, over, call string }
		for _, it := range []iter{
			{"(dig.paramList).BuildList", "p:pl.Params", "Build"},
			{"(dig.paramList).DotParam", "p:pl.Params", "DotParam"},
			{"(dig.paramObject).DotParam", "p:po.Fields", "DotParam"},
			{"(dig.resultList).DotResult", "p:rl.Results", "DotResult"},
			{"(dig.resultObject).DotResult", "p:ro.Fields", "DotResult"},
			{"(dig.resultObject).Extract", "p:ro.Fields", "Extract"},
		} {
			fn := c.Fn(rule, it.fn)
			if fn == nil {
				continue
			}
			good := false
			for _, l := range rangeLoops(fn) {
				if l.over != it.over {
					continue
				}
				has := false
				for b := range l.body {
					for _, in := range b.Instrs {
						if k, ok := in.(ssa.CallInstruction); ok && (strings.HasSuffix(an.CalleeName(k), "."+it.call) || strings.HasSuffix(an.CalleeName(k), ")."+it.call)) {
							has = true
						}
					}
				}
				early := false
				for _, e := range l.earlyExits() {
					tgt := e.From.Succs[e.Succ]
					for _, in := range tgt.Instrs {
						if r, ok := in.(*ssa.Return); ok && (len(r.Results) == 0 || !isErrorExit(r)) {
							early = true
						}
					}
				}
				if has && !early {
					good = true
				}
			}
			c.Check(good, rule, it.fn+" visits every child in declaration order", "range "+it.over+" calling "+it.call, it.fn+" does not call "+it.call+" for every element of "+it.over+" (or leaves the loop early without an error)", nil, nil)
		}
		// paramObject.Build builds every field exactly once: the reordered list is fields + soft queue
		if fn := c.Fn(rule, "(dig.paramObject).Build"); fn != nil {
			nb := len(methodCalls(fn, "(dig.paramObjectField).Build"))
			nset := len(methodCalls(fn, "(reflect.Value).Set"))
			c.Check(nb == 1 && nset == 1, rule, "(dig.paramObject).Build builds and sets each field through one loop", "one Build, one Set call site", fmt.Sprintf("%d Build and %d Set call sites", nb, nset), nil, nil)
			okIdx := false
			for _, k := range methodCalls(fn, "(reflect.Value).Field") {
				if strings.HasSuffix(an.Norm(k.Common().Args[1]), ".FieldIndex") {
					okIdx = true
				}
			}
			c.Check(okIdx, rule, "(dig.paramObject).Build stores each value into the field it was built for", "dest.Field(f.FieldIndex)", "the destination field is not selected by the built field's own FieldIndex", nil, nil)
		}
	}
}

// isFillableArgCount: v is NumIn() of the function type named tn, reduced by
// exactly one under IsVariadic() - as a phi in fn, or as the result of a
// module helper that computes it from the same type.
func isFillableArgCount(c *an.Ctx, fn *ssa.Function, v ssa.Value, tn string) bool {
	v = an.Resolve(v)
	if ph, ok := v.(*ssa.Phi); ok && len(ph.Edges) == 2 {
		var plain, dec bool
		for i, e := range ph.Edges {
			s := an.Norm(e)
			if s == tn+".NumIn()" {
				plain = true
			}
			if s == "("+tn+".NumIn() - 1)" {
				pred := ph.Block().Preds[i]
				edges := an.EdgesWhere(fn, an.FactIs(tn+".IsVariadic()"))
				if len(edges) > 0 && len(pred.Instrs) > 0 {
					if hit, _ := an.PathTo(fn, nil, an.IsInstr(pred.Instrs[0]), an.NewGates().AddEdges(edges...)); hit == nil {
						dec = true
					}
				}
			}
		}
		return plain && dec
	}
	if k, ok := v.(*ssa.Call); ok {
		h := an.StaticCallee(k)
		if h == nil || !c.P.InModule(h) || len(k.Common().Args) != 1 || an.Norm(k.Common().Args[0]) != tn || len(h.Params) != 1 {
			return false
		}
		pn := "p:" + an.CanonParam(h.Params[0])
		okAll, n := true, 0
		an.Instrs(h, func(in ssa.Instruction) {
			if r, isR := in.(*ssa.Return); isR {
				n++
				if !isFillableArgCount(c, h, r.Results[0], pn) {
					// two returns: NumIn()-1 under IsVariadic and NumIn() otherwise
					s := an.Norm(an.Resolve(r.Results[0]))
					tE := an.EdgesWhere(h, an.FactIs(pn+".IsVariadic()"))
					fE := an.EdgesWhere(h, an.FactIs("!"+pn+".IsVariadic()"))
					switch s {
					case "(" + pn + ".NumIn() - 1)":
						if hit, _ := an.PathTo(h, nil, an.IsInstr(r), an.NewGates().AddEdges(tE...)); hit != nil || len(tE) == 0 {
							okAll = false
						}
					case pn + ".NumIn()":
						if hit, _ := an.PathTo(h, nil, an.IsInstr(r), an.NewGates().AddEdges(fE...)); hit != nil || len(fE) == 0 {
							okAll = false
						}
					default:
						okAll = false
					}
				}
			}
		})
		return okAll && n > 0
	}
	return false
}

// ruleVariadic and option≡tag (C15).
func ruleEncodings(rule string) RuleFn {
	return func(c *an.Ctx) {
		c.Rule(rule, "encodings: (variadic drop) the bound of the parameter loop in newParamList is NumIn(), reduced by exactly one on the true edge of IsVariadic() and by nothing else; (error results) newResultList skips exactly the results for which isError(t) holds; (option ≡ tag) the Name option and the name tag reach resultSingle.Name through the same resultOptions.Name, the Group option and the group tag are both parsed by parseGroupString into resultGrouped{Group, Flatten} with Soft rejected; (X-group-parse) every field of the parsed group struct is consumed at each parse site")
		if fn := c.Fn(rule, "dig.newParamList"); fn != nil {
			good := false
			var bound ssa.Value
			for _, b := range fn.Blocks {
				if iff, ok := b.Instrs[len(b.Instrs)-1].(*ssa.If); ok {
					if bo, ok := iff.Cond.(*ssa.BinOp); ok && bo.Op.String() == "<" {
						bound = bo.Y
					}
				}
			}
			good = isFillableArgCount(c, fn, bound, "p:ctype")
			c.Check(good, rule, "newParamList drops exactly the variadic parameter", "bound = NumIn() or NumIn()-1 under IsVariadic()", "the parameter loop bound is not NumIn() reduced by one exactly for variadic functions: a declared dependency is dropped or the variadic slice becomes a dependency", nil, nil)
			// In(i) with the loop index
			okIn := false
			for _, k := range invokeNamed(fn, "In") {
				if strings.HasPrefix(an.Norm(k.Common().Args[0]), "φ") {
					okIn = true
				}
			}
			c.Check(okIn, rule, "newParamList builds a param for every remaining parameter index", "newParam(ctype.In(i))", "parameters are not taken by loop index", nil, nil)
		}
		if fn := c.Fn(rule, "dig.newResultList"); fn != nil {
			// newResult is called only on the !isError edge; on the isError edge the index is -1
			nr := methodCalls(fn, "dig.newResult")
			good := len(nr) == 1
			if good {
				edges := an.EdgesWhere(fn, func(f an.Fact) bool { return f.Neg && strings.HasPrefix(f.S, "!dig.isError(p:ctype.Out(") })
				hit, _ := an.PathTo(fn, nil, an.IsInstr(nr[0]), an.NewGates().AddEdges(edges...))
				good = hit == nil && len(edges) > 0
			}
			c.Check(good, rule, "newResultList omits exactly the error results", "newResult only under !isError(ctype.Out(i))", "error results are not the only results skipped (or are not skipped)", nil, nil)
		}
		// option ≡ tag
		if fn := c.Fn(rule, "dig.newResultSingle"); fn != nil {
			n := 0
			an.Instrs(fn, func(in ssa.Instruction) {
				if st, ok := in.(*ssa.Store); ok && strings.HasSuffix(an.Norm(st.Addr), ".Name") && an.Norm(st.Val) == "p:opts.Name" {
					n++
				}
			})
			c.Check(n >= 2, rule, "newResultSingle takes its name from resultOptions.Name on both paths", "Name: opts.Name", "a result's name does not come from resultOptions.Name on every path (As path loses the name?)", nil, nil)
		}
		if fn := c.Fn(rule, "dig.newResultObjectField"); fn != nil {
			good := false
			an.Instrs(fn, func(in ssa.Instruction) {
				if st, ok := in.(*ssa.Store); ok && strings.HasSuffix(an.Norm(st.Addr), "opts.Name") && an.Norm(st.Val) == `p:f.Tag.Get("name")` {
					good = true
				}
			})
			c.Check(good, rule, "a name tag on a result-object field overrides resultOptions.Name", `opts.Name = f.Tag.Get("name")`, "the name tag does not reach resultOptions.Name", nil, nil)
		}
		for _, nm := range []string{"dig.newResult", "dig.newResultGrouped", "dig.newParamGroupedSlice"} {
			fn := c.Fn(rule, nm)
			if fn == nil {
				continue
			}
			read := map[string]bool{}
			an.Instrs(fn, func(in ssa.Instruction) {
				for _, op := range in.Operands(nil) {
					if *op == nil {
						continue
					}
					s := an.Norm(*op)
					for _, f := range []string{"Name", "Flatten", "Soft"} {
						if regexp.MustCompile(`dig\.parseGroupString\(.*\)#0\.` + f + `$`).MatchString(s) {
							read[f] = true
						}
					}
				}
				if iff, ok := in.(*ssa.If); ok {
					s := an.CondString(iff.Cond, false)
					for _, f := range []string{"Name", "Flatten", "Soft"} {
						if strings.Contains(s, "#0."+f) {
							read[f] = true
						}
					}
				}
			})
			c.Check(read["Name"] && read["Flatten"] && read["Soft"], rule, "X-group-parse: "+nm+" consumes every parsed group option", "Name, Flatten, Soft", fmt.Sprintf("%s ignores a parsed option (read: %v): an option is silently accepted without effect or without its check", nm, read), nil, nil)
		}
	}
}

// ruleInfo (X-info, ID provenance; C18).
func ruleInfo(rule string) RuleFn {
	return func(c *an.Ctx) {
		c.Rule(rule, "X-info: every Input literal sets t, optional, name, group from the Type, Optional, Name, Group of one and the same *dot.Param, every Output literal sets t, name, group from one *dot.Result; the Inputs/Outputs slices are made with the length of the list they are filled from and filled at the range index of that list; the lists are ParamList().DotParam() / ResultList().DotResult() of the node being registered (resp. of the invoked function's parameter list); Info.ID is the node's id, which is the code pointer of the function (reflect.ValueOf(fn).Pointer())")
		type lit struct {
			typ    string
			fields []string
		}
		n := 0
		for _, fn := range c.P.Funcs {
			an.Instrs(fn, func(in ssa.Instruction) {
				al, ok := in.(*ssa.Alloc)
				if !ok || !isConstruction(al) {
					return
				}
				var want map[string]string
				switch {
				case an.IsDigNamed(al.Type(), "Input"):
					want = map[string]string{"t": ".Node.Type", "optional": ".Optional", "name": ".Node.Name", "group": ".Node.Group"}
				case an.IsDigNamed(al.Type(), "Output"):
					want = map[string]string{"t": ".Node.Type", "name": ".Node.Name", "group": ".Node.Group"}
				default:
					return
				}
				n++
				tn := strings.TrimPrefix(al.Type().String(), "*"+an.ModPath+".")
				cons := tn + " literal in " + an.ShortName(fn) + " copies every attribute of one list element"
				base := ""
				good := true
				var miss []string
				for f, suf := range want {
					v := fieldStore(al, f)
					if v == nil {
						good = false
						miss = append(miss, f+" (not set)")
						continue
					}
					s := an.Norm(v)
					if !strings.HasSuffix(s, suf) {
						good = false
						miss = append(miss, f+"="+s)
						continue
					}
					b := strings.TrimSuffix(s, suf)
					if base == "" {
						base = b
					} else if base != b {
						good = false
						miss = append(miss, f+" from a different element")
					}
				}
				sort.Strings(miss)
				if !good {
					c.Bad(rule, cons, "the introspection entry does not report "+strings.Join(miss, ", ")+" of the declared dependency/result", al, nil)
					return
				}
				// stored at the same index of the list it was read from
				okIdx := false
				// range form X[(φ + 1)] or index form X[φ] with a counting loop over the whole of X
				m := regexp.MustCompile(`^(.*)\[(\(φt\d+ \+ 1\)|φt\d+)\]$`).FindStringSubmatch(base)
				if os.Getenv("VERIF_DEBUG_FACTS") == "x-info" {
					fmt.Fprintln(os.Stderr, "x-info base:", base)
					for _, l := range allLoops(fn) {
						fmt.Fprintln(os.Stderr, "  loop:", l.header.Comment, l.over, l.body[al.Block()])
					}
				}
				if m != nil && !strings.HasPrefix(m[2], "(") {
					whole := false
					for _, l := range allLoops(fn) {
						if l.body[al.Block()] && l.header.Comment == "for.loop" {
							if all, _ := loopCoversAll(l); all && (l.over == m[1] || strings.HasSuffix(l.over, "< len("+m[1]+"))")) {
								whole = true
							}
						}
					}
					if !whole {
						m = nil
					}
				}
				for _, r := range an.Referrers(al) {
					if st, ok := r.(*ssa.Store); ok && st.Val == ssa.Value(al) && m != nil {
						a := an.Norm(st.Addr)
						if !strings.HasSuffix(a, "["+m[2]+"]") {
							continue
						}
						if strings.Contains(a, ".Inputs[") || strings.Contains(a, ".Outputs[") {
							okIdx = true
						}
						// ... or into a local slice that becomes the Info slice
						if ia, isIA := st.Addr.(*ssa.IndexAddr); isIA {
							if ms, isMS := an.Resolve(ia.X).(*ssa.MakeSlice); isMS && flowsToInfoSlice(fn, ms) {
								okIdx = true
							}
						}
					}
				}
				c.Check(okIdx, rule, cons, base, "the entry is not stored at the index of the element it describes (order or count of entries differs from the declaration)", al, nil)
			})
		}
		c.Floor(rule, "Input/Output literals", n, 5)
		// slice sizes and sources
		for _, fn := range c.P.Funcs {
			nm := an.ShortName(fn)
			an.Instrs(fn, func(in ssa.Instruction) {
				st, ok := in.(*ssa.Store)
				if !ok {
					return
				}
				a := an.Norm(st.Addr)
				isIn, isOut := strings.HasSuffix(a, ".Inputs"), strings.HasSuffix(a, ".Outputs")
				if !isIn && !isOut {
					return
				}
				if fa, isFA := st.Addr.(*ssa.FieldAddr); !isFA || !(an.IsDigNamed(fa.X.Type(), "ProvideInfo") || an.IsDigNamed(fa.X.Type(), "DecorateInfo") || an.IsDigNamed(fa.X.Type(), "InvokeInfo")) {
					return
				}
				ms, ok := an.Resolve(st.Val).(*ssa.MakeSlice)
				if !ok {
					c.Bad(rule, nm+": Info slice is freshly made", "Info slice assigned from "+an.Norm(st.Val), st, nil)
					return
				}
				l := an.Norm(ms.Len)
				want := ".DotParam())"
				if isOut {
					want = ".DotResult())"
				}
				c.Check(strings.HasPrefix(l, "len(") && strings.HasSuffix(l, want), rule, nm+": "+a[strings.LastIndex(a, ".")+1:]+" has one entry per flattened declaration", l, "the Info slice is sized by "+l, st, nil)
			})
		}
		// sources and ID: in the entry function, or in a helper of it that receives the Info
		// struct and the node (an extracted "fill info" function)
		isNodeExpr := func(s string) bool {
			return (strings.HasPrefix(s, "dig.newConstructorNode(") || strings.HasPrefix(s, "dig.newDecoratorNode(")) && strings.HasSuffix(s, "#0") ||
				(strings.HasPrefix(s, "dig.newParamList(reflect.TypeOf(p:function)") && strings.HasSuffix(s, "#0"))
		}
		type cand struct {
			fn   *ssa.Function
			bind map[string]string // parameter expression -> argument expression at the call site
		}
		candidates := func(entry *ssa.Function) []cand {
			out := []cand{{entry, nil}}
			an.Instrs(entry, func(in ssa.Instruction) {
				k, ok := in.(*ssa.Call)
				if !ok {
					return
				}
				h := an.StaticCallee(k)
				if h == nil || !c.P.InModule(h) || h == entry {
					return
				}
				hasInfo := false
				for _, q := range h.Params {
					if an.IsDigNamed(q.Type(), "ProvideInfo") || an.IsDigNamed(q.Type(), "DecorateInfo") || an.IsDigNamed(q.Type(), "InvokeInfo") {
						hasInfo = true
					}
				}
				if !hasInfo {
					return
				}
				b := map[string]string{}
				for i, q := range h.Params {
					if i < len(k.Common().Args) {
						b["p:"+an.CanonParam(q)] = an.Norm(k.Common().Args[i])
					}
				}
				out = append(out, cand{h, b})
			})
			return out
		}
		resolveBase := func(cd cand, pre string) string {
			if cd.bind != nil {
				if a, ok := cd.bind[pre]; ok {
					return a
				}
			}
			return pre
		}
		for nm, srcs := range map[string][]string{
			"(*dig.Scope).provide":  {".ParamList().DotParam()", ".ResultList().DotResult()"},
			"(*dig.Scope).Decorate": {".params.DotParam()", ".results.DotResult()"},
			"(*dig.Scope).Invoke":   {".DotParam()"},
		} {
			entry := c.P.Func(nm)
			if entry == nil {
				continue
			}
			cds := candidates(entry)
			for _, src := range srcs {
				found := false
				for _, cd := range cds {
					an.Instrs(cd.fn, func(in ssa.Instruction) {
						if k, ok := in.(*ssa.Call); ok && strings.HasSuffix(an.Norm(k), src) {
							pre := strings.TrimSuffix(an.Norm(k), src)
							if isNodeExpr(resolveBase(cd, pre)) {
								found = true
							}
						}
					})
				}
				c.Check(found, rule, nm+": Info is derived from the registered node's own "+src, "own lists", "Info lists are not "+src+" of the node being registered", nil, nil)
			}
			if nm == "(*dig.Scope).Invoke" {
				continue
			}
			found := false
			for _, cd := range cds {
				an.Instrs(cd.fn, func(in ssa.Instruction) {
					st, ok := in.(*ssa.Store)
					if !ok || !strings.HasSuffix(an.Norm(st.Addr), ".ID") {
						return
					}
					fa, isFA := st.Addr.(*ssa.FieldAddr)
					if !isFA || !(an.IsDigNamed(fa.X.Type(), "ProvideInfo") || an.IsDigNamed(fa.X.Type(), "DecorateInfo")) {
						return
					}
					sv := an.Norm(st.Val)
					m := regexp.MustCompile(`^dig\.ID\((.*)\.id\)$`).FindStringSubmatch(sv)
					if m != nil && isNodeExpr(resolveBase(cd, m[1])) {
						found = true
					} else {
						c.Bad(rule, nm+": Info.ID is the node's id", "ID is "+sv+": not the id (code pointer) of the node being registered - the same function can get different IDs, distinct functions the same", st, nil)
					}
				})
			}
			c.Check(found, rule, nm+": Info.ID is the node's id", "ID(n.id)", "Info.ID is not set from the node's id", nil, nil)
		}
		for nm, want := range map[string]string{
			"dig.newConstructorNode": "dig/internal/dot.CtorID(reflect.ValueOf(p:ctor).Pointer())",
			"dig.newDecoratorNode":   "dig/internal/dot.CtorID(reflect.ValueOf(p:dcor).Pointer())",
		} {
			fn := c.P.Func(nm)
			if fn == nil {
				continue
			}
			found := false
			an.Instrs(fn, func(in ssa.Instruction) {
				if st, ok := in.(*ssa.Store); ok && strings.HasSuffix(an.Norm(st.Addr), ".id") && (an.Norm(st.Val) == want || "dig/internal/dot.CtorID("+an.Norm(st.Val)+")" == want) {
					found = true
				}
			})
			c.Check(found, rule, nm+": the id is the function's code pointer", want, "the node id is not the code pointer of the registered function: distinct functions may share an ID or the same function get different IDs", nil, nil)
		}
		// X-dot: leaves
		for nm, as := range map[string]string{"(dig.resultSingle).DotResult": "p:rs.As", "(dig.resultGrouped).DotResult": "p:rt.As"} {
			fn := c.Fn(rule, nm)
			if fn == nil {
				continue
			}
			good := false
			for _, l := range rangeLoops(fn) {
				if l.over == as && len(l.earlyExits()) == 0 {
					good = true
				}
			}
			// one append outside the loop for the result's own type
			c.Check(good, rule, nm+" expands every As interface", "1 + len(As) entries", nm+" does not emit one entry per As type", nil, nil)
		}
		for _, nm := range []string{"(dig.paramSingle).DotParam", "(dig.paramGroupedSlice).DotParam"} {
			fn := c.Fn(rule, nm)
			if fn == nil {
				continue
			}
			good := false
			an.Instrs(fn, func(in ssa.Instruction) {
				if r, ok := in.(*ssa.Return); ok {
					if sl, ok := r.Results[0].(*ssa.Slice); ok {
						if al, ok := sl.X.(*ssa.Alloc); ok {
							if at, ok := al.Type().Underlying().(*types.Pointer); ok {
								if arr, ok := at.Elem().Underlying().(*types.Array); ok && arr.Len() == 1 {
									good = true
								}
							}
						}
					}
				}
			})
			c.Check(good, rule, nm+" reports exactly one entry", "slice literal of length 1", nm+" does not return exactly one entry", nil, nil)
		}
	}
}

// ruleViz (C19).
func ruleViz(rule string) RuleFn {
	return func(c *an.Ctx) {
		c.Rule(rule, "Visualize: (coverage) addNodes adds one dot.Ctor per element of s.nodes and recurses over all childScopes; s.nodes grows only at the commit point of provide (E-ATOM); (well-formedness) in visualizeGraph/visualizeGroup/visualizeCtor every non-constant Fprintf argument is strconv.Quote(...), an int, the result of Attributes()/Color(), or the dashed-style constant; (T-html) inside Attributes() every argument of a format whose constant part opens an HTML-like label (label=<) is html.EscapeString(...); (dashed ⇔ optional) the style string is \" style=dashed\" exactly under p.Optional and empty otherwise; (X-vis) CanVisualizeError and updateGraph walk the chain with the same errVisualizer assertion and errors.Unwrap, and the implementers of errVisualizer are exactly the three error kinds carrying a key or constructor id")
		// coverage
		if fn := c.Fn(rule, "(*dig.Scope).addNodes"); fn != nil {
			okN, okC := false, false
			for _, l := range rangeLoops(fn) {
				for b := range l.body {
					for _, in := range b.Instrs {
						k, ok := in.(*ssa.Call)
						if !ok {
							continue
						}
						if l.over == "p:s.nodes" && an.CalleeName(k) == "(*dig/internal/dot.Graph).AddCtor" && len(l.earlyExits()) == 0 {
							a := k.Common().Args
							if strings.HasSuffix(an.Norm(a[2]), ".paramList.DotParam()") && strings.HasSuffix(an.Norm(a[3]), ".resultList.DotResult()") && strings.HasPrefix(an.Norm(a[1]), "dig.newDotCtor(p:s.nodes[") {
								okN = true
							}
						}
						if l.over == "p:s.childScopes" && an.StaticCallee(k) == fn && an.Norm(k.Common().Args[1]) == "p:dg" && len(l.earlyExits()) == 0 {
							okC = true
						}
					}
				}
			}
			c.Check(okN, rule, "addNodes adds one cluster per accepted constructor with its own params and results", "range s.nodes: AddCtor(newDotCtor(n), n.paramList.DotParam(), n.resultList.DotResult())", "not every element of s.nodes is added with its own parameter and result lists", nil, nil)
			c.Check(okC, rule, "addNodes covers every scope of the tree", "recursion over childScopes", "child scopes are not (all) visited", nil, nil)
		}
		if fn := c.Fn(rule, "(*dig.Scope).createGraph"); fn != nil {
			c.Check(len(an.CallsNamed(fn, "(*dig.Scope).addNodes")) == 1, rule, "createGraph starts from the receiver scope", "s.addNodes(dg)", "createGraph does not call addNodes", nil, nil)
		}
		// quoting
		nArgs := 0
		for _, nm := range []string{"dig.visualizeGraph", "dig.visualizeGroup", "dig.visualizeCtor"} {
			fn := c.Fn(rule, nm)
			if fn == nil {
				continue
			}
			for _, k := range an.CallsNamed(fn, "fmt.Fprintf") {
				for i, v := range varargs(k) {
					nArgs++
					s := an.Norm(v)
					isConstStr := false
					if mi, ok := v.(*ssa.MakeInterface); ok {
						if kc, ok := an.Resolve(mi.X).(*ssa.Const); ok && kc.Value != nil {
							isConstStr = true
						}
					}
					good := isConstStr || strings.HasPrefix(s, "iface(strconv.Quote(") || s == "iface(p:index)" || s == "iface(p:idx)" ||
						strings.HasSuffix(s, ".Attributes())") || strings.HasSuffix(s, ".Color())")
					if !good {
						if mi, ok := v.(*ssa.MakeInterface); ok {
							if ph, ok := mi.X.(*ssa.Phi); ok {
								all := true
								for _, e := range ph.Edges {
									if _, isC := e.(*ssa.Const); !isC {
										all = false
									}
								}
								good = all
							}
							if b, ok := mi.X.Type().Underlying().(*types.Basic); ok && b.Info()&types.IsInteger != 0 {
								good = true
							}
						}
					}
					c.Check(good, rule, fmt.Sprintf("%s: Fprintf argument %d of %q is quoted or structurally safe", nm, i, constFmt(k)), s, "the unquoted value "+s+" is written into the DOT output: names containing quotes, spaces or braces break the syntax", k, nil)
				}
			}
		}
		c.Floor(rule, "non-constant Fprintf arguments in visualize*", nArgs, 15)
		// T-html (taint): every piece of run-time text that reaches the string returned by an Attributes()
		// method - through Sprintf arguments, concatenation, merges - went through html.EscapeString
		nH := 0
		for _, nm := range []string{"(*dig/internal/dot.Result).Attributes", "(*dig/internal/dot.Group).Attributes"} {
			fn := c.P.Func(nm)
			if fn == nil {
				c.Und(rule, "anchor "+nm, "function not found")
				continue
			}
			c.See(fn)
			seen := map[ssa.Value]bool{}
			var leaves []ssa.Value
			var walk func(v ssa.Value)
			walk = func(v ssa.Value) {
				v = an.Resolve(v)
				if seen[v] {
					return
				}
				seen[v] = true
				switch x := v.(type) {
				case *ssa.Const:
					return
				case *ssa.MakeInterface:
					walk(x.X)
				case *ssa.ChangeType:
					walk(x.X)
				case *ssa.Convert:
					walk(x.X)
				case *ssa.Phi:
					for _, e := range x.Edges {
						walk(e)
					}
				case *ssa.BinOp:
					if x.Op == token.ADD {
						walk(x.X)
						walk(x.Y)
						return
					}
					leaves = append(leaves, v)
				case *ssa.Call:
					switch cn := an.CalleeName(x); {
					case cn == "html.EscapeString":
						nH++
						return
					case strings.HasSuffix(cn, "ErrorType).Color"):
						return
					case cn == "fmt.Sprintf" || cn == "fmt.Sprint":
						if cn == "fmt.Sprintf" {
							walk(x.Common().Args[0])
						}
						for _, a := range varargs(x) {
							walk(a)
						}
					default:
						leaves = append(leaves, v)
					}
				default:
					leaves = append(leaves, v)
				}
			}
			an.Instrs(fn, func(in ssa.Instruction) {
				if r, ok := in.(*ssa.Return); ok {
					walk(r.Results[0])
				}
			})
			if len(leaves) == 0 {
				c.OKAt(rule, "T-html: every run-time text in the string returned by "+nm+" is HTML-escaped", "all data leaves are html.EscapeString(...) results or constants", c.P.Pos(fn.Pos()))
			}
			for _, l := range leaves {
				var at ssa.Instruction
				if in, ok := l.(ssa.Instruction); ok {
					at = in
				}
				c.Bad(rule, "T-html: every run-time text in the string returned by "+nm+" is HTML-escaped", "the text "+an.Norm(l)+" reaches the HTML-like label (label=<...>) without html.EscapeString: a type such as <-chan int or a name containing <, > or & yields DOT that Graphviz rejects", at, nil)
			}
		}
		c.Floor(rule, "html.EscapeString results flowing into Attributes()", nH, 2)
		// dashed <=> optional
		if fn := c.Fn(rule, "dig.visualizeCtor"); fn != nil {
			good := false
			an.Instrs(fn, func(in ssa.Instruction) {
				ph, ok := in.(*ssa.Phi)
				if !ok || len(ph.Edges) != 2 {
					return
				}
				var dashedPred, plainPred *ssa.BasicBlock
				for i, e := range ph.Edges {
					k, ok := e.(*ssa.Const)
					if !ok || k.Value == nil {
						return
					}
					switch k.Value.ExactString() {
					case `" style=dashed"`:
						dashedPred = ph.Block().Preds[i]
					case `""`:
						plainPred = ph.Block().Preds[i]
					}
				}
				if dashedPred == nil || plainPred == nil {
					return
				}
				opt := an.BoolEdges(fn, func(v ssa.Value) bool {
					return strings.HasSuffix(an.Norm(v), ".Optional") && strings.HasPrefix(an.Norm(v), "p:c.Params[")
				}, true)
				if len(opt) != 1 {
					return
				}
				// dashed predecessor only via the true edge; plain predecessor is the testing block itself (false edge)
				h, _ := an.PathTo(fn, nil, an.IsInstr(dashedPred.Instrs[0]), an.NewGates().AddEdges(opt...))
				if h == nil && plainPred == opt[0].From {
					good = true
				}
				// or: the plain value, too, arrives through a block of its own, reachable only over the false edge
				optF := an.BoolEdges(fn, func(v ssa.Value) bool {
					return strings.HasSuffix(an.Norm(v), ".Optional") && strings.HasPrefix(an.Norm(v), "p:c.Params[")
				}, false)
				if h == nil && plainPred != opt[0].From && len(optF) == 1 {
					if h2, _ := an.PathTo(fn, nil, an.IsInstr(plainPred.Instrs[0]), an.NewGates().AddEdges(optF...)); h2 == nil {
						good = true
					}
				}
			})
			c.Check(good, rule, "visualizeCtor: an edge is dashed exactly when the dependency is optional", "style = \" style=dashed\" iff p.Optional", "the dashed style is no longer tied to p.Optional in both directions", nil, nil)
		}
		// X-vis
		impl := c.P.Implementers("errVisualizer")
		var names []string
		for _, t := range impl {
			names = append(names, strings.TrimPrefix(strings.ReplaceAll(t.String(), an.ModPath, "dig"), "*"))
		}
		sort.Strings(names)
		c.Check(strings.Join(names, ",") == "dig.errMissingTypes,dig.errParamGroupFailed,dig.errParamSingleFailed", rule, "X-vis: implementers of errVisualizer", strings.Join(names, ","), "the set of visualisable errors changed to {"+strings.Join(names, ",")+"}: CanVisualizeError no longer matches the errors that carry graph information", nil, nil)
		for _, nm := range []string{"dig.CanVisualizeError", "dig.updateGraph"} {
			fn := c.Fn(rule, nm)
			if fn == nil {
				continue
			}
			ta := false
			an.Instrs(fn, func(in ssa.Instruction) {
				if t, ok := in.(*ssa.TypeAssert); ok && strings.HasSuffix(t.AssertedType.String(), "errVisualizer") {
					ta = true
				}
			})
			uw := len(an.CallsNamed(fn, "errors.Unwrap")) == 1
			c.Check(ta && uw, rule, "X-vis: "+nm+" walks the chain asserting errVisualizer", "err.(errVisualizer) + errors.Unwrap", nm+" no longer walks the error chain with the errVisualizer assertion and errors.Unwrap", nil, nil)
			okStop, whyStop := stopsAtConstructorFailed(fn)
			c.Check(okStop, rule, "X-vis: "+nm+" does not look inside the error a constructor returned", "the walk ends at errConstructorFailed", nm+": "+whyStop+" - a constructor that fails with a (wrapped) dig error of another container has that foreign error drawn as the root cause and is itself drawn as a transitive failure", nil, nil)
		}
		if fn := c.P.Func("dig.CanVisualizeError"); fn != nil {
			// true only on the ok edge
			good := true
			an.Instrs(fn, func(in ssa.Instruction) {
				r, ok := in.(*ssa.Return)
				if !ok {
					return
				}
				if an.Norm(r.Results[0]) == "true" {
					edges := an.EdgesWhere(fn, func(f an.Fact) bool { return !f.Neg && strings.HasSuffix(f.S, ".(dig.errVisualizer)#1") })
					if hit, _ := an.PathTo(fn, nil, an.IsInstr(r), an.NewGates().AddEdges(edges...)); hit != nil || len(edges) == 0 {
						good = false
					}
				}
			})
			c.Check(good, rule, "X-vis: CanVisualizeError is true only for an errVisualizer in the chain", "true under ok", "CanVisualizeError can return true without an errVisualizer in the chain", nil, nil)
		}
	}
}

func constFmt(k ssa.CallInstruction) string {
	for _, a := range k.Common().Args {
		if cst, ok := a.(*ssa.Const); ok && cst.Value != nil && cst.Type().String() == "string" {
			s := cst.Value.ExactString()
			// a verb whose argument is a constant string is part of the format (a helper parameterised by a literal)
			va := varargs(k)
			i := 0
			s = regexp.MustCompile(`%[+#]?[a-zA-Z]`).ReplaceAllStringFunc(s, func(verb string) string {
				defer func() { i++ }()
				if i < len(va) {
					if mi, ok := va[i].(*ssa.MakeInterface); ok {
						if kc, ok := an.Resolve(mi.X).(*ssa.Const); ok && kc.Value != nil && (verb == "%s" || verb == "%v") {
							if str := kc.Value.ExactString(); len(str) >= 2 && str[0] == '"' {
								return strings.Trim(str, `"`)
							}
						}
					}
				}
				return verb
			})
			if len(s) > 60 {
				s = s[:60] + "…"
			}
			return s
		}
	}
	return "?"
}

// readersOf lists, per function, the reads of Scope.<field>.
func readsScopeField(fn *ssa.Function, field string) []ssa.Instruction {
	var out []ssa.Instruction
	an.Instrs(fn, func(in ssa.Instruction) {
		fa, ok := in.(*ssa.FieldAddr)
		if !ok || !an.IsDigNamed(fa.X.Type(), "Scope") || an.FieldName(fa.X.Type(), fa.Field) != field {
			return
		}
		for _, r := range an.Referrers(fa) {
			if u, ok := r.(*ssa.UnOp); ok {
				out = append(out, u)
			}
		}
	})
	return out
}

// moduleReach: module functions reachable from root through CHA, not entering
// the functions in stop.
func moduleReach(c *an.Ctx, roots []*ssa.Function, stop map[*ssa.Function]bool) map[*ssa.Function]bool {
	out := map[*ssa.Function]bool{}
	for _, r := range roots {
		for f := range an.CGReachSet(c.P.CHA(), r, func(f *ssa.Function) bool { return stop[f] || !c.P.InModule(f) }) {
			if c.P.InModule(f) {
				out[f] = true
			}
		}
	}
	return out
}

// ruleScopes (C08).
func ruleScopes(rule string) RuleFn {
	return func(c *an.Ctx) {
		c.Rule(rule, "scope visibility: (W-childScopes) no function reachable (CHA, inside the module) from resolution - every param.Build implementation, constructorNode.Call, decoratorNode.Call, shallowCheckDependencies, graphHolder.EdgesFrom - reads Scope.childScopes; tree navigation there is only through parentScope (visibility cannot flow up or sideways); (Export re-targeting) in provide the home scope is rootScope() exactly under opts.Exported and the receiver otherwise, origS passed to newConstructorNode is the receiver, OrigScope() returns origS; (propagation) appendSubscopes, newGraphNode and addNodes recurse over all childScopes; Scope.Scope links parent and child both ways")
		var roots []*ssa.Function
		for _, t := range c.P.Implementers("param") {
			name := strings.ReplaceAll(types.TypeString(t, nil), an.ModPath, "dig")
			if f := c.P.Func("(" + name + ").Build"); f != nil {
				roots = append(roots, f)
			}
		}
		for _, nm := range []string{"(*dig.constructorNode).Call", "(*dig.decoratorNode).Call", "dig.shallowCheckDependencies", "(*dig.graphHolder).EdgesFrom"} {
			if f := c.Fn(rule, nm); f != nil {
				roots = append(roots, f)
			}
		}
		if !c.Floor(rule, "resolution roots", len(roots), 7) {
			return
		}
		reach := moduleReach(c, roots, nil)
		n := 0
		for f := range reach {
			for _, rd := range readsScopeField(f, "childScopes") {
				n++
				c.Bad(rule, "W-childScopes: "+an.ShortName(f)+" does not look into child scopes", "resolution can read Scope.childScopes here: values or providers of descendant/sibling scopes become visible", rd, nil)
			}
		}
		if n == 0 {
			c.OKAt(rule, "W-childScopes: resolution never reads Scope.childScopes", fmt.Sprintf("%d module functions reachable from %d resolution roots", len(reach), len(roots)), "-")
		}
		// readers of childScopes overall
		var rs []string
		for _, f := range c.P.Funcs {
			if len(readsScopeField(f, "childScopes")) > 0 {
				rs = append(rs, an.ShortName(f))
			}
		}
		sort.Strings(rs)
		allowed := map[string]bool{"(*dig.Scope).Scope": true, "(*dig.Scope).appendSubscopes": true, "(*dig.Scope).newGraphNode": true, "(*dig.Scope).addNodes": true}
		for _, r := range rs {
			c.Check(allowed[r], rule, "reader of Scope.childScopes: "+r, "propagation/visualisation only", r+" reads childScopes; only Scope.Scope, appendSubscopes, newGraphNode and addNodes may (downward propagation, visualisation)", nil, nil)
		}
		c.Floor(rule, "readers of Scope.childScopes", len(rs), 3)
		// ancestors via parentScope
		if fn := c.Fn(rule, "(*dig.Scope).ancestors"); fn != nil {
			okP := len(readsScopeField(fn, "parentScope")) > 0
			startsSelf := false
			an.Instrs(fn, func(in ssa.Instruction) {
				if ph, ok := in.(*ssa.Phi); ok {
					for _, e := range ph.Edges {
						if an.Norm(e) == "p:s" {
							startsSelf = true
						}
					}
				}
			})
			c.Check(okP && startsSelf, rule, "ancestors() lists the scope itself first, then its parents", "s, s.parentScope, ...", "ancestors() does not start at the receiver and follow parentScope: nearest-first resolution order is lost", nil, nil)
		}
		if fn := c.Fn(rule, "(*dig.Scope).storesToRoot"); fn != nil {
			good := false
			an.Instrs(fn, func(in ssa.Instruction) {
				if st, ok := in.(*ssa.Store); ok {
					a, v := an.Norm(st.Addr), an.Norm(st.Val)
					// same loop index on both sides (range form: (φ + 1), index form: φ)
					m1 := regexp.MustCompile(`^&makeslice:t\d+\[(\(φt\d+ \+ 1\)|φt\d+)\]$`).FindStringSubmatch(a)
					m2 := regexp.MustCompile(`^iface\(p:s\.ancestors\(\)\[(\(φt\d+ \+ 1\)|φt\d+)\]\)$`).FindStringSubmatch(v)
					if m1 != nil && m2 != nil && m1[1] == m2[1] {
						good = true
					}
				}
			})
			c.Check(good, rule, "storesToRoot() preserves the order of ancestors()", "stores[i] = scopes[i]", "storesToRoot does not map ancestors() index by index", nil, nil)
		}
		if fn := c.Fn(rule, "(*dig.Scope).getAllProviders"); fn != nil {
			good := false
			for _, l := range rangeLoops(fn) {
				if l.over == "p:s.ancestors()" && len(l.earlyExits()) == 0 {
					good = true
				}
			}
			if !good {
				good = parentWalkCollects(fn)
			}
			c.Check(good, rule, "getAllProviders collects from every ancestor", "range s.ancestors()", "getAllProviders does not visit all ancestors: cycle edges and missing-dependency checks miss providers", nil, nil)
		}
		// Export re-targeting
		if fn := c.Fn(rule, "(*dig.Scope).provide"); fn != nil {
			ncs := an.CallsNamed(fn, "dig.newConstructorNode")
			if len(ncs) == 1 {
				a := ncs[0].Common().Args
				home := a[1]
				c.Check(an.Norm(a[2]) == "p:s", rule, "Export: the original scope recorded in the node is the receiver", "origS = s", "origS is "+an.Norm(a[2])+": an exported constructor resolves its own dependencies from the wrong scope", ncs[0], nil)
				good := false
				if ph, ok := home.(*ssa.Phi); ok && len(ph.Edges) == 2 {
					var plain, root bool
					for i, e := range ph.Edges {
						switch an.Norm(e) {
						case "p:s":
							// must come via the false edge of opts.Exported
							pred := ph.Block().Preds[i]
							for _, ed := range an.BoolEdges(fn, func(v ssa.Value) bool { return an.Norm(v) == "p:opts.Exported" }, false) {
								if ed.From == pred {
									plain = true
								}
							}
						case "p:s.rootScope()":
							pred := ph.Block().Preds[i]
							edges := an.BoolEdges(fn, func(v ssa.Value) bool { return an.Norm(v) == "p:opts.Exported" }, true)
							if hit, _ := an.PathTo(fn, nil, an.IsInstr(pred.Instrs[0]), an.NewGates().AddEdges(edges...)); hit == nil && len(edges) > 0 {
								root = true
							}
						}
					}
					good = plain && root
				}
				c.Check(good, rule, "Export: the home scope is the root exactly for exported constructors", "s = s.rootScope() iff opts.Exported", "the home scope is not {receiver, rootScope() under opts.Exported}: Export(true) does not make the constructor visible everywhere, or a plain Provide leaks to the root", ncs[0], nil)
			}
		}
		if fn := c.Fn(rule, "(*dig.constructorNode).OrigScope"); fn != nil {
			good := false
			an.Instrs(fn, func(in ssa.Instruction) {
				if r, ok := in.(*ssa.Return); ok && an.Norm(r.Results[0]) == "p:n.origS" {
					good = true
				}
			})
			c.Check(good, rule, "OrigScope() returns the scope the constructor was provided to", "n.origS", "OrigScope() does not return origS", nil, nil)
		}
		if fn := c.Fn(rule, "dig.newConstructorNode"); fn != nil {
			var s1, s2 bool
			an.Instrs(fn, func(in ssa.Instruction) {
				if st, ok := in.(*ssa.Store); ok {
					a, v := an.Norm(st.Addr), an.Norm(st.Val)
					if strings.HasSuffix(a, "complit.s") && v == "p:s" {
						s1 = true
					}
					if strings.HasSuffix(a, "complit.origS") && v == "p:origS" {
						s2 = true
					}
				}
			})
			c.Check(s1 && s2, rule, "newConstructorNode records home and original scope", "s: s, origS: origS", "the node's s/origS fields are not the home/original scopes passed in", nil, nil)
			ng := an.CallsNamed(fn, "(*dig.Scope).newGraphNode")
			c.Check(len(ng) == 1 && an.Norm(ng[0].Common().Args[0]) == "p:s", rule, "newConstructorNode adds its graph node to the home scope's subtree", "s.newGraphNode(n, n.orders)", "the graph node is not added starting at the home scope", nil, nil)
		}
		if fn := c.Fn(rule, "(*dig.Scope).rootScope"); fn != nil {
			okLoop := len(an.EdgesWhere(fn, func(f an.Fact) bool {
				return regexp.MustCompile(`^\(φt\d+(\.parentScope)? != nil\)$`).MatchString(f.S)
			})) > 0 && countIfs(fn) == 1
			okRet := false
			an.Instrs(fn, func(in ssa.Instruction) {
				if r, ok := in.(*ssa.Return); ok && strings.HasPrefix(an.Norm(r.Results[0]), "φ") {
					okRet = true
				}
			})
			c.Check(okLoop && okRet, rule, "rootScope() follows parentScope until nil", "loop on parentScope", "rootScope() does not walk up to the scope without parent", nil, nil)
		}
		// propagation recursion
		if fn := c.Fn(rule, "(*dig.Scope).appendSubscopes"); fn != nil {
			good := false
			self := false
			for _, l := range rangeLoops(fn) {
				if l.over != "p:s.childScopes" || len(l.earlyExits()) > 0 {
					continue
				}
				for b := range l.body {
					for _, in := range b.Instrs {
						if k, ok := in.(*ssa.Call); ok && an.StaticCallee(k) == fn {
							good = true
						}
					}
				}
			}
			an.Instrs(fn, func(in ssa.Instruction) {
				if st, ok := in.(*ssa.Store); ok && an.Norm(st.Val) == "p:s" && strings.HasPrefix(an.Norm(st.Addr), "&new:varargs[") {
					self = true
				}
			})
			c.Check(good && self, rule, "appendSubscopes enumerates the scope and its whole subtree", "dest = append(dest, s); recurse over childScopes", "appendSubscopes does not enumerate the receiver and every descendant: some scopes are not snapshotted/re-verified/rolled back", nil, nil)
		}
		// Scope.Scope links
		if fn := c.Fn(rule, "(*dig.Scope).Scope"); fn != nil {
			var up, down bool
			an.Instrs(fn, func(in ssa.Instruction) {
				st, ok := in.(*ssa.Store)
				if !ok {
					return
				}
				a, v := an.Norm(st.Addr), an.Norm(st.Val)
				if a == "&dig.newScope().parentScope" && v == "p:s" {
					up = true
				}
				if a == "&p:s.childScopes" && strings.HasPrefix(v, "append(p:s.childScopes,") {
					down = true
				}
			})
			c.Check(up && down, rule, "Scope.Scope links the child to its parent and the parent to its child", "child.parentScope = s; s.childScopes = append(...)", "parent/child links are not both established: registrations do not propagate down or lookups do not climb up", nil, nil)
			// the returned scope is the linked child
			okRet := false
			an.Instrs(fn, func(in ssa.Instruction) {
				if r, ok := in.(*ssa.Return); ok && an.Norm(r.Results[0]) == "dig.newScope()" {
					okRet = true
				}
			})
			c.Check(okRet, rule, "Scope.Scope returns the linked child", "return child", "the returned scope is not the one linked into the tree", nil, nil)
		}
	}
}

// ruleInherit (config inheritance, C17/C13/C20/C08).
func ruleInherit(rule string) RuleFn {
	return func(c *an.Ctx) {
		c.Rule(rule, "config inheritance (E-SIB d): every Scope field that some Option's applyOption writes is copied from parent to child in Scope.Scope (child.f = s.f), so options given to New hold in every scope of the tree. Reasoned exception: rand (shuffling only; each scope may have its own source)")
		set := map[string]bool{}
		for _, fn := range c.P.Funcs {
			if fn.Name() != "applyOption" {
				continue
			}
			c.See(fn)
			an.Instrs(fn, func(in ssa.Instruction) {
				if st, ok := in.(*ssa.Store); ok {
					if fa, ok := st.Addr.(*ssa.FieldAddr); ok && an.IsDigNamed(fa.X.Type(), "Scope") {
						set[an.FieldName(fa.X.Type(), fa.Field)] = true
					}
				}
			})
		}
		if !c.Floor(rule, "option-settable Scope fields", len(set), 5) {
			return
		}
		sc := c.Fn(rule, "(*dig.Scope).Scope")
		if sc == nil {
			return
		}
		copied := map[string]bool{}
		an.Instrs(sc, func(in ssa.Instruction) {
			if st, ok := in.(*ssa.Store); ok {
				a, v := an.Norm(st.Addr), an.Norm(st.Val)
				if strings.HasPrefix(a, "&dig.newScope().") {
					f := strings.TrimPrefix(a, "&dig.newScope().")
					if v == "p:s."+f {
						copied[f] = true
					}
				}
			}
		})
		// state pushed down the tree: a field that some function writes on the DESCENDANTS of a scope (a store whose
		// base is an element of appendSubscopes(...) or childScopes) describes the subtree, so a scope created later
		// below the same ancestor must start with it: Scope.Scope assigns the field on the new child as well
		assigned := map[string]bool{}
		an.Instrs(sc, func(in ssa.Instruction) {
			if st, ok := in.(*ssa.Store); ok {
				if a := an.Norm(st.Addr); strings.HasPrefix(a, "&dig.newScope().") {
					assigned[strings.TrimPrefix(a, "&dig.newScope().")] = true
				}
			}
		})
		nDown := 0
		for _, fn := range c.P.Funcs {
			if fn.Pkg != c.P.Dig || fn == sc {
				continue
			}
			an.Instrs(fn, func(in ssa.Instruction) {
				st, ok := in.(*ssa.Store)
				if !ok {
					return
				}
				fa, ok := st.Addr.(*ssa.FieldAddr)
				if !ok || !an.IsDigNamed(fa.X.Type(), "Scope") {
					return
				}
				base := an.Norm(fa.X)
				if os.Getenv("VERIF_DEBUG_FACTS") == "scope-stores" {
					fmt.Fprintln(os.Stderr, "scope-store:", an.ShortName(fn), base, an.FieldName(fa.X.Type(), fa.Field))
				}
				if !strings.Contains(base, "appendSubscopes(") && !strings.Contains(base, ".childScopes") {
					return
				}
				f := an.FieldName(fa.X.Type(), fa.Field)
				nDown++
				if f == "isVerifiedAcyclic" {
					// reasoned exception: the zero value means "not verified yet" and forces a verification
					c.OK(rule, "Scope."+f+" (written on the descendants of a scope in "+an.ShortName(fn)+") is set for scopes created later", "reasoned exception: a new scope starts unverified, the safe default", st)
					return
				}
				c.Check(assigned[f], rule, "Scope."+f+" (written on the descendants of a scope in "+an.ShortName(fn)+") is set for scopes created later", "assigned on the new child in Scope.Scope", "Scope."+f+" is pushed down to the scopes that exist when "+an.ShortName(fn)+" runs, but a scope created afterwards starts with the zero value: what the field says about the subtree depends on the order of scope creation and registration (root.Decorate(f); child := root.Scope(...) behaves unlike child := root.Scope(...); root.Decorate(f))", st, nil)
			})
		}
		var fields []string
		for f := range set {
			fields = append(fields, f)
		}
		sort.Strings(fields)
		for _, f := range fields {
			cons := "Scope." + f + " (option-settable) is inherited by child scopes"
			if f == "rand" {
				c.OKAt(rule, cons, "reasoned exception: shuffling only", "-")
				continue
			}
			c.Check(copied[f], rule, cons, "child."+f+" = s."+f, "the option that sets Scope."+f+" on the container does not reach scopes created from it: children run with the default (user code executes in a DryRun container's child, panics are not recovered there, callbacks use another clock, verification is not deferred)", nil, nil)
		}
	}
}

// ruleOrderFree (C16).
func ruleOrderFree(rule string) RuleFn {
	return func(c *an.Ctx) {
		c.Rule(rule, "order-free registration: (W-defer) Scope.deferAcyclicVerification is read only in Scope.provide (guarding the IsAcyclic block) and Scope.Scope (copy), and written only by the option and Scope.Scope; (readers) on the Provide path (module functions reachable from Scope.Provide) Scope.providers is read only by the duplicate check of the constructor's own results, the save/update in provide, and the provider accessors used by cycle detection, and Scope.decorators is not read at all; on the Decorate path Scope.providers is not read at all - registration never inspects whether dependencies or decorators exist, they are looked up at resolution time only")
		// W-defer
		readers := map[string]bool{"(*dig.Scope).provide": true, "(*dig.Scope).Scope": true}
		n := 0
		for _, f := range c.P.Funcs {
			for _, rd := range readsScopeField(f, "deferAcyclicVerification") {
				n++
				c.Check(readers[an.ShortName(f)], rule, "W-defer: deferAcyclicVerification read in "+an.ShortName(f), "allowed reader", "the deferral flag influences code outside provide's verification block: outcomes may differ with the option on histories without cycles", rd, nil)
			}
			for _, st := range an.StoresToField(f, "Scope", "deferAcyclicVerification") {
				nm := an.ShortName(f)
				c.Check(nm == "(*dig.Scope).Scope" || nm == "(dig.deferAcyclicVerificationOption).applyOption", rule, "W-defer: deferAcyclicVerification written in "+nm, "allowed writer", "unexpected writer of the deferral flag", st, nil)
			}
		}
		c.Floor(rule, "readers of deferAcyclicVerification", n, 2)
		// what the flag controls in provide: only the IsAcyclic block
		if fn := c.Fn(rule, "(*dig.Scope).provide"); fn != nil {
			edges := an.EdgesWhere(fn, func(f an.Fact) bool { return !f.Neg && strings.HasSuffix(f.S, ".deferAcyclicVerification") })
			good := len(edges) == 1
			if good {
				// the true edge goes straight back to the loop header (continue)
				tgt := edges[0].From.Succs[edges[0].Succ]
				good = tgt.Comment == "rangeindex.loop"
			}
			c.Check(good, rule, "W-defer: with deferral provide skips nothing but the cycle check", "true edge continues the loop", "the deferral flag guards more than the IsAcyclic block in provide", nil, nil)
		}
		// readers on the registration paths
		prov := c.Fn(rule, "(*dig.Scope).Provide")
		dec := c.Fn(rule, "(*dig.Scope).Decorate")
		if prov == nil || dec == nil {
			return
		}
		allowedProv := map[string]bool{"(dig.connectionVisitor).checkKey": true, "(*dig.Scope).provide": true, "(*dig.Scope).getProviders": true}
		pr := moduleReach(c, []*ssa.Function{prov}, nil)
		nr := 0
		for f := range pr {
			nm := an.ShortName(f)
			for _, rd := range readsScopeField(f, "providers") {
				nr++
				// String()/knownTypes are reachable only through fmt's Stringer dispatch in CHA; they are not part of registration logic
				if nm == "(*dig.Scope).String" || nm == "(*dig.Scope).knownTypes" {
					continue
				}
				c.Check(allowedProv[nm] || isScopeAccessor(nm, "Providers"), rule, "Provide path reads Scope.providers in "+nm, "duplicate check / cycle detection", "registration inspects existing providers in "+nm+": whether a Provide is accepted may depend on registration order", rd, nil)
			}
			for _, rd := range readsScopeField(f, "decorators") {
				if isScopeAccessor(nm, "Decorator") {
					continue
				}
				c.Bad(rule, "Provide path does not read Scope.decorators ("+nm+")", "Provide looks at registered decorators: the order of Provide and Decorate calls matters", rd, nil)
			}
		}
		c.Floor(rule, "reads of Scope.providers on the Provide path", nr, 3)
		dr := moduleReach(c, []*ssa.Function{dec}, nil)
		bad := false
		for f := range dr {
			nm := an.ShortName(f)
			if nm == "(*dig.Scope).String" || nm == "(*dig.Scope).knownTypes" {
				continue
			}
			for _, rd := range readsScopeField(f, "providers") {
				bad = true
				c.Bad(rule, "Decorate path does not read Scope.providers ("+nm+")", "Decorate looks at registered providers: decorating before providing behaves differently from the reverse order", rd, nil)
			}
		}
		if !bad {
			c.OKAt(rule, "Decorate path does not read Scope.providers", fmt.Sprintf("%d module functions reachable from Decorate", len(dr)), "-")
		}
		// decorators are read only by getDecorators and the duplicate check in Decorate
		for _, f := range c.P.Funcs {
			nm := an.ShortName(f)
			for _, rd := range readsScopeField(f, "decorators") {
				c.Check(isScopeAccessor(nm, "Decorator") || nm == "(*dig.Scope).Decorate", rule, "Scope.decorators read in "+nm, "lookup at resolution time / duplicate check", "unexpected reader of Scope.decorators", rd, nil)
			}
		}
	}
}

// isScopeAccessor: the lookup accessors of *Scope for one registration map
// (getProviders, getValueProviders, getGroupProviders, getAll...Providers;
// getDecorators, getValueDecorator, getGroupDecorator). Whether the shared
// helper exists or was inlined into the typed accessors is not a role.
func isScopeAccessor(short, what string) bool {
	const pre = "(*dig.Scope).get"
	if !strings.HasPrefix(short, pre) {
		return false
	}
	rest := short[len(pre):]
	return strings.HasSuffix(rest, what) || strings.HasSuffix(rest, what+"s")
}

// isConstruction: an allocation that is initialised field by field in place -
// a composite literal, or new(T)/var x T followed by field stores. A bare
// new(T) handed to errors.As is not a construction.
func isConstruction(al *ssa.Alloc) bool {
	if al.Comment == "complit" {
		return true
	}
	if al.Comment == "varargs" {
		return false
	}
	for _, r := range an.Referrers(al) {
		if fa, ok := r.(*ssa.FieldAddr); ok {
			for _, rr := range an.Referrers(fa) {
				if st, ok := rr.(*ssa.Store); ok && st.Addr == ssa.Value(fa) {
					return true
				}
			}
		}
	}
	return false
}

// flowsToInfoSlice: the freshly made slice ms is what gets stored into an
// Inputs/Outputs field of an Info struct in fn.
func flowsToInfoSlice(fn *ssa.Function, ms *ssa.MakeSlice) bool {
	found := false
	an.Instrs(fn, func(in ssa.Instruction) {
		st, ok := in.(*ssa.Store)
		if !ok {
			return
		}
		fa, ok := st.Addr.(*ssa.FieldAddr)
		if !ok {
			return
		}
		f := an.FieldName(fa.X.Type(), fa.Field)
		if f != "Inputs" && f != "Outputs" {
			return
		}
		if an.Resolve(st.Val) == ssa.Value(ms) {
			found = true
		}
	})
	return found
}

// parentWalkCollects: fn walks a cursor from the receiver through parentScope
// until nil (the only way out of the walk) and, at every step, appends every
// element of cursor.providers[k] to its result; no other condition.
func parentWalkCollects(fn *ssa.Function) bool {
	var cur *ssa.Phi
	an.Instrs(fn, func(in ssa.Instruction) {
		ph, ok := in.(*ssa.Phi)
		if !ok || !an.IsDigNamed(ph.Type(), "Scope") {
			return
		}
		self, parent := false, false
		for _, e := range ph.Edges {
			if an.Norm(e) == "p:s" {
				self = true
			}
			if ld, ok := e.(*ssa.UnOp); ok && ld.Op == token.MUL {
				if fa, ok := ld.X.(*ssa.FieldAddr); ok && fa.X == ssa.Value(ph) && an.FieldName(fa.X.Type(), fa.Field) == "parentScope" {
					parent = true
				}
			}
		}
		if self && parent {
			cur = ph
		}
	})
	if cur == nil {
		return false
	}
	nilTests, loopTests, lookups := 0, 0, 0
	bad := false
	an.Instrs(fn, func(in ssa.Instruction) {
		switch x := in.(type) {
		case *ssa.If:
			if b, ok := x.Cond.(*ssa.BinOp); ok && (b.X == ssa.Value(cur) || b.Y == ssa.Value(cur)) && (b.Op == token.NEQ || b.Op == token.EQL) {
				nilTests++
			} else if isCountingPhi(x.Cond) || x.Block().Comment == "rangeindex.loop" {
				loopTests++
			} else {
				bad = true
			}
		case *ssa.Lookup:
			if fa, ok := an.Resolve(x.X).(*ssa.UnOp); ok {
				if f, ok := fa.X.(*ssa.FieldAddr); ok && f.X == ssa.Value(cur) && an.FieldName(f.X.Type(), f.Field) == "providers" && an.Norm(x.Index) == "p:k" {
					lookups++
				}
			}
		}
	})
	return !bad && nilTests == 1 && loopTests <= 1 && lookups >= 1
}
