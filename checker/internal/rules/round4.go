package rules

import (
	"fmt"
	"go/token"
	"go/types"
	"os"
	"regexp"
	"strings"

	"golang.org/x/tools/go/ssa"

	"verif/checker/internal/an"
)

// Rules added after the fourth round of independently seeded changes and the
// author's own mutant sweep (DESIGN.md 9.8).

func baseName(fn *ssa.Function) string {
	nm := an.ShortName(fn)
	if i := strings.Index(nm, "$"); i > 0 {
		return nm[:i]
	}
	return nm
}

// ruleSnapshotOwners (W-snapshot): the single-slot snapshot of a graph holder
// belongs to the Provide transaction.
func ruleSnapshotOwners(rule string) RuleFn {
	return func(c *an.Ctx) {
		c.Rule(rule, "W-snapshot (who-may-call): graphHolder keeps ONE snapshot mark; it is taken and rolled back only by Scope.provide (and its deferred closures), and graphHolder.snap is written only by Snapshot, Rollback and newGraphHolder. A second user (say, Invoke snapshotting around argument building) would have its mark overwritten by a nested Provide and roll back nodes that a successful Provide added: stale graph indices, cycles missed or fabricated")
		n := 0
		for _, fn := range c.P.Funcs {
			for _, k := range an.CallsNamed(fn, "(*dig.graphHolder).Snapshot", "(*dig.graphHolder).Rollback") {
				n++
				c.Check(baseName(fn) == "(*dig.Scope).provide", rule, an.CalleeName(k)+" called in "+an.ShortName(fn), "inside the Provide transaction", "the graph snapshot is used outside Scope.provide: the single snapshot mark of a holder is shared with, and overwritten by, any Provide that runs in between", k, nil)
			}
			an.Instrs(fn, func(in ssa.Instruction) {
				st, ok := in.(*ssa.Store)
				if !ok {
					return
				}
				fa, ok := st.Addr.(*ssa.FieldAddr)
				if !ok || !an.IsDigNamed(fa.X.Type(), "graphHolder") || an.FieldName(fa.X.Type(), fa.Field) != "snap" {
					return
				}
				nm := baseName(fn)
				c.Check(nm == "(*dig.graphHolder).Snapshot" || nm == "(*dig.graphHolder).Rollback" || nm == "dig.newGraphHolder", rule, "graphHolder.snap written in "+an.ShortName(fn), "owner", "graphHolder.snap is written outside Snapshot/Rollback", st, nil)
			})
		}
		c.Floor(rule, "calls of Snapshot/Rollback", n, 2)
	}
}

func rootOfAddr(v ssa.Value) ssa.Value {
	for i := 0; i < 16; i++ {
		switch x := v.(type) {
		case *ssa.FieldAddr:
			v = x.X
		case *ssa.IndexAddr:
			v = x.X
		case *ssa.UnOp:
			if x.Op == token.MUL {
				v = x.X
			} else {
				return v
			}
		case *ssa.ChangeType:
			v = x.X
		case *ssa.Convert:
			v = x.X
		default:
			return v
		}
	}
	return v
}

// ruleNoGlobalState (W-globals): dig keeps no mutable package-level state.
func ruleNoGlobalState(rule string) RuleFn {
	return func(c *an.Ctx) {
		c.Rule(rule, "W-globals: outside package initialisation no function of dig (or its internal packages) writes package-level state: no store through a global, no update of a map held in a global, no mutating method of sync/sync.atomic types on a global. Classification of types (IsIn/IsOut/embedsType), parsing and resolution are therefore functions of their arguments and of the container alone: what one container, or one earlier registration, did cannot change the verdict or the wiring of another (order and encoding independence)")
		n := 0
		for _, fn := range c.P.Funcs {
			if fn.Name() == "init" && fn.Parent() == nil {
				continue
			}
			an.Instrs(fn, func(in ssa.Instruction) {
				n++
				switch x := in.(type) {
				case *ssa.Store:
					if g, ok := rootOfAddr(x.Addr).(*ssa.Global); ok {
						c.Bad(rule, "no write to package-level "+g.Name()+" in "+an.ShortName(fn), "package-level state is mutated at run time: behaviour depends on what happened before, possibly in another container", x, nil)
					}
				case *ssa.MapUpdate:
					if g, ok := rootOfAddr(x.Map).(*ssa.Global); ok {
						c.Bad(rule, "no write to package-level "+g.Name()+" in "+an.ShortName(fn), "a package-level map is updated at run time", x, nil)
					}
				case ssa.CallInstruction:
					cc := x.Common()
					if cc.IsInvoke() || len(cc.Args) == 0 {
						return
					}
					callee := cc.StaticCallee()
					if callee == nil || callee.Pkg == nil || callee.Signature.Recv() == nil {
						return
					}
					pp := callee.Pkg.Pkg.Path()
					if pp != "sync" && pp != "sync/atomic" {
						return
					}
					switch callee.Name() {
					case "Load", "Range", "RLock", "RUnlock", "Lock", "Unlock":
						return // reads and plain locking
					}
					if g, ok := rootOfAddr(cc.Args[0]).(*ssa.Global); ok {
						c.Bad(rule, "no write to package-level "+g.Name()+" in "+an.ShortName(fn), "a package-level "+pp+" value is mutated ("+callee.Name()+"): a process-wide cache or flag makes results depend on earlier, unrelated calls", x, nil)
					}
				}
			})
		}
		c.OKAt(rule, "no run-time writes to package-level state", fmt.Sprintf("%d instructions of %d functions inspected", n, len(c.P.Funcs)), "-")
	}
}

func countIfs(fn *ssa.Function) int {
	n := 0
	an.Instrs(fn, func(in ssa.Instruction) {
		if _, ok := in.(*ssa.If); ok {
			n++
		}
	})
	return n
}

// ruleAllAncestors (L-all-ancestors): the scope walk and the all-ancestors
// accessors are complete.
func ruleAllAncestors(rule string) RuleFn {
	return func(c *an.Ctx) {
		c.Rule(rule, "L-all-ancestors: Scope.ancestors() starts at the receiver and follows parentScope until nil with no other way out of the loop (its only branch is the nil test of the cursor), appending every scope; getAllProviders(k) ranges over ancestors() and appends getProviders(k) of EVERY element (no break, no early return, no further condition), getAll{Value,Group}Providers return its result for their own key. Cycle detection and the missing-dependency check take their edges from these accessors: a 'nearest scope only' or truncated variant removes edges from the graph that run-time resolution still follows when the nearer provider is added later (verdicts depend on registration order, cycles are missed)")
		if fn := c.Fn(rule, "(*dig.Scope).ancestors"); fn != nil {
			var cur *ssa.Phi
			an.Instrs(fn, func(in ssa.Instruction) {
				ph, ok := in.(*ssa.Phi)
				if !ok || !an.IsDigNamed(ph.Type(), "Scope") {
					return
				}
				self, parent := false, false
				for _, e := range ph.Edges {
					if an.Norm(e) == "p:s" {
						self = true
					}
					if ld, ok := e.(*ssa.UnOp); ok && ld.Op == token.MUL {
						if fa, ok := ld.X.(*ssa.FieldAddr); ok && fa.X == ssa.Value(ph) && an.FieldName(fa.X.Type(), fa.Field) == "parentScope" {
							parent = true
						}
					}
				}
				if self && parent {
					cur = ph
				}
			})
			good := cur != nil
			why := "no cursor that starts at the receiver and advances through parentScope"
			if good {
				nIf := 0
				an.Instrs(fn, func(in ssa.Instruction) {
					iff, ok := in.(*ssa.If)
					if !ok {
						return
					}
					nIf++
					b, ok := iff.Cond.(*ssa.BinOp)
					if !ok || !(b.Op == token.NEQ || b.Op == token.EQL) || !(b.X == ssa.Value(cur) || b.Y == ssa.Value(cur)) {
						good = false
						why = "the walk has a branch other than the nil test of the cursor: it can stop before the root"
						return
					}
					other := b.Y
					if b.Y == ssa.Value(cur) {
						other = b.X
					}
					if k, ok := other.(*ssa.Const); !ok || !k.IsNil() {
						good = false
						why = "the cursor is compared with something other than nil"
					}
				})
				if nIf != 1 {
					good = false
					why = fmt.Sprintf("%d branches in ancestors(), expected exactly the nil test of the cursor", nIf)
				}
				// the cursor is appended
				app := false
				an.Instrs(fn, func(in ssa.Instruction) {
					if st, ok := in.(*ssa.Store); ok && st.Val == ssa.Value(cur) {
						if ia, ok := st.Addr.(*ssa.IndexAddr); ok {
							if al, ok := ia.X.(*ssa.Alloc); ok && al.Comment == "varargs" {
								app = true
							}
						}
					}
				})
				if good && !app {
					good = false
					why = "the cursor is not appended to the result on each step"
				}
			}
			c.Check(good, rule, "ancestors() walks parentScope from the receiver to the root", "cursor: s, s.parentScope, ... until nil; appended each step", why, nil, nil)
		}
		// all-providers accumulation
		accum := func(fn *ssa.Function, keyWant string) (bool, string) {
			loops := 0
			for _, l := range rangeLoops(fn) {
				if l.over != "p:s.ancestors()" {
					continue
				}
				loops++
				if len(l.earlyExits()) > 0 {
					return false, "the loop over ancestors() can be left before the root (break/return)"
				}
				has := false
				for b := range l.body {
					for _, in := range b.Instrs {
						if k, ok := in.(*ssa.Call); ok && an.CalleeName(k) == "(*dig.Scope).getProviders" {
							a := k.Common().Args
							if strings.HasPrefix(an.Norm(a[0]), "p:s.ancestors()[") && (keyWant == "" || an.Norm(a[1]) == keyWant) {
								has = true
							}
						}
						if _, ok := in.(*ssa.If); ok {
							return false, "a condition inside the loop over ancestors(): some scopes' providers can be skipped"
						}
					}
				}
				if !has {
					return false, "the loop over ancestors() does not take getProviders(k) of each element"
				}
			}
			if loops != 1 {
				return false, fmt.Sprintf("%d loops over ancestors()", loops)
			}
			if n := countIfs(fn); n != 1 {
				return false, fmt.Sprintf("%d branches, expected only the loop test: the accumulated list can be cut short or replaced", n)
			}
			return true, ""
		}
		if fn := c.P.Func("(*dig.Scope).getAllProviders"); fn != nil {
			c.See(fn)
			ok, why := accum(fn, "p:k")
			if !ok && parentWalkCollects(fn) {
				ok, why = true, ""
			}
			c.Check(ok, rule, "getAllProviders(k) concatenates getProviders(k) of every ancestor", "for each of ancestors(): append(getProviders(k)...)", why, nil, nil)
			for _, nm := range []string{"(*dig.Scope).getAllValueProviders", "(*dig.Scope).getAllGroupProviders"} {
				f := c.Fn(rule, nm)
				if f == nil {
					continue
				}
				good := countIfs(f) == 0
				nret := 0
				an.Instrs(f, func(in ssa.Instruction) {
					if r, ok := in.(*ssa.Return); ok {
						nret++
						k, isCall := an.Resolve(r.Results[0]).(*ssa.Call)
						if !isCall || an.CalleeName(k) != "(*dig.Scope).getAllProviders" || an.Norm(k.Common().Args[0]) != "p:s" {
							good = false
						}
					}
				})
				c.Check(good && nret == 1, rule, nm+" returns getAllProviders of its key unfiltered", "return s.getAllProviders(key{...})", nm+" does not simply return s.getAllProviders(...): the set of providers cycle detection and the missing check see is filtered", nil, nil)
			}
		} else {
			// the shared helper was folded into the typed accessors
			for _, nm := range []string{"(*dig.Scope).getAllValueProviders", "(*dig.Scope).getAllGroupProviders"} {
				if f := c.Fn(rule, nm); f != nil {
					ok, why := accum(f, "")
					c.Check(ok, rule, nm+" concatenates getProviders of every ancestor", "loop over ancestors()", why, nil, nil)
				}
			}
		}
	}
}

// ruleDryFields (W-dry-fields): DryRun changes the invoker and nothing else.
func ruleDryFields(rule string) RuleFn {
	return func(c *an.Ctx) {
		c.Rule(rule, "W-dry-fields: the DryRun option stores nothing but Scope.invokerFn: there is no second 'dry' flag that resolution, validation or an executor could branch on, so everything except the final reflective call is the same code path in both modes (together with W-sink: nothing else reads invokerFn)")
		ap := c.Fn(rule, "(dig.dryRunOption).applyOption")
		if ap == nil {
			return
		}
		n := 0
		an.Instrs(ap, func(in ssa.Instruction) {
			switch x := in.(type) {
			case *ssa.Store:
				fa, ok := x.Addr.(*ssa.FieldAddr)
				if !ok {
					if _, isAlloc := rootOfAddr(x.Addr).(*ssa.Alloc); isAlloc {
						return
					}
					c.Bad(rule, "DryRun option writes only Scope.invokerFn", "the option stores through "+an.Norm(x.Addr), x, nil)
					return
				}
				if _, isAlloc := rootOfAddr(fa.X).(*ssa.Alloc); isAlloc && !an.IsDigNamed(fa.X.Type(), "Scope") {
					return
				}
				n++
				f := an.FieldName(fa.X.Type(), fa.Field)
				c.Check(an.IsDigNamed(fa.X.Type(), "Scope") && f == "invokerFn", rule, "DryRun option writes only Scope.invokerFn ("+f+")", "invokerFn", "the DryRun option also sets "+f+": a mode flag that other code can branch on - validation in dry mode may then differ from a real run", x, nil)
			case *ssa.MapUpdate:
				c.Bad(rule, "DryRun option writes only Scope.invokerFn", "the option updates a map", x, nil)
			case ssa.CallInstruction:
				if callee := x.Common().StaticCallee(); callee != nil && c.P.InModule(callee) {
					c.Bad(rule, "DryRun option writes only Scope.invokerFn", "the option calls "+an.ShortName(callee)+", which may set further state", x, nil)
				}
			}
		})
		c.Floor(rule, "stores of the DryRun option", n, 1)
	}
}

// rulePruneGuarded (X-prune): pruning only with failure information.
func rulePruneGuarded(rule string) RuleFn {
	return func(c *an.Ctx) {
		c.Rule(rule, "X-prune: in updateGraph the successful part of the picture is pruned (dot.Graph.PruneSuccess) only after at least one error of the chain has marked its failure: every path from entry to PruneSuccess crosses a 'collected errVisualizers non-empty' edge. An error that carries no graph information (CanVisualizeError false) leaves the full picture of the container intact")
		fn := c.Fn(rule, "dig.updateGraph")
		if fn == nil {
			return
		}
		prunes := an.CallsNamed(fn, "(*dig/internal/dot.Graph).PruneSuccess")
		if !c.Floor(rule, "PruneSuccess calls in updateGraph", len(prunes), 1) {
			return
		}
		re := regexp.MustCompile(`^\(len\((.*)\) (?:> 0|!= 0|>= 1)\)$`)
		edges := an.EdgesWhere(fn, func(f an.Fact) bool {
			m := re.FindStringSubmatch(f.S)
			if m == nil {
				return false
			}
			// the tested slice holds errVisualizers
			return true
		})
		// restrict to tests of an []errVisualizer value
		var gate []an.Edge
		for _, e := range edges {
			iff := e.From.Instrs[len(e.From.Instrs)-1].(*ssa.If)
			okT := false
			var visit func(v ssa.Value, d int)
			visit = func(v ssa.Value, d int) {
				if d > 6 || v == nil {
					return
				}
				if sl, ok := v.Type().Underlying().(*types.Slice); ok && an.IsDigNamed(sl.Elem(), "errVisualizer") {
					okT = true
				}
				if in, ok := v.(ssa.Instruction); ok {
					for _, op := range in.Operands(nil) {
						if *op != nil {
							visit(*op, d+1)
						}
					}
				}
			}
			visit(iff.Cond, 0)
			if okT {
				gate = append(gate, e)
			}
		}
		for _, p := range prunes {
			hit, path := an.PathTo(fn, nil, an.IsInstr(p), an.NewGates().AddEdges(gate...))
			c.Check(len(gate) > 0 && hit == nil, rule, "updateGraph prunes only when some error of the chain is visualisable", "PruneSuccess dominated by len(errs) > 0", "PruneSuccess is reachable although no errVisualizer was found in the chain: Visualize with an error that carries no graph information draws an empty container", p, an.BlockPath(c.P, path))
			// every missing type of the error is handed to the graph: the loop of errMissingTypes.updateGraph over the
			// error's entries has one straight-line body (no entry is skipped - two missing values of one Go type that
			// differ by name are two root causes) and an exit only when the range is exhausted
			if mu := c.P.Func("(dig.errMissingTypes).updateGraph"); mu != nil {
				c.See(mu)
				okAll, why := false, "no loop over the missing types"
				for _, l := range allLoops(mu) {
					if l.over != "p:e" {
						continue
					}
					okAll, why = true, ""
					if all, w := loopCoversAll(l); !all {
						okAll, why = false, w
					}
					if len(l.earlyExits()) > 0 {
						okAll, why = false, "the loop can be left before all missing types were listed"
					}
					for b := range l.body {
						if b == l.header {
							continue
						}
						if _, isIf := b.Instrs[len(b.Instrs)-1].(*ssa.If); isIf {
							okAll, why = false, "an entry can be skipped under a condition"
						}
					}
				}
				c.CheckAtPos(okAll, rule, "errMissingTypes.updateGraph lists every missing type", "one entry per element, unconditionally", "not every missing type of the error is marked in the picture ("+why+"): of *Conn[name=primary] and *Conn[name=replica], both missing, only one is painted as root cause", c.P.Pos(mu.Pos()))
			}
			// what stays in the error picture: pruneCtors keeps a constructor only when its own ID is in the set of
			// failed constructors (the found edge of failed[c.ID]); pruneGroups keeps a group only when its own key is in
			// the set of failed groups. Any other reason to keep one ("provides the same key as a failed result") lets
			// constructors that never ran stay in the picture, uncoloured
			for _, sp := range []struct{ fn, coll, key string }{
				{"(*dig/internal/dot.Graph).pruneCtors", "Ctors", ".ID]"},
				{"(*dig/internal/dot.Graph).pruneGroups", "Groups", "nodeKey()]"},
			} {
				pf := c.P.Func(sp.fn)
				if pf == nil {
					continue
				}
				c.See(pf)
				found := an.BoolEdges(pf, func(v ssa.Value) bool {
					ex, ok := v.(*ssa.Extract)
					if !ok || ex.Index != 1 {
						return false
					}
					lk, ok := ex.Tuple.(*ssa.Lookup)
					if !ok || !lk.CommaOk || an.Norm(lk.X) != "p:failed" {
						return false
					}
					if os.Getenv("VERIF_DEBUG_FACTS") == "x-prune" {
						fmt.Fprintln(os.Stderr, "x-prune lookup index:", an.Norm(lk.Index))
					}
					return strings.HasSuffix(an.Norm(lk.Index)+"]", sp.key)
				}, true)
				// the appends that build the kept list
				var keeps []ssa.Instruction
				an.Instrs(pf, func(in ssa.Instruction) {
					if k, ok := in.(*ssa.Call); ok {
						if b, isB := k.Common().Value.(*ssa.Builtin); isB && b.Name() == "append" && len(k.Common().Args) == 2 {
							if t, isSl := k.Type().Underlying().(*types.Slice); isSl {
								if pt, isP := t.Elem().(*types.Pointer); isP && strings.HasSuffix(pt.Elem().String(), "dot."+strings.TrimSuffix(sp.coll, "s")) {
									keeps = append(keeps, in)
								}
							}
						}
					}
				})
				okKeep := len(found) > 0 && len(keeps) > 0
				var at ssa.Instruction
				for _, kp := range keeps {
					if hit, _ := an.PathTo(pf, nil, an.IsInstr(kp), an.NewGates().AddEdges(found...)); hit != nil {
						okKeep, at = false, kp
					}
				}
				c.Check(okKeep, rule, sp.fn+" keeps exactly the failed ones", "kept only behind the found edge of failed[own key]", "a constructor (or group) can stay in the error picture although it is not in the set of failed ones: functions that were never called are drawn, uncoloured, next to the failure (another scope's constructor for the same key as a failed result, for one)", at, nil)
			}
		}
	}
}

// ruleDotAppendAll (X-dot-all): flattened lists keep every entry.
func ruleDotAppendAll(rule string) RuleFn {
	return func(c *an.Ctx) {
		c.Rule(rule, "X-dot-all: the DotParam/DotResult methods of the composite IR kinds (paramList, paramObject, resultList, resultObject) range over their children and append the child's complete Dot list on every iteration - no condition inside the loop, no filtering or de-duplication - and return the accumulated slice: Info structs and the DOT graph get one entry per declared dependency / produced value, duplicates included, in declaration order")
		n := 0
		for _, sp := range []struct{ fn, over, child string }{
			{"(dig.paramList).DotParam", "p:pl.Params", "DotParam"},
			{"(dig.paramObject).DotParam", "p:po.Fields", "DotParam"},
			{"(dig.resultList).DotResult", "p:rl.Results", "DotResult"},
			{"(dig.resultObject).DotResult", "p:ro.Fields", "DotResult"},
		} {
			fn := c.Fn(rule, sp.fn)
			if fn == nil {
				continue
			}
			n++
			cons := sp.fn + " appends every child's entries"
			var loop *rangeLoop
			nl := 0
			for _, l := range rangeLoops(fn) {
				nl++
				if l.over == sp.over {
					loop = l
				}
			}
			if loop == nil || nl != 1 {
				c.BadAt(rule, cons, fmt.Sprintf("expected exactly one loop, over %s (found %d loops)", sp.over, nl), c.P.Pos(fn.Pos()), nil)
				continue
			}
			why := ""
			if len(loop.earlyExits()) > 0 {
				why = "the loop can be left early"
			}
			if countIfs(fn) != 1 {
				why = "a condition besides the loop test: entries can be skipped or filtered"
			}
			appended := false
			for b := range loop.body {
				for _, in := range b.Instrs {
					k, ok := in.(*ssa.Call)
					if !ok {
						continue
					}
					if bi, ok := k.Common().Value.(*ssa.Builtin); ok && bi.Name() == "append" {
						src := an.Resolve(k.Common().Args[1])
						kc, isCall := src.(*ssa.Call)
						if isCall && (kc.Common().IsInvoke() && kc.Common().Method.Name() == sp.child || strings.HasSuffix(an.CalleeName(kc), "."+sp.child)) {
							appended = true
						}
					}
				}
			}
			if !appended && why == "" {
				why = "the child's " + sp.child + "() result is not appended as a whole"
			}
			// the return value is the accumulated slice
			an.Instrs(fn, func(in ssa.Instruction) {
				if r, ok := in.(*ssa.Return); ok && why == "" {
					okR := false
					for _, o := range an.Origins(an.Resolve(r.Results[0])) {
						if k, ok := o.(*ssa.Call); ok {
							if bi, ok := k.Common().Value.(*ssa.Builtin); ok && bi.Name() == "append" {
								okR = true
							}
						}
					}
					if !okR {
						why = "the returned slice is not the accumulated one"
					}
				}
			})
			c.Check(why == "", rule, cons, "unconditional append of child."+sp.child+"()...", why+": Fill*Info and Visualize no longer report one entry per declared dependency/result", loop.header.Instrs[0], nil)
		}
		c.Floor(rule, "composite Dot methods", n, 4)
	}
}

// ruleParamListScope (W-paramscope): the parameter list of a node lives in the
// scope that holds the node.
func ruleParamListScope(rule string) RuleFn {
	return func(c *an.Ctx) {
		c.Rule(rule, "W-paramscope: newConstructorNode builds the node's parameter list in the HOME scope s (the scope whose subtree receives the constructor's graph node via s.newGraphNode), not in origS: value-group parameters create graph nodes of their own through the store handed to newParamList, and they must exist in every scope that holds the constructor node - for an exported constructor that is the whole tree, not just the providing scope's subtree")
		fn := c.Fn(rule, "dig.newConstructorNode")
		if fn == nil {
			return
		}
		pls := an.CallsNamed(fn, "dig.newParamList")
		gns := an.CallsNamed(fn, "(*dig.Scope).newGraphNode")
		if !c.Floor(rule, "newParamList/newGraphNode calls in newConstructorNode", len(pls)+len(gns), 2) {
			return
		}
		for _, k := range pls {
			a := k.Common().Args
			st := an.Norm(a[len(a)-1])
			c.Check(st == "iface(p:s)" || st == "p:s", rule, "newConstructorNode builds parameters in the home scope", "newParamList(ctype, s)", "the parameter list is built in "+st+", not in the home scope s: group parameter nodes of an exported constructor are missing from the root's and siblings' graphs (bogus edges to node 0, false cycles)", k, nil)
		}
		for _, k := range gns {
			c.Check(an.Norm(k.Common().Args[0]) == "p:s", rule, "newConstructorNode registers the node in the home scope's subtree", "s.newGraphNode(n, n.orders)", "the constructor's graph node is created from "+an.Norm(k.Common().Args[0])+", not from the home scope", k, nil)
		}
	}
}
