package rules

// Per-property rule bundles. Every claim is at level "other": the rules are
// structural necessary conditions of the behavioural property, decided for all
// inputs, histories and fault sequences at once. The explanation says which
// part is decided and which is not.

func init() {
	register(&Property{
		ID:          "C01",
		Explanation: "Decided (necessary conditions, all inputs/histories): key agreement along the whole value path (K1 literal shapes, K2 accessor-argument table over every containerStore/containerWriter call site, X-visit-extract: keys registered by Provide = keys written by Extract); each executor calls the node's own function, not in a loop, with result #0 of BuildList on its own parameter list in its own view and only after BuildList succeeded (M-args); Invoke returns nil only after having called the function (M-once); zero values only for optional parameters with no provider / missing dependencies (G-optzero); staged results committed to the home scope, providers called with their own OrigScope (HOME-VIEW); provider/decorator executions are triggered only by lookups under the parameter's own key (T-provenance); every delivered value is read from a scope store (T-same-instance). NOT decided: that the values are right for every history (cache staleness, which decorator is nearest at run time).",
		Rules:       []RuleFn{ruleK1("K1"), ruleK2("K2"), ruleVisitExtract("X-visit-extract"), ruleMArgs("M-args"), ruleMOnce("M-once"), ruleOptZero("G-optzero"), ruleHomeView("HOME-VIEW"), ruleProvenance("T-provenance"), ruleSameInstance("T-same-instance"), ruleDecFirst("M-dec-first"), ruleMShallow("M-shallow"), ruleVisitRecords("X-visit-records"), ruleNoEarlyExit("L-no-early-exit"), ruleSetters("W-setters")},
	})
	register(&Property{
		ID:          "C02",
		Explanation: "Decided: typestate of the done-flags constructorNode.called and decoratorNode.state (E-TS: user function dominated by the not-done edge; every re-entrant call site between test and execution is followed by a re-test or protected by the in-progress marker; done value stored only after ExtractList succeeded and nothing can fail afterwards; single writer); every decorator.Call site guarded path-sensitively by State() != decoratorOnStack on the same decorator (G-onstack); all consumers read the committed instance from a scope store, never fresh results (T-same-instance). NOT decided: pointer identity as observed by arbitrary consumers.",
		Rules:       []RuleFn{ruleTypestate("E-TS"), ruleOnStack("G-onstack"), ruleSameInstance("T-same-instance"), ruleSetters("W-setters")},
	})
	register(&Property{
		ID:          "C03",
		Explanation: "Decided completely (modulo the trusted base): in the sound CHA call graph of the whole program, refined only by dropping signature-matched edges to closures whose value never escapes, no exported function or method of dig other than Invoke can reach a user-code sink (call through an invokerFn, call of a Callback, reflect.Value.Call) - Provide, Decorate, Scope, Visualize, String, New, option constructors, RootCause, IsCycleDetected, CanVisualizeError never execute user functions; option interfaces are sealed. Also decided: executions are triggered only by lookups under the parameter's own key (T-provenance), soft groups call no provider (G-soft), the consumer runs only after BuildList succeeded (M-args). NOT decided: that every not-yet-built constructor in the closure has run when Invoke succeeds (liveness); fmt calling String()/Error() of user values is not 'executing user-supplied functions' in the property's sense.",
		Rules:       []RuleFn{ruleWReach("W-reach", "CHA"), ruleSealedOptions("X-sealed"), ruleProvenance("T-provenance"), ruleSoft("G-soft"), ruleMArgs("M-args"), ruleNoEarlyExit("L-no-early-exit"), ruleVisitRecords("X-visit-records"), ruleDecFirst("M-dec-first")},
	})
	register(&Property{
		ID:          "C04",
		Explanation: "Decided: no user function runs with unbuilt arguments (M-args, all three executors); a constructor is entered only after shallowCheckDependencies on its own list and view succeeded, and errMissingDependencies is constructed only from that verdict (M-shallow); a failing constructor is always reported as errConstructorFailed carrying its own error (T-rootcause), so the optional rule cannot confuse it with missing dependencies; zero values only under Optional and (no provider in any enclosing scope | errors.As(err, *errMissingDependencies)) (G-optzero); the missing-predicate reads exactly 'no provider in any enclosing scope and no decorated value and not optional' and recurses into parameter objects (G-missing). NOT decided: the verdict as a function of depth and of optional edges above the gap; the direction 'everything available => Invoke succeeds'. Assumption: user constructors do not return dig's unexported error types.",
		Rules:       []RuleFn{ruleMArgs("M-args"), ruleMShallow("M-shallow"), ruleRootCause("T-rootcause"), ruleOptZero("G-optzero"), ruleMissingPredicate("G-missing")},
	})
	register(&Property{
		ID:          "C05",
		Explanation: "Decided: arguments are built only in a view whose graph was verified acyclic (M-acyclic-view, typestate over isVerifiedAcyclic / IsAcyclic / nil-means-verified summaries); the verified flag is sound (true only after IsAcyclic on the same scope; every scope of the affected subtree reset after providers change; G-flag); without deferral every scope of the subtree is checked and every IsAcyclic failure becomes an error wrapping cycleDetectedError(cycle) (M-acyclic-provide); errCycleDetected is constructed only for such failures and IsCycleDetected is exactly errors.As on it (W-cycleerr); the orders invariant holds for every node type flowing into graphNode.Wrapped at every place a scope acquires a node (X-orders); graph edges and run-time resolution dispatch over the same parameter kinds with all-ancestors accessors (X-switch, K2); the DFS marks before exploring and recurses only into unvisited nodes (G-dfs); decorator re-entry is guarded (G-onstack). NOT decided: correctness of the reported path, exhaustiveness over digraphs (an enumeration - different technique), stack depth bounds.",
		Rules:       []RuleFn{ruleAcyclicView("M-acyclic-view"), ruleFlagSound("G-flag"), ruleAcyclicProvide("M-acyclic-provide"), ruleCycleErr("W-cycleerr"), ruleOrders("X-orders"), ruleDFS("G-dfs"), ruleSwitch("X-switch"), ruleK2("K2"), ruleOnStack("G-onstack"), ruleEdges("X-edges")},
	})
	register(&Property{
		ID:          "C06",
		Explanation: "Decided for every rejection cause at once (all error exits of the call trees of Provide and Decorate, including those no test provokes): every persistent write that can be followed by an error return is compensated on the same object (graph nodes by snapshot/rollback over the home scope's subtree, providers by a restoring loop over the saved entries on the same scope) or does not exist (E-ATOM); the registration fields have no writer outside their transactions (W-owners); duplicate decorators are rejected before anything is registered (G-decorate-dup); registration never executes user code (W-reach). NOT decided: equality of all later behaviour with the history without the call (a relation between runs); the check shows that no persistent location differs.",
		Rules:       []RuleFn{ruleAtomProvide("E-ATOM"), ruleAtomDecorate("E-ATOM"), ruleWOwners("W-owners"), ruleDecorateDup("G-decorate-dup"), ruleWReach("W-reach", "CHA"), rulePresence("X-providers-presence"), ruleDupKey("G-dupkey")},
	})
	register(&Property{
		ID:          "C07",
		Explanation: "Decided: results of an execution reach a scope only through a commit no error exit can follow - constructors write into a fresh staging writer committed after ExtractList's nil edge (HOME-VIEW), and any ExtractList that writes straight into a scope cannot fail after having written (E-stage); done-flags advance only on the success edge and nothing can fail afterwards (E-TS c); the decorator's in-progress marker is reset by a defer registered before anything can fail, so error returns and panics leave it runnable (E-stage); the error reported for a failed function is its own error value (T-rootcause); recover() only under RecoverFromPanics (G-recover). NOT decided: that the retry happens in every continuation (follows from the flag not advancing plus resolution reaching it again, which is run-time).",
		Rules:       []RuleFn{ruleStaging("E-stage"), ruleTypestate("E-TS"), ruleRootCause("T-rootcause"), ruleHomeView("HOME-VIEW"), ruleRecover("G-recover")},
	})
	register(&Property{
		ID:          "C08",
		Explanation: "Decided: no function reachable from resolution reads Scope.childScopes - navigation is only up through parentScope, nearest first (W-scopes); Export re-targets the home scope to the root exactly under opts.Exported while the original scope stays the receiver and is what providers are called with (W-scopes, HOME-VIEW); propagation reaches the whole subtree (appendSubscopes/newGraphNode recursion) and child scopes created later copy all nodes with their orders (X-orders); option-settable configuration is inherited by children (X-inherit). NOT decided: 'nearest wins' as an outcome beyond the first-hit loop structure; value caching across scopes.",
		Rules:       []RuleFn{ruleScopes("W-scopes"), ruleHomeView("HOME-VIEW"), ruleOrders("X-orders"), ruleInherit("X-inherit"), ruleK2("K2"), ruleMArgs("M-args"), ruleMShallow("M-shallow"), ruleDecFirst("M-dec-first"), ruleEdges("X-edges"), ruleSetters("W-setters")},
	})
	register(&Property{
		ID:          "C09",
		Explanation: "Decided: key literals set t and at most one of name/group, accessor kinds and map kinds agree (K1); every accessor call site passes (discriminator, type) of one IR object in the shape its counterpart uses (K2); group names are never empty where they enter the IR, so group and unnamed keys cannot coincide in the shared providers map (K3); every name key, including As keys, passes the duplicate check against the constructor's own keys and the home scope's providers, name and group are mutually exclusive at all three entry points, Provide registers only after validation (G-dupkey); registered keys = written keys (X-visit-extract). NOT decided: the As-replaces-concrete-type convention as an outcome, pointer sharing among As keys.",
		Rules:       []RuleFn{ruleK1("K1"), ruleK2("K2"), ruleK3("K3"), ruleDupKey("G-dupkey"), ruleVisitExtract("X-visit-extract"), ruleVisitRecords("X-visit-records"), rulePresence("X-providers-presence"), ruleOptFlow("X-optflow")},
	})
	register(&Property{
		ID:          "C10",
		Explanation: "Decided: group accessors agree on (Group, Type.Elem()) / (Group, Type) conventions (K2); callGroupProviders calls every provider of every enclosing scope and the concatenation visits every enclosing scope - no exit other than an error (L-no-early-exit); feeders run at most once and submit through one staged commit (E-TS, E-stage, HOME-VIEW); each value map has one writer, getValueGroup hands out a fresh copy (W-owners, L-no-early-exit); the returned slice is assembled only from getValueGroup(pt.Group, pt.Type.Elem()) (T-same-instance); group providers are found only under the parameter's own key (T-provenance). NOT decided: the multiset itself; that the shuffle is a permutation (trusts rand.Perm).",
		Rules:       []RuleFn{ruleK2("K2"), ruleNoEarlyExit("L-no-early-exit"), ruleTypestate("E-TS"), ruleStaging("E-stage"), ruleHomeView("HOME-VIEW"), ruleWOwners("W-owners"), ruleSameInstance("T-same-instance"), ruleProvenance("T-provenance"), ruleVisitExtract("X-visit-extract"), ruleVisitRecords("X-visit-records"), ruleSetters("W-setters")},
	})
	register(&Property{
		ID:          "C11",
		Explanation: "Decided: in paramGroupedSlice.Build every call that can reach a constructor execution other than through a decorator execution is dominated by !Soft; Soft is set only from parseGroupString's \"soft\" option and is consumed (rejected) on results (G-soft, X-encodings/X-group-parse). NOT decided: the clause 'contains all members of earlier executions and of sibling fields' - it depends on the run-time effect of the field reordering in paramObject.Build; a static recogniser for 'soft fields are built last' would be tied to today's spelling and fire on equivalent rewrites, so none is armed.",
		Rules:       []RuleFn{ruleSoft("G-soft"), ruleEncodings("X-encodings"), ruleSoftLast("L-soft-last"), ruleIRImmutable("X-ir-immutable"), ruleNoEarlyExit("L-no-early-exit"), ruleSameInstance("T-same-instance")},
	})
	register(&Property{
		ID:          "C12",
		Explanation: "Decided: every path to an undecorated source passes first the decorator attempt and then the decorated-value lookup (M-dec-first); the decorated value is read from the scope whose decorator ran, under the parameter's own key (M-dec-first, K2); at most one decorator per key per scope and nothing registered on rejection (G-decorate-dup, E-ATOM); the decorator builds its arguments in, and writes to, its own scope after marking itself on-stack (M-args, E-TS, G-onstack); it runs at most once and is applied again after a failure (E-TS, E-stage); scopes outside the subtree are unaffected (W-scopes). NOT decided: nearest-decorator selection as an outcome for every history.",
		Rules:       []RuleFn{ruleDecFirst("M-dec-first"), ruleDecorateDup("G-decorate-dup"), ruleAtomDecorate("E-ATOM"), ruleMArgs("M-args"), ruleTypestate("E-TS"), ruleOnStack("G-onstack"), ruleStaging("E-stage"), ruleK2("K2"), ruleScopes("W-scopes")},
	})
	register(&Property{
		ID:          "C13",
		Explanation: "Decided: the value Invoke returns after the call is the very error value asserted out of the function's last result, and a non-nil one is never replaced (T-usererr); every dig error type with a wrapped error has Unwrap returning it, RootCause walks with errors.As/Unwrap, no foreign error constructor is used in dig (X-unwrap); no error of a non-dig call becomes a wrapped cause or is returned while non-nil (T-foreign-cause, path-sensitive); a failing constructor's/decorator's own error is what is wrapped (T-rootcause); every recover() sits in an executor's closure deferred under recoverFromPanics before the call and stores PanicError{Panic: recover()} into the named result; PanicError is neither a dig.Error nor a wrapper (G-recover, X-panicshape); IsCycleDetected is exactly errors.As on errCycleDetected, constructed only for IsAcyclic failures (W-cycleerr). NOT decided: chain shapes at depth (follow from X-unwrap by induction).",
		Rules:       []RuleFn{ruleUserErr("T-usererr"), ruleUnwrap("X-unwrap"), ruleForeignCause("T-foreign-cause"), ruleRootCause("T-rootcause"), ruleRecover("G-recover"), ruleCycleErr("W-cycleerr")},
	})
	register(&Property{
		ID:          "C14",
		Explanation: "Decided: (P1) in every public entry the user function reaches dig code or reflect.ValueOf only after the untyped-nil and Kind()==Func checks; (E-REFL) each of the ~60 partial reflect operations in non-test code is discharged by a dominating Kind test on the same value (path-sensitive where the test is correlated with a flag), a function contract checked at every call site, a field invariant checked where the IR value is constructed, or the IsIn/IsOut=>struct implication; a handful is listed as assumed with its reason; group names are non-empty (K3, otherwise an invalid reflect.Value reaches Call); the discarded-ok lookups rest on K2 + X-visit-extract; rejected input changes nothing (E-ATOM). NOT decided: panics from indexing, nil maps, reflect.Value.Set assignability, user String() methods; nil option values; String() of option values.",
		Rules:       []RuleFn{ruleP1("P1"), ruleRefl("E-REFL"), ruleK3("K3"), ruleK2("K2"), ruleVisitExtract("X-visit-extract"), ruleVisitRecords("X-visit-records"), ruleAtomProvide("E-ATOM"), ruleAtomDecorate("E-ATOM"), ruleMapDeref("G-maplookup-deref")},
	})
	register(&Property{
		ID:          "C15",
		Explanation: "Decided: both encodings are lowered to one IR and everything downstream is structural recursion over it - the value sets of the param/result interfaces are computed and every dispatcher handles them or has a reasoned exception; dispatchers and Dot*/Build/Extract iterate the same child slices in order (X-switch); the variadic parameter and error results are dropped by exactly the intended conditions, the name/group option and tag reach the same IR fields through the same parser with the same validations (X-encodings). NOT decided: the equivalence itself (a relation between two programs' behaviours).",
		Rules:       []RuleFn{ruleSwitch("X-switch"), ruleEncodings("X-encodings"), ruleMissingPredicate("G-missing"), ruleIRImmutable("X-ir-immutable"), ruleOptFlow("X-optflow")},
	})
	register(&Property{
		ID:          "C16",
		Explanation: "Decided: the orders invariant - the structural reason why the creation time of a child scope cannot matter (X-orders); deferAcyclicVerification is read only to skip the IsAcyclic block of provide and is copied to children; on the Provide path providers are read only for the duplicate check of the constructor's own results and by cycle detection, decorators are never read; on the Decorate path providers are never read (W-orderfree); the verified flag is reset for the whole subtree on every change, deferred or not (G-flag). NOT decided: equality of wiring under permutation (relational).",
		Rules:       []RuleFn{ruleOrders("X-orders"), ruleOrderFree("W-orderfree"), ruleFlagSound("G-flag"), ruleIRImmutable("X-ir-immutable")},
	})
	register(&Property{
		ID:          "C17",
		Explanation: "Decided: the only reflective call of user code is dig.defaultInvoker; defaultInvoker/dryInvoker are referenced only by newScope and the DryRun option; every executor calls through an invokerFn read from the scope; Scope.invokerFn has exactly three writers and no mode-branch reader, so all validation code is shared by construction; dryInvoker reaches no sink (W-sink); children inherit the invoker and the other option-settable fields (X-inherit). NOT decided: 'same verdicts' as a relation between a dry and a normal run (follows from code sharing only up to the zero values the fake results take).",
		Rules:       []RuleFn{ruleWSink("W-sink"), ruleInherit("X-inherit"), ruleDryTotal("X-dry-total")},
	})
	register(&Property{
		ID:          "C18",
		Explanation: "Decided: each Input/Output literal copies every attribute of one list element and is stored at that element's index; the Info slices are sized by and derived from the registered node's own flattened parameter/result lists; Info.ID is the node id, which is the function's code pointer (X-info); Info fields are written after the last error exit of Provide/Decorate (E-ATOM); Dot*/leaves iterate children in order, leaves yield 1 resp. 1+len(As) entries (X-info, X-switch); variadic parameters and error results never enter the IR (X-encodings). NOT decided: uniqueness of code pointers for closures (a Go runtime fact).",
		Rules:       []RuleFn{ruleInfo("X-info"), ruleAtomProvide("E-ATOM"), ruleAtomDecorate("E-ATOM"), ruleSwitch("X-switch"), ruleEncodings("X-encodings"), ruleIRImmutable("X-ir-immutable")},
	})
	register(&Property{
		ID:          "C19",
		Explanation: "Decided: addNodes adds one cluster per element of s.nodes with that constructor's own lists and covers every scope; s.nodes grows only at provide's commit point; every non-constant Fprintf argument of the DOT writers is quoted or structurally safe; every argument of an HTML-like label format is html-escaped; edges are dashed exactly for optional parameters; CanVisualizeError and updateGraph agree on the errVisualizer chain walk and its three implementers (X-viz, E-ATOM, W-owners). NOT decided: failure colouring and pruning (run-time graph algorithm), exact node and edge sets.",
		Rules:       []RuleFn{ruleViz("X-viz"), ruleAtomProvide("E-ATOM"), ruleWOwners("W-owners"), ruleRootCauseSiblings("X-rootcause"), ruleMapDeref("G-maplookup-deref")},
	})
	register(&Property{
		ID:          "C20",
		Explanation: "Decided (per executor with a callback): the callback is invoked only from a closure used by one defer that is dominated by BuildList's success edge, the not-done edge and callback != nil, not in a loop, and every exit after it passes the user-function call; the recover defer is registered after it; the closure calls the node's own callback with Error read from the executor's named result at defer time, Name built from the node's location, Runtime = clock().Since(start) with start taken after BuildList and nothing that can execute other user functions in between; the option plumbing forwards the user's callback to the node (M-cb); registration never calls a callback (W-reach); PanicError is what a recovered panic stores (G-recover); Error's root cause is the function's own error (T-rootcause). NOT decided: the duration value; behaviour for unrecovered panics (the callback then reports a nil error - an observation, outside the statement).",
		Rules:       []RuleFn{ruleCallback("M-cb"), ruleRecover("G-recover"), ruleRootCause("T-rootcause"), ruleWReach("W-reach", "CHA")},
	})
}
