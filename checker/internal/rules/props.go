package rules

func init() {
	register(&Property{
		ID: "C03",
		Explanation: "Static part of laziness. Decided for every input and history: (W-reach) in the sound CHA call graph of the whole program, no exported function or method of dig other than Invoke can reach a user-code sink (call through an invokerFn, call of a Callback, reflect.Value.Call) - so Provide, Decorate, Scope, Visualize, String, New, the option constructors, RootCause, IsCycleDetected, CanVisualizeError never execute user functions; (sealed options) option interfaces cannot be implemented outside dig. Not decided: that every not-yet-built constructor of the closure has run when Invoke succeeds (liveness), fmt calling String()/Error() of user values.",
		Rules: []RuleFn{ruleWReach("W-reach", "CHA"), ruleSealedOptions("X-sealed")},
	})
	register(&Property{
		ID: "C17",
		Explanation: "Static part of DryRun. Decided: (W-sink) the only reflective call of user code is dig.defaultInvoker; defaultInvoker/dryInvoker are referenced only by newScope and the DryRun option; all executors call through an invokerFn read from the scope; Scope.invokerFn has three writers (newScope, Scope.Scope copying the parent's, DryRun option) and is otherwise only read to be called - there is no mode branch, so validation code is shared by construction. Not decided: equality of verdicts as a relation between two runs.",
		Rules: []RuleFn{ruleWSink("W-sink")},
	})
}

func init() {
	register(&Property{ID: "DEV", Explanation: "development run of all rules", Rules: []RuleFn{
		ruleMArgs("M-args"), ruleMOnce("M-once"), ruleMShallow("M-shallow"), ruleRootCause("T-rootcause"),
		ruleTypestate("E-TS"), ruleOnStack("G-onstack"), ruleCallback("M-cb"), ruleRecover("G-recover"),
		ruleUserErr("T-usererr"), ruleHomeView("HOME-VIEW"),
		ruleStaging("E-stage"), ruleDecFirst("M-dec-first"), ruleSoft("G-soft"), ruleOptZero("G-optzero"), ruleProvenance("T-provenance"), ruleSameInstance("T-same-instance"), ruleNoEarlyExit("L-no-early-exit"), ruleMissingPredicate("G-missing"),
		ruleAcyclicView("M-acyclic-view"), ruleFlagSound("G-flag"), ruleAcyclicProvide("M-acyclic-provide"), ruleCycleErr("W-cycleerr"), ruleOrders("X-orders"), ruleDFS("G-dfs"),
		ruleK1("K1"), ruleK2("K2"), ruleK3("K3"), ruleDupKey("G-dupkey"), ruleVisitExtract("X-visit-extract"),
		ruleUnwrap("X-unwrap"), ruleForeignCause("T-foreign-cause"),
		ruleP1("P1"), ruleRefl("E-REFL"),
		ruleSwitch("X-switch"), ruleEncodings("X-encodings"), ruleInfo("X-info"), ruleViz("X-viz"), ruleScopes("W-scopes"), ruleInherit("X-inherit"), ruleOrderFree("W-orderfree"), ruleAtomProvide("E-ATOM"), ruleAtomDecorate("E-ATOM"), ruleWOwners("W-owners"),
	}})
}
