package rules

import (
	"fmt"
	"go/token"
	"sort"
	"strings"

	"golang.org/x/tools/go/ssa"

	"verif/checker/internal/an"
)

// E-ATOM: no trace of a failed registration.

var persistentTypes = []string{"Scope", "graphHolder", "constructorNode", "decoratorNode", "ProvideInfo", "DecorateInfo", "InvokeInfo"}

// wevent is a direct persistent write.
type wevent struct {
	in    ssa.Instruction
	field string // "Scope.providers"
	base  string // normalised object written
	val   ssa.Value
	kind  string // "store", "mapupdate", "elem"
}

func persistentField(v ssa.Value) (field string, base ssa.Value, ok bool) {
	v = an.Resolve(v)
	for _, t := range persistentTypes {
		for {
			// see through one level of load
			if b, ok := fieldOfAny(v, t); ok {
				return b.field, b.base, true
			}
			break
		}
	}
	return "", nil, false
}

type fieldRef struct {
	field string
	base  ssa.Value
}

func fieldOfAny(v ssa.Value, typ string) (fieldRef, bool) {
	switch x := v.(type) {
	case *ssa.UnOp:
		if x.Op == token.MUL {
			return fieldOfAny(x.X, typ)
		}
	case *ssa.FieldAddr:
		if an.IsDigNamed(x.X.Type(), typ) {
			return fieldRef{typ + "." + an.FieldName(x.X.Type(), x.Field), x.X}, true
		}
	case *ssa.Field:
		if an.IsDigNamed(x.X.Type(), typ) {
			return fieldRef{typ + "." + an.FieldName(x.X.Type(), x.Field), x.X}, true
		}
	}
	return fieldRef{}, false
}

func isFresh(base ssa.Value, fn *ssa.Function) bool {
	base = an.Resolve(base)
	if al, ok := base.(*ssa.Alloc); ok && al.Parent() == fn {
		return true
	}
	return false
}

func directWrites(fn *ssa.Function) []wevent {
	var out []wevent
	an.Instrs(fn, func(in ssa.Instruction) {
		switch x := in.(type) {
		case *ssa.Store:
			if fa, ok := x.Addr.(*ssa.FieldAddr); ok {
				for _, t := range persistentTypes {
					if an.IsDigNamed(fa.X.Type(), t) && !isFresh(fa.X, fn) {
						out = append(out, wevent{in, t + "." + an.FieldName(fa.X.Type(), fa.Field), an.Norm(fa.X), x.Val, "store"})
					}
				}
				return
			}
			if ia, ok := x.Addr.(*ssa.IndexAddr); ok {
				if f, base, ok := persistentField(ia.X); ok && !isFresh(base, fn) {
					out = append(out, wevent{in, f + "[]", an.Norm(base), x.Val, "elem"})
				}
			}
		case *ssa.MapUpdate:
			if f, base, ok := persistentField(x.Map); ok && !isFresh(base, fn) {
				out = append(out, wevent{in, f, an.Norm(base), x.Value, "mapupdate"})
			}
		case *ssa.Call:
			if an.CalleeName(x) == "builtin delete" {
				if f, base, ok := persistentField(x.Common().Args[0]); ok && !isFresh(base, fn) {
					out = append(out, wevent{in, f, an.Norm(base), nil, "mapupdate"})
				}
			}
		}
	})
	return out
}

// isBoundary: nested executions are their own transactions.
func isBoundary(call ssa.CallInstruction) bool {
	cc := call.Common()
	if cc.IsInvoke() && cc.Method.Name() == "Call" && (an.IsDigNamed(cc.Value.Type(), "provider") || an.IsDigNamed(cc.Value.Type(), "decorator")) {
		return true
	}
	if an.SinkKind(call) != "" {
		return true
	}
	return false
}

type atomCtx struct {
	c      *an.Ctx
	writes map[*ssa.Function]map[string][]string // fn -> field -> witness chain
	done   map[*ssa.Function]bool
}

func (a *atomCtx) moduleCallees(call ssa.CallInstruction) []*ssa.Function {
	if isBoundary(call) {
		return nil
	}
	var out []*ssa.Function
	if f := an.StaticCallee(call); f != nil {
		if a.c.P.InModule(f) {
			out = append(out, f)
		}
		return out
	}
	if _, ok := call.Common().Value.(*ssa.Builtin); ok {
		return nil
	}
	for _, f := range an.CalleesAt(a.c.P.CHA(), call) {
		if a.c.P.InModule(f) && f.Synthetic == "" {
			out = append(out, f)
		} else if a.c.P.InModule(f) {
			// wrapper: follow to the wrapped function
			for _, g := range staticCalleesOf(f) {
				if a.c.P.InModule(g) {
					out = append(out, g)
				}
			}
		}
	}
	return out
}

func staticCalleesOf(f *ssa.Function) []*ssa.Function {
	var out []*ssa.Function
	an.Instrs(f, func(in ssa.Instruction) {
		if c, ok := in.(ssa.CallInstruction); ok {
			if g := an.StaticCallee(c); g != nil {
				out = append(out, g)
			}
		}
	})
	return out
}

// summary computes the persistent fields a function may write, transitively.
func (a *atomCtx) summary(fn *ssa.Function) map[string][]string {
	if w, ok := a.writes[fn]; ok {
		return w
	}
	w := map[string][]string{}
	a.writes[fn] = w // recursion guard (fixpoint below)
	changed := true
	for changed {
		changed = false
		for _, e := range directWrites(fn) {
			if _, ok := w[e.field]; !ok {
				w[e.field] = []string{an.ShortName(fn) + " @" + a.c.P.InstrPos(e.in)}
				changed = true
			}
		}
		an.Instrs(fn, func(in ssa.Instruction) {
			call, ok := in.(ssa.CallInstruction)
			if !ok {
				return
			}
			for _, g := range a.moduleCallees(call) {
				var sub map[string][]string
				if g == fn {
					continue
				}
				sub = a.summary(g)
				for f, chain := range sub {
					if _, ok := w[f]; !ok {
						w[f] = append([]string{an.ShortName(fn) + " @" + a.c.P.InstrPos(in)}, chain...)
						changed = true
					}
				}
			}
			// deferred closures / closures created here
			if mc, ok := call.Common().Value.(*ssa.MakeClosure); ok {
				_ = mc
			}
		})
	}
	return w
}

func isErrorExit(ret *ssa.Return) bool {
	if len(ret.Results) == 0 {
		return false
	}
	last := ret.Results[len(ret.Results)-1]
	if !isErrorType(last) {
		return false
	}
	v := an.Resolve(last)
	if k, ok := v.(*ssa.Const); ok && k.IsNil() {
		return false
	}
	return true
}

func isErrorType(v ssa.Value) bool {
	return v.Type().String() == "error"
}

func errorExits(fn *ssa.Function) []*ssa.Return {
	var out []*ssa.Return
	an.Instrs(fn, func(in ssa.Instruction) {
		if r, ok := in.(*ssa.Return); ok && in.Block().Comment != "recover" && isErrorExit(r) {
			out = append(out, r)
		}
	})
	return out
}

// exempt fields: conservative-benign by meaning.
func exemptWrite(e wevent) (bool, string) {
	if e.field == "graphHolder.snap" {
		return true, "only read by Rollback"
	}
	if e.field == "Scope.isVerifiedAcyclic" && e.val != nil && an.Norm(e.val) == "false" {
		return true, "forces re-verification"
	}
	return false, ""
}

// transaction describes a registration entry point.
type transaction struct {
	root string
	// compensated decides whether the write of `field` (by event e in fn,
	// possibly through callee chain) followed by error exit x is compensated.
	// It returns (ok, reason).
	compensated func(a *atomCtx, fn *ssa.Function, at ssa.Instruction, field, base string, chain []string, x *ssa.Return) (bool, string)
}

func (a *atomCtx) analyse(rule string, tr *transaction, fn *ssa.Function, seen map[*ssa.Function]bool) {
	if seen[fn] {
		return
	}
	seen[fn] = true
	c := a.c
	c.See(fn)
	name := an.ShortName(fn)
	exits := errorExits(fn)
	report := func(at ssa.Instruction, field, base string, chain []string, via string, gates *an.Gates) {
		for _, x := range exits {
			hit, path := an.PathTo(fn, at, an.IsInstr(x), gates)
			if hit == nil {
				continue
			}
			cons := fmt.Sprintf("%s: %s / write %s%s / error exit %s", tr.root, name, field, via, exitLabel(x))
			if ok, why := tr.compensated(a, fn, at, field, base, chain, x); ok {
				c.OK(rule, cons, "compensated: "+why, at)
				continue
			}
			p := append(append([]string{}, chain...), an.BlockPath(c.P, path)...)
			c.Bad(rule, cons, "a persistent write to "+field+" on "+base+" can be followed by an error return of the registration without being undone on that object: the rejected call leaves a trace", at, p)
		}
	}
	for _, e := range directWrites(fn) {
		if ok, _ := exemptWrite(e); ok {
			continue
		}
		none := true
		for _, x := range exits {
			if hit, _ := an.PathTo(fn, e.in, an.IsInstr(x), nil); hit != nil {
				none = false
			}
		}
		if none {
			c.OK(rule, fmt.Sprintf("%s: %s / write %s / no error exit follows", tr.root, name, e.field), "commit point", e.in)
			continue
		}
		report(e.in, e.field, e.base, nil, "", nil)
	}
	an.Instrs(fn, func(in ssa.Instruction) {
		call, ok := in.(ssa.CallInstruction)
		if !ok {
			return
		}
		if _, isDefer := in.(*ssa.Defer); isDefer {
			return
		}
		for _, g := range a.moduleCallees(call) {
			sub := a.summary(g)
			if len(sub) == 0 {
				continue
			}
			// callee failed: its own obligations
			a.analyse(rule, tr, g, seen)
			// callee succeeded, then fn fails
			var gates *an.Gates
			if cv, ok := in.(*ssa.Call); ok {
				idx := errResultIndex(g)
				if idx != -2 {
					ne := an.NonNilErrEdges(fn, cv, idx)
					ni := an.NilErrEdges(fn, cv, idx)
					if len(ne) > 0 && len(ni) > 0 {
						gates = an.NewGates().AddEdges(ne...)
					}
				}
			}
			var fields []string
			for f := range sub {
				fields = append(fields, f)
			}
			sort.Strings(fields)
			for _, f := range fields {
				if ok, _ := exemptWrite(wevent{field: f}); ok {
					continue
				}
				if f == "Scope.isVerifiedAcyclic" {
					// only the constant-false form is exempt; look at the witness
				}
				report(in, f, "(in callee)", sub[f], " via "+an.ShortName(g), gates)
			}
		}
	})
}

// errResultIndex: index of the error result in g's results: -1 single error
// result, >=0 tuple index, -2 no error result.
func errResultIndex(g *ssa.Function) int {
	res := g.Signature.Results()
	if res.Len() == 0 {
		return -2
	}
	last := res.At(res.Len() - 1)
	if last.Type().String() != "error" {
		return -2
	}
	if res.Len() == 1 {
		return -1
	}
	return res.Len() - 1
}

func exitLabel(x *ssa.Return) string {
	v := an.Resolve(x.Results[len(x.Results)-1])
	s := an.Norm(v)
	if al := compositeOf(v); al != nil {
		s = "new " + strings.TrimPrefix(al.Type().String(), "*")
	}
	s = strings.ReplaceAll(s, an.ModPath, "dig")
	if len(s) > 90 {
		s = s[:90] + "…"
	}
	return s
}

// ---------------------------------------------------------------------------
// Compensation structures of Provide

type provideShape struct {
	ok        bool
	why       string
	home      string          // normalised home scope value (receiver of appendSubscopes)
	loopExit  []an.Edge       // edges leaving the snapshot loop
	firstNode ssa.Instruction // newConstructorNode call
}

// checkSnapshotRollback verifies the snapshot/rollback structure of provide.
func checkSnapshotRollback(c *an.Ctx, rule string) *provideShape {
	sh := &provideShape{}
	fn := c.Fn(rule, "(*dig.Scope).provide")
	if fn == nil {
		return sh
	}
	fail := func(msg string, at ssa.Instruction) *provideShape {
		sh.why = msg
		c.Bad(rule, "Provide: graph nodes are rolled back on every scope of the affected subtree", msg, at, nil)
		return sh
	}
	subs := an.CallsNamed(fn, "(*dig.Scope).appendSubscopes")
	if len(subs) != 1 {
		return fail(fmt.Sprintf("%d calls of appendSubscopes in provide", len(subs)), nil)
	}
	sub := subs[0].(*ssa.Call)
	sh.home = an.Norm(sub.Common().Args[0])
	allScopes := an.Norm(sub)
	ncs := an.CallsNamed(fn, "dig.newConstructorNode")
	if len(ncs) != 1 {
		return fail("newConstructorNode call not found", nil)
	}
	nc := ncs[0].(*ssa.Call)
	sh.firstNode = nc
	if an.Norm(nc.Common().Args[1]) != sh.home {
		return fail("the scope whose subtree is snapshotted ("+sh.home+") is not the home scope given to newConstructorNode ("+an.Norm(nc.Common().Args[1])+"): graph nodes are added to scopes that are not rolled back", nc)
	}
	// the snapshot loop
	var snap ssa.CallInstruction
	for _, k := range an.CallsNamed(fn, "(*dig.graphHolder).Snapshot") {
		if strings.HasPrefix(an.Norm(k.Common().Args[0]), allScopes+"[") && strings.HasSuffix(an.Norm(k.Common().Args[0]), ".gh") {
			snap = k
		}
	}
	if snap == nil {
		return fail("no gh.Snapshot() on the elements of appendSubscopes(nil)", sub)
	}
	// deferred rollback closure
	var def *ssa.Defer
	var cl *ssa.Function
	an.Instrs(fn, func(in ssa.Instruction) {
		d, ok := in.(*ssa.Defer)
		if !ok {
			return
		}
		f := an.StaticCallee(d)
		if f == nil || f.Parent() != fn {
			return
		}
		if len(an.CallsNamed(f, "(*dig.graphHolder).Rollback")) > 0 {
			def, cl = d, f
		}
	})
	if def == nil {
		return fail("no deferred closure calling gh.Rollback(): graph nodes of a rejected constructor stay in the graph", snap)
	}
	c.See(cl)
	rb := an.CallsNamed(cl, "(*dig.graphHolder).Rollback")[0]
	// receiver: <elem>.gh where elem is the loop element
	rrecv := an.Norm(rb.Common().Args[0])
	if rrecv != an.Norm(snap.Common().Args[0]) {
		return fail("Rollback is applied to "+rrecv+" but Snapshot to "+an.Norm(snap.Common().Args[0]), rb)
	}
	// guarded by err != nil on provide's named result
	cell := namedResultCell(fn)
	okGuard := false
	for _, e := range an.EdgesWhere(cl, func(f an.Fact) bool {
		b, ok := f.Cond.(*ssa.BinOp)
		if !ok {
			return false
		}
		ld, ok := b.X.(*ssa.UnOp)
		if !ok || ld.Op != token.MUL {
			return false
		}
		if freeVarRoot(ld.X) != ssa.Value(cell) {
			return false
		}
		return strings.HasSuffix(f.S, " != nil)")
	}) {
		if hit, _ := an.PathTo(cl, nil, an.IsInstr(rb), an.NewGates().AddEdges(e)); hit == nil {
			okGuard = true
		}
	}
	if !okGuard {
		return fail("Rollback is not guarded by the named error result of provide being non-nil", rb)
	}
	// every non-error path through the closure with err != nil reaches Rollback
	if hit, _ := an.PathTo(cl, nil, an.IsExit, an.NewGates().AddInstr(rb).AddEdges(an.EdgesWhere(cl, func(f an.Fact) bool { return strings.HasSuffix(f.S, " == nil)") })...)); hit != nil {
		return fail("with a non-nil error the deferred closure can return without calling Rollback", rb)
	}
	// loop: both snapshot and defer on every iteration; events after the loop
	loopTrue := an.EdgesWhere(fn, func(f an.Fact) bool {
		return strings.HasSuffix(f.S, " < len("+allScopes+"))") && f.Cond.Parent() == fn
	})
	var header *ssa.BasicBlock
	for _, e := range loopTrue {
		// the loop containing snap
		body := e.From.Succs[e.Succ]
		if hit, _ := an.PathTo(fn, body.Instrs[0], an.IsInstr(snap), nil); hit != nil || body == snap.Block() {
			if h2, _ := an.PathTo(fn, snap, an.IsInstr(e.From.Instrs[len(e.From.Instrs)-1]), nil); h2 != nil {
				header = e.From
			}
		}
	}
	if header == nil {
		return fail("Snapshot is not inside a loop over appendSubscopes(nil)", snap)
	}
	sh.loopExit = []an.Edge{{From: header, Succ: 1}}
	body := header.Succs[0]
	backToHeader := func(i ssa.Instruction) bool { return i.Block() == header || an.IsExit(i) }
	for _, need := range []ssa.Instruction{snap, def} {
		if need.Block() == body {
			continue
		}
		if hit, _ := an.PathTo(fn, body.Instrs[0], backToHeader, an.NewGates().AddInstr(need)); hit != nil {
			return fail("an iteration of the snapshot loop can skip Snapshot or the Rollback defer for some scope of the subtree", need)
		}
	}
	// the first graph mutation comes after the loop has completed
	if hit, _ := an.PathTo(fn, nil, an.IsInstr(nc), an.NewGates().AddEdges(sh.loopExit...)); hit != nil {
		return fail("newConstructorNode can run before all scopes were snapshotted", nc)
	}
	// Snapshot / Rollback bodies
	if sf := c.Fn(rule, "(*dig.graphHolder).Snapshot"); sf != nil {
		ok := false
		for _, st := range an.StoresToField(sf, "graphHolder", "snap") {
			if an.Norm(st.Val) == "len(p:gh.nodes)" {
				ok = true
			}
		}
		if !ok {
			return fail("Snapshot does not record len(gh.nodes)", nil)
		}
		if countIfs(sf) != 0 {
			return fail("Snapshot records the node count only conditionally: a mark left over from an earlier, successful Provide is kept and a later rejection rolls back to it, removing graph nodes of accepted constructors", nil)
		}
	}
	if rf := c.Fn(rule, "(*dig.graphHolder).Rollback"); rf != nil {
		ok := false
		for _, st := range an.StoresToField(rf, "graphHolder", "nodes") {
			if sl, isSl := st.Val.(*ssa.Slice); isSl && an.Norm(sl.X) == "p:gh.nodes" && sl.Low == nil && sl.High != nil && an.Norm(sl.High) == "p:gh.snap" {
				ok = true
			}
		}
		if !ok {
			return fail("Rollback does not truncate gh.nodes to gh.snap", nil)
		}
	}
	sh.ok = true
	c.OK(rule, "Provide: graph nodes are rolled back on every scope of the affected subtree", "appendSubscopes("+sh.home+") snapshotted and rollback deferred per scope before newConstructorNode; Rollback guarded by err != nil", snap)
	return sh
}

// ruleAtomProvide: E-ATOM on Provide.
func ruleAtomProvide(rule string) RuleFn {
	return func(c *an.Ctx) {
		c.Rule(rule, "E-ATOM (Provide): every persistent write (Store/MapUpdate/delete through a field of Scope, graphHolder, constructorNode, decoratorNode, ProvideInfo, DecorateInfo, InvokeInfo on a non-fresh object), direct or through module callees (interface calls resolved by CHA; nested provider/decorator executions are their own transactions), that can be followed by an error return of the registration must be compensated on the same object: graphHolder.nodes by the snapshot/deferred-rollback structure over appendSubscopes(home) established before the first graph mutation; Scope.providers by a restoring update of the same scope object on every path to that exit; nothing else is compensable. Exempt: graphHolder.snap, stores of constant false to Scope.isVerifiedAcyclic. Reasoned exception: isVerifiedAcyclic=true followed by a cycle in a later scope (rollback only removes nodes; the verified scope stays acyclic)")
		a := &atomCtx{c: c, writes: map[*ssa.Function]map[string][]string{}}
		root := c.Fn(rule, "(*dig.Scope).Provide")
		if root == nil {
			return
		}
		sh := checkSnapshotRollback(c, rule)
		prov := c.P.Func("(*dig.Scope).provide")
		tr := &transaction{root: "Provide"}
		tr.compensated = func(a *atomCtx, fn *ssa.Function, at ssa.Instruction, field, base string, chain []string, x *ssa.Return) (bool, string) {
			switch field {
			case "graphHolder.nodes":
				if !sh.ok {
					return false, ""
				}
				// the write must happen after the snapshot loop: either inside provide after the loop, or in a callee of it
				if fn == prov {
					if hit, _ := an.PathTo(fn, nil, an.IsInstr(at), an.NewGates().AddEdges(sh.loopExit...)); hit != nil {
						return false, ""
					}
				} else if fn == root {
					// in Provide itself the only path to graph writes is through provide
					if k, ok := at.(ssa.CallInstruction); !ok || an.StaticCallee(k) != prov {
						return false, ""
					}
				}
				return true, "snapshot/rollback over the home scope's subtree"
			case "Scope.providers":
				if fn != prov {
					if fn == root {
						if k, ok := at.(ssa.CallInstruction); ok && an.StaticCallee(k) == prov {
							return true, "provide's own exits are checked separately"
						}
					}
					return false, ""
				}
				mu, ok := at.(*ssa.MapUpdate)
				if !ok {
					return false, ""
				}
				if rng := restoreLoop(mu); rng != nil {
					// this update is itself a restoring write: it compensates an
					// original update of the same object that leads here
					for _, e := range directWrites(fn) {
						if o, isMU := e.in.(*ssa.MapUpdate); isMU && e.field == "Scope.providers" && e.base == base && restoreLoop(o) == nil {
							if hit, _ := an.PathTo(fn, o, an.IsInstr(at), nil); hit != nil {
								return true, "is the restoring write for the update at " + a.c.P.InstrPos(o)
							}
						}
					}
					return false, ""
				}
				g := an.NewGates()
				for _, e := range directWrites(fn) {
					r, isMU := e.in.(*ssa.MapUpdate)
					if !isMU || e.field != "Scope.providers" || e.in == at || e.base != base {
						continue
					}
					rng := restoreLoop(r)
					if rng == nil || !savedFrom(rng, mu) {
						continue
					}
					// R must execute on every iteration of its loop
					g.AddInstr(rng)
				}
				if g.Len() == 0 {
					return false, ""
				}
				if hit, _ := an.PathTo(fn, at, an.IsInstr(x), g); hit != nil {
					return false, ""
				}
				return true, "restored from the saved entries on the same scope before this exit"
			case "Scope.isVerifiedAcyclic":
				if fn == prov {
					// reasoned exception (frozen): verified=true then a later scope finds a cycle
					return true, "reasoned exception: rollback only removes nodes and edges; a scope verified acyclic stays acyclic"
				}
				if fn == root {
					return true, "provide's own exits are checked separately"
				}
			}
			if fn == root {
				if k, ok := at.(ssa.CallInstruction); ok && an.StaticCallee(k) == prov {
					// error exit of Provide after provide() returned: only on its non-nil edge
					return false, ""
				}
			}
			return false, ""
		}
		a.analyse(rule, tr, root, map[*ssa.Function]bool{})
	}
}

// restoreLoop: if update r writes r.Map[k] = v where k, v are the key and
// value of an iteration over a local map (for k, v := range saved), it returns
// that Range instruction; the update must execute on every iteration.
func restoreLoop(r *ssa.MapUpdate) *ssa.Range {
	kx, ok1 := r.Key.(*ssa.Extract)
	vx, ok2 := r.Value.(*ssa.Extract)
	if !ok1 || !ok2 || kx.Tuple != vx.Tuple || kx.Index != 1 || vx.Index != 2 {
		return nil
	}
	nx, ok := kx.Tuple.(*ssa.Next)
	if !ok {
		return nil
	}
	rng, ok := nx.Iter.(*ssa.Range)
	if !ok {
		return nil
	}
	if _, ok := rng.X.(*ssa.MakeMap); !ok {
		return nil
	}
	// every iteration performs the update: from the Next instruction, taking
	// the "has element" edge, the loop header cannot be reached again without
	// passing r
	fn := r.Parent()
	hasElem := an.EdgesWhere(fn, func(f an.Fact) bool {
		ex, ok := f.Cond.(*ssa.Extract)
		return ok && ex.Tuple == ssa.Value(nx) && ex.Index == 0 && !f.Neg
	})
	if len(hasElem) != 1 {
		return nil
	}
	body := hasElem[0].From.Succs[hasElem[0].Succ]
	if hit, _ := an.PathTo(fn, body.Instrs[0], func(i ssa.Instruction) bool { return i == ssa.Instruction(nx) || an.IsExit(i) }, an.NewGates().AddInstr(r)); hit != nil && body != r.Block() {
		return nil
	}
	return rng
}

// savedFrom: the local map iterated by rng was filled, in the loop of the
// original update orig, with saved[k] = <orig.Map>[k] for the same key before
// the original update.
func savedFrom(rng *ssa.Range, orig *ssa.MapUpdate) bool {
	saved := rng.X
	fn := orig.Parent()
	ok := false
	an.Instrs(fn, func(in ssa.Instruction) {
		mu, isMU := in.(*ssa.MapUpdate)
		if !isMU || mu.Map != saved {
			return
		}
		lk, isLk := mu.Value.(*ssa.Lookup)
		if !isLk || an.Norm(lk.X) != an.Norm(orig.Map) {
			return
		}
		if lk.Index != mu.Key {
			return
		}
		if mu.Key != orig.Key {
			// a separate, complete earlier loop over the same key collection
			if an.Norm(mu.Key) != an.Norm(orig.Key) {
				return
			}
			// every path from entry to the update passes the exhausted exit of the saving loop
			nx := rangeNextOf(mu.Key)
			if nx == nil {
				return
			}
			exhausted := an.EdgesWhere(fn, func(f an.Fact) bool {
				ex, ok := f.Cond.(*ssa.Extract)
				return ok && ex.Tuple == ssa.Value(nx) && ex.Index == 0 && f.Neg
			})
			if len(exhausted) == 0 {
				return
			}
			if hit, _ := an.PathTo(fn, nil, an.IsInstr(orig), an.NewGates().AddEdges(exhausted...)); hit == nil {
				ok = true
			}
			return
		}
		// the save precedes the update in the same iteration
		if mu.Block() == orig.Block() && indexOf(mu.Block(), mu) < indexOf(orig.Block(), orig) {
			ok = true
		}
	})
	return ok
}

// ruleAtomDecorate: E-ATOM on Decorate.
func ruleAtomDecorate(rule string) RuleFn {
	return func(c *an.Ctx) {
		c.Rule(rule, "E-ATOM (Decorate): as for Provide; nothing is compensable in Decorate, so every persistent write must come after the last error exit. Reasoned exception: graph nodes of kind *paramGroupedSlice appended through newParamGroupedSlice and not rolled back (nothing holds their index, they have no incoming edge, IsAcyclic's verdict cannot change; leak only)")
		a := &atomCtx{c: c, writes: map[*ssa.Function]map[string][]string{}}
		root := c.Fn(rule, "(*dig.Scope).Decorate")
		if root == nil {
			return
		}
		tr := &transaction{root: "Decorate"}
		tr.compensated = func(a *atomCtx, fn *ssa.Function, at ssa.Instruction, field, base string, chain []string, x *ssa.Return) (bool, string) {
			if field == "graphHolder.nodes" {
				via := false
				for _, s := range chain {
					if strings.HasPrefix(s, "dig.newParamGroupedSlice ") {
						via = true
					}
				}
				if an.ShortName(fn) == "dig.newParamGroupedSlice" {
					// the node must be complete and validated when it is added:
					// an error exit of newParamGroupedSlice after the node was
					// added leaves an unvalidated node in the graph
					return false, ""
				}
				if via {
					return true, "reasoned exception: unreferenced *paramGroupedSlice graph node (no incoming edge; leak only)"
				}
			}
			return false, ""
		}
		a.analyse(rule, tr, root, map[*ssa.Function]bool{})
		// Invoke's registration-like part: building the parameter list of the
		// invoked function adds group nodes that are never rolled back either.
		if pl := c.Fn(rule, "dig.newParamList"); pl != nil {
			tr2 := &transaction{root: "Invoke/newParamList", compensated: tr.compensated}
			a.analyse(rule, tr2, pl, map[*ssa.Function]bool{})
		}
	}
}

// privateHelperOf reports whether fn is (transitively) called only from the
// allowed owner functions and never has its address taken: such a helper is an
// extracted part of its owner and shares its ownership.
func privateHelperOf(c *an.Ctx, fn *ssa.Function, owners map[string]bool, depth int) bool {
	if depth > 3 || fn.Parent() != nil {
		return false
	}
	if o := fn.Object(); o != nil && o.Exported() {
		return false
	}
	n := 0
	ok := true
	for _, g := range c.P.Funcs {
		an.Instrs(g, func(in ssa.Instruction) {
			for _, op := range in.Operands(nil) {
				if *op != ssa.Value(fn) {
					continue
				}
				k, isCall := in.(ssa.CallInstruction)
				if !isCall || k.Common().Value != ssa.Value(fn) {
					ok = false // address taken
					continue
				}
				if g == fn {
					continue // a recursive call adds no caller
				}
				n++
				caller := an.ShortName(g)
				if i := strings.Index(caller, "$"); i > 0 {
					caller = caller[:i]
				}
				if !owners[caller] && !(g != fn && privateHelperOf(c, g, owners, depth+1)) {
					ok = false
				}
			}
		})
	}
	return ok && n > 0
}

// ruleWOwners: fields of the registration state are written only inside the
// transactions that own them.
func ruleWOwners(rule string) RuleFn {
	return func(c *an.Ctx) {
		c.Rule(rule, "E-WHO: each of the four value stores of Scope (values, decoratedValues, groups, decoratedGroups) is written only by its setter (and newScope); Scope.providers is written only in Scope.provide (and newScope); Scope.decorators only in Scope.Decorate (and newScope); Scope.nodes only in Scope.provide; graphHolder.nodes only in graphHolder.NewNode, graphHolder.Rollback and Scope.Scope (copy for a new child)")
		owners := map[string]map[string]bool{
			"Scope.providers":   {"(*dig.Scope).provide": true, "dig.newScope": true},
			"Scope.decorators":  {"(*dig.Scope).Decorate": true, "dig.newScope": true},
			"Scope.nodes":       {"(*dig.Scope).provide": true},
			"graphHolder.nodes": {"(*dig.graphHolder).NewNode": true, "(*dig.graphHolder).Rollback": true, "(*dig.Scope).Scope": true},
			// the four value stores have exactly one writer function each (their setter)
			"Scope.values":          {"(*dig.Scope).setValue": true, "dig.newScope": true},
			"Scope.decoratedValues": {"(*dig.Scope).setDecoratedValue": true, "dig.newScope": true},
			"Scope.groups":          {"(*dig.Scope).submitGroupedValue": true, "dig.newScope": true},
			"Scope.decoratedGroups": {"(*dig.Scope).submitDecoratedGroupedValue": true, "dig.newScope": true},
		}
		count := map[string]int{}
		for _, fn := range c.P.Funcs {
			var evs []wevent
			evs = append(evs, directWrites(fn)...)
			// fresh-object initialisation counts for ownership purposes too
			an.Instrs(fn, func(in ssa.Instruction) {
				if st, ok := in.(*ssa.Store); ok {
					if fa, ok := st.Addr.(*ssa.FieldAddr); ok && isFresh(fa.X, fn) {
						for _, t := range persistentTypes {
							if an.IsDigNamed(fa.X.Type(), t) {
								evs = append(evs, wevent{in, t + "." + an.FieldName(fa.X.Type(), fa.Field), "fresh", st.Val, "store"})
							}
						}
					}
				}
			})
			for _, e := range evs {
				f := strings.TrimSuffix(e.field, "[]")
				ow, ok := owners[f]
				if !ok {
					continue
				}
				count[f]++
				nm := an.ShortName(fn)
				base := nm
				if i := strings.Index(nm, "$"); i > 0 {
					base = nm[:i]
				}
				isOwner := ow[base]
				how := "owner"
				if !isOwner && privateHelperOf(c, fn, ow, 0) {
					isOwner, how = true, "private helper called only from the owner(s)"
				}
				c.Check(isOwner, rule, f+" written in "+nm, how, f+" is written outside its owning transaction: registration state changes without the transaction's validation and compensation", e.in, nil)
			}
		}
		for f := range owners {
			min := 2
			if f == "Scope.nodes" {
				min = 1
			}
			c.Floor(rule, "writes of "+f, count[f], min)
		}
	}
}

// ruleDecorateDup (G-decorate-dup, C12/C06): at most one decorator per key per
// scope, checked for all keys before any is registered.
func ruleDecorateDup(rule string) RuleFn {
	return func(c *an.Ctx) {
		c.Rule(rule, "G-decorate-dup: in Scope.Decorate every update of Scope.decorators uses a key of findResultKeys(dn.results); a lookup of the same map under a key of the same collection, whose hit edge leads only to error returns, comes first - either on the same iteration (its miss edge dominates the update) or as a complete earlier loop over the collection whose exhausted exit dominates the update; the registered value is the node built from the decorator argument")
		fn := c.Fn(rule, "(*dig.Scope).Decorate")
		if fn == nil {
			return
		}
		frk := an.CallsNamed(fn, "dig.findResultKeys")
		if len(frk) != 1 {
			c.BadAt(rule, "Decorate computes the keys it decorates", "no single findResultKeys call", c.P.Pos(fn.Pos()), nil)
			return
		}
		keys := an.Norm(frk[0].(*ssa.Call)) + "#0"
		var lookups []*ssa.Lookup
		var updates []*ssa.MapUpdate
		an.Instrs(fn, func(in ssa.Instruction) {
			switch x := in.(type) {
			case *ssa.Lookup:
				if an.Norm(x.X) == "p:s.decorators" && x.CommaOk && strings.HasPrefix(an.Norm(x.Index), keys+"[") {
					lookups = append(lookups, x)
				}
			case *ssa.MapUpdate:
				if an.Norm(x.Map) == "p:s.decorators" {
					updates = append(updates, x)
				}
			}
		})
		if len(updates) == 0 {
			c.BadAt(rule, "Decorate registers the decorator", "no update of Scope.decorators", c.P.Pos(fn.Pos()), nil)
			return
		}
		gates := an.NewGates()
		okHit := len(lookups) > 0
		for _, l := range lookups {
			ll := l
			hit := an.BoolEdges(fn, func(v ssa.Value) bool {
				ex, ok := v.(*ssa.Extract)
				return ok && ex.Tuple == ssa.Value(ll) && ex.Index == 1
			}, true)
			miss := an.BoolEdges(fn, func(v ssa.Value) bool {
				ex, ok := v.(*ssa.Extract)
				return ok && ex.Tuple == ssa.Value(ll) && ex.Index == 1
			}, false)
			if len(hit) == 0 {
				okHit = false
			}
			for _, e := range hit {
				if !onlyReachableErr(fn, e) {
					okHit = false
				}
			}
			// same-iteration form
			gates.AddEdges(miss...)
		}
		// complete-earlier-loop form: a range loop over keys containing a lookup
		loopForm := an.NewGates()
		for _, rl := range rangeLoops(fn) {
			if rl.over != keys {
				continue
			}
			has := false
			for _, l := range lookups {
				if rl.body[l.Block()] {
					has = true
				}
			}
			if !has {
				continue
			}
			clean := true
			for _, e := range rl.earlyExits() {
				if !onlyReachableErr(fn, e) {
					clean = false
				}
			}
			// the lookup happens on every iteration
			for _, l := range lookups {
				if rl.body[l.Block()] {
					body := rl.header.Succs[0]
					if hit, _ := an.PathTo(fn, body.Instrs[0], func(i ssa.Instruction) bool { return i.Block() == rl.header }, an.NewGates().AddInstr(l)); hit != nil && l.Block() != body {
						clean = false
					}
				}
			}
			if clean {
				loopForm.AddEdges(an.Edge{From: rl.header, Succ: 1})
			}
		}
		c.Check(okHit, rule, "Decorate: an already decorated key is an error", "hit edge leads only to error returns", "a key that already has a decorator in this scope is not rejected: two decorators for one key in one scope", nil, nil)
		for _, u := range updates {
			cons := "Decorate: the duplicate check precedes the registration of each key"
			kn := an.Norm(u.Key)
			if !strings.HasPrefix(kn, keys+"[") {
				c.Bad(rule, "Decorate registers exactly the keys of the decorator's results", "the decorators map is updated under "+kn+", not under a key of findResultKeys(dn.results)", u, nil)
				continue
			}
			c.OK(rule, "Decorate registers exactly the keys of the decorator's results", kn, u)
			// same iteration: index expression equal to a lookup's and dominated by its miss edge
			same := an.NewGates()
			for _, l := range lookups {
				if an.Norm(l.Index) == kn {
					ll := l
					same.AddEdges(an.BoolEdges(fn, func(v ssa.Value) bool {
						ex, ok := v.(*ssa.Extract)
						return ok && ex.Tuple == ssa.Value(ll) && ex.Index == 1
					}, false)...)
				}
			}
			h1, _ := an.PathTo(fn, nil, an.IsInstr(u), same)
			h2, p2 := an.PathTo(fn, nil, an.IsInstr(u), loopForm)
			if (same.Len() > 0 && h1 == nil) || (loopForm.Len() > 0 && h2 == nil) {
				c.OK(rule, cons, "lookup first", u)
			} else {
				c.Bad(rule, cons, "a decorator can be registered for a key without that key having been checked: a second decorator replaces the first", u, an.BlockPath(c.P, p2))
			}
			v := an.Norm(u.Value)
			c.Check(strings.HasPrefix(v, "dig.newDecoratorNode(p:decorator, p:s,") && strings.HasSuffix(v, "#0"), rule, "Decorate registers the node built from its argument in the receiver scope", v, "the registered value is "+v, u, nil)
		}
	}
}

// rangeNextOf: for the key of a map iteration (Extract #1 of Next), the Next.
func rangeNextOf(v ssa.Value) *ssa.Next {
	ex, ok := v.(*ssa.Extract)
	if !ok || ex.Index != 1 {
		return nil
	}
	nx, _ := ex.Tuple.(*ssa.Next)
	return nx
}
